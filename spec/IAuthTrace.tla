----------------------------- MODULE IAuthTrace -----------------------------
(***************************************************************************)
(* Trace validation.  The ndjson file named by the environment variable    *)
(* TRACE holds steps recorded from the REAL daemon (vlib/daemon.py):       *)
(*   {"e":"Reset","cfg":{...}}            fresh daemon process             *)
(*   {"e":"S","ev":{..},"o":[..],"n":k}   one input line, its parsed       *)
(*                                         output, in-use count reported   *)
(*   {"e":"Crash","ev":{..},...}          the daemon died inside a step    *)
(* Each line is consumed by exactly one step of this specification, which  *)
(*  (1) feeds the event and the OBSERVED output to the contract monitor    *)
(*      (IAuthContract!CStep): violated conjuncts are printed as "@@V";    *)
(*  (2) takes the same event with the implementation-shaped spec (IAuth)   *)
(*      and compares its predicted output with the observed one: a         *)
(*      difference is printed as "@@D" (drift), once per history.          *)
(* The walk is deterministic: one successor per line, so the trace is      *)
(* accepted iff TLC reaches depth Len(TraceLog) + 1.                       *)
(***************************************************************************)
EXTENDS IAuth, Json, IOUtils

VARIABLES l, cst, bad, drifted

A == INSTANCE IAuthContract

TraceLog == ndJsonDeserialize(IOEnv.TRACE)
TraceCfg == TraceLog[1].cfg
TraceServices == TraceCfg.svcs
TraceTimeoutOn == TraceCfg.timeout
TraceBug == {}

tvars == <<serial, req, slots, ev, out, l, cst, bad, drifted>>

ContractCfg == [svcs |-> IF XQ THEN Services ELSE << >>, required |-> IauthFlags, timeout |-> TimeoutOn, xq |-> XQ,
                cls |-> IF "cls" \in DOMAIN TraceCfg THEN TraceCfg.cls ELSE [on |-> FALSE, acct |-> "", none |-> ""]]

TInit == /\ Init
         /\ l = 1
         /\ cst = A!CInit(ContractCfg)
         /\ bad = {}
         /\ drifted = FALSE

\* observed output with the fields B does not predict erased
Erase(m) == IF "atext" \in DOMAIN m THEN
                (IF "cls" \in DOMAIN m THEN [m EXCEPT !.atext = "*", !.cls = "*"] ELSE [m EXCEPT !.atext = "*"])
            ELSE m
\* B does not model iauth_class: the class field is erased and the U lines of a trust_username rule are left out
NoU(o) == SelectSeq(o, LAMBDA m : m.k # "U")
ErasedOut(o) == LET p == NoU(o) IN [k \in 1..Len(p) |-> Erase(p[k])]

TReset == /\ TraceLog[l].e = "Reset"
          /\ serial' = 0 /\ req' = <<>> /\ slots' = InitSlots /\ ev' = [e |-> "init"] /\ out' = <<>>
          /\ cst' = A!CInit(ContractCfg)
          /\ bad' = {} /\ drifted' = FALSE
          /\ l' = l + 1

TStep == /\ TraceLog[l].e = "S"
         /\ LET rec == TraceLog[l]
                r == A!CStep(cst, rec.ev, rec.o, rec.n)
            IN /\ Step(rec.ev)
               /\ cst' = r.c
               /\ bad' = bad \cup r.v          \* each conjunct is reported once per history
               /\ IF r.v \subseteq bad THEN TRUE ELSE PrintT("@@V" \o ToJson([l |-> l, v |-> r.v \ bad]))
               /\ LET d == (out' # ErasedOut(rec.o)) \/ (rec.n # -1 /\ rec.n # Cardinality(DOMAIN req'))
                  IN /\ drifted' = (drifted \/ d)
                     /\ IF drifted \/ ~d THEN TRUE
                        ELSE PrintT("@@D" \o ToJson([l |-> l, want |-> out', wantn |-> Cardinality(DOMAIN req')]))
         /\ l' = l + 1

\* the daemon died (or hung) inside a step: the step never completed
TCrash == /\ TraceLog[l].e = "Crash"
          /\ PrintT("@@V" \o ToJson([l |-> l, v |-> {"crash"}]))
          /\ UNCHANGED <<serial, req, slots, ev, out, cst, drifted>>
          /\ bad' = bad \cup {"crash"}
          /\ l' = l + 1

\* end of input: the daemon must exit with status 0 and without a sanitizer report
TEof == /\ TraceLog[l].e = "Eof"
        /\ LET rec == TraceLog[l]
               v == (IF rec.exit # 0 THEN {"exit"} ELSE {}) \cup (IF rec.san # "" THEN {"sanitizer"} ELSE {})
           IN /\ bad' = bad \cup v
              /\ IF v \subseteq bad THEN TRUE ELSE PrintT("@@V" \o ToJson([l |-> l, v |-> v \ bad]))
        /\ UNCHANGED <<serial, req, slots, ev, out, cst, drifted>>
        /\ l' = l + 1

TNext == l <= Len(TraceLog) /\ (TReset \/ TStep \/ TCrash \/ TEof)

TSpec == TInit /\ [][TNext]_tvars
=============================================================================
