SPECIFICATION MCSpec
CONSTANTS Keys = {1, 2, 3}
  StaleMode = "poison"
  BugStaleLinks = TRUE
VIEW View
INVARIANTS InsertIgnoresStale
