"""Run TLC (always under a timeout, own -metadir) and parse what it reports."""
import os
import re
import shutil
import subprocess
import tempfile
import time

JAR = "/opt/veriftools/tla/tla2tools.jar"
DEPS = "/opt/veriftools/tla/CommunityModules-deps.jar"
SPEC_DIR = os.path.join(os.path.dirname(os.path.dirname(os.path.abspath(__file__))), "spec")


class TLCError(Exception):
    """TLC failed for a reason that is not a property violation (parse error, JVM, timeout)."""


class TLCResult:
    def __init__(self):
        self.generated = 0        # states generated == transitions explored (+ initial states)
        self.distinct = 0
        self.depth = 0
        self.violated = None      # name of violated invariant / property, or "deadlock", "postcondition", "eval-error"
        self.violation_text = ""
        self.trace = []           # list of raw state texts of the counterexample
        self.coverage = {}        # action name -> (taken/distinct, generated)
        self.printed = []         # lines printed by Print/PrintT ("@@"-prefixed JSON strings are unquoted by caller)
        self.output = ""
        self.wall_s = 0.0
        self.rc = 0

    @property
    def ok(self):
        return self.violated is None


_RE_STATES = re.compile(r"(\d+) states generated, (\d+) distinct states found")
_RE_DEPTH = re.compile(r"The depth of the complete state graph search is (\d+)")
_RE_INV = re.compile(r"Error: Invariant (\S+) is violated")
_RE_PROP = re.compile(r"Error: (?:Action|Temporal) propert(?:y|ies) (\S*) ?(?:is|were) violated")
_RE_COV = re.compile(r"^<(\w+) line \d+, col \d+ to line \d+, col \d+ of module (\w+)>: (\d+):(\d+)")


def run(module, cfg, *, workers=1, timeout=600, env=None, simulate=None, depth=None, coverage=False,
        java_opts=None, heap="4g", spec_dir=None, deadlock=False, seed=None, dfs_queue=False,
        capture_printed=True, extra=None, stdout_path=None):
    """Run TLC on spec/<module>.tla with spec/<cfg>.  Returns TLCResult.

    simulate: None or "num=N" ; depth: simulation depth.
    stdout_path: if given, TLC's stdout is written there instead of being held in memory
    (used for behaviour emission); result.output then only holds the tail.
    """
    spec_dir = spec_dir or SPEC_DIR
    meta = tempfile.mkdtemp(prefix="tlc-meta-", dir=os.environ.get("VERIF_TLC_TMP",
                            os.path.join(os.environ.get("VERIF_SCRATCH", "/var/tmp"), "iauthd-verif")))
    jopts = ["-XX:+UseParallelGC", "-Xmx" + heap, "-Djava.io.tmpdir=" + meta]
    if workers == 1:
        jopts += ["-XX:ParallelGCThreads=2", "-XX:CICompilerCount=2"]
    if dfs_queue:
        jopts.append("-Dtlc2.tool.queue.IStateQueue=StateDeque")
    if java_opts:
        jopts += java_opts
    cmd = ["java"] + jopts + ["-cp", JAR + ":" + DEPS, "tlc2.TLC", "-metadir", meta, "-noGenerateSpecTE",
                             "-workers", str(workers), "-config", cfg]
    if not deadlock:
        cmd.append("-deadlock")   # -deadlock *disables* deadlock checking
    if simulate:
        cmd += ["-simulate", simulate]
        if depth:
            cmd += ["-depth", str(depth)]
    if seed is not None:
        cmd += ["-seed", str(seed)]
    if coverage:
        cmd += ["-coverage", "1"]
    if extra:
        cmd += extra
    cmd.append(module + ".tla")
    e = dict(os.environ)
    e.pop("JAVA_TOOL_OPTIONS", None)
    if env:
        e.update(env)
    t0 = time.time()
    r = TLCResult()
    try:
        if stdout_path:
            with open(stdout_path, "w") as fo:
                p = subprocess.run(cmd, cwd=spec_dir, stdout=fo, stderr=subprocess.STDOUT, env=e, timeout=timeout)
            out = _tail_and_filter(stdout_path)
        else:
            p = subprocess.run(cmd, cwd=spec_dir, stdout=subprocess.PIPE, stderr=subprocess.STDOUT, env=e,
                               timeout=timeout, text=True, errors="replace")
            out = p.stdout
    except subprocess.TimeoutExpired:
        shutil.rmtree(meta, ignore_errors=True)
        raise TLCError("TLC timed out after %ss: %s %s" % (timeout, module, cfg))
    finally:
        pass
    shutil.rmtree(meta, ignore_errors=True)
    r.wall_s = time.time() - t0
    r.rc = p.returncode
    r.output = out
    _parse(r, out, capture_printed)
    if r.violated is None and p.returncode != 0:
        # rc 0 = ok; 10 = assumption failure; 11 deadlock; 12 safety; 13 liveness; 75..=errors
        raise TLCError("TLC exited %d without a property violation (%s %s):\n%s" % (p.returncode, module, cfg, out[-3000:]))
    return r


def _tail_and_filter(path):
    """Keep TLC's own messages (drop the bulk of emitted '@@' lines) from a big stdout file."""
    keep = []
    with open(path, errors="replace") as f:
        for line in f:
            if line.startswith('"@@'):
                continue
            keep.append(line)
            if len(keep) > 20000:
                keep = keep[-10000:]
    return "".join(keep)


def _parse(r, out, capture_printed):
    m = None
    for m in _RE_STATES.finditer(out):
        pass
    if m:
        r.generated, r.distinct = int(m.group(1)), int(m.group(2))
    m = _RE_DEPTH.search(out)
    if m:
        r.depth = int(m.group(1))
    m = _RE_INV.search(out)
    if m:
        r.violated = m.group(1)
    else:
        m = _RE_PROP.search(out)
        if m:
            r.violated = m.group(1) or "property"
        elif "Error: Deadlock reached" in out:
            r.violated = "deadlock"
        elif "Error: The postcondition" in out or "Postcondition" in out and "violated" in out:
            r.violated = "postcondition"
        elif re.search(r"Error: Evaluating invariant (\S+) failed", out):
            r.violated = "eval-error:" + re.search(r"Error: Evaluating invariant (\S+) failed", out).group(1)
        elif "Error: The behavior up to this point is:" in out or "Error: The following behavior constitutes a counter-example" in out:
            r.violated = "error"
    if r.violated:
        i = out.find("Error:")
        r.violation_text = out[i:i + 6000]
        r.trace = re.findall(r"^State \d+: .*?(?=^State \d+: |\Z|^\d+ states generated)", out, re.S | re.M)
    for line in out.splitlines():
        m = _RE_COV.match(line)
        if m:
            r.coverage[m.group(1)] = (int(m.group(3)), int(m.group(4)))
        elif capture_printed and line.startswith('"@@'):
            r.printed.append(line)
    return r


def sany(module, spec_dir=None):
    p = subprocess.run(["java", "-cp", JAR + ":" + DEPS, "tla2sany.SANY", module + ".tla"], cwd=spec_dir or SPEC_DIR,
                       stdout=subprocess.PIPE, stderr=subprocess.STDOUT, text=True, timeout=120)
    return p.returncode == 0 and "Semantic errors" not in p.stdout and "Parsing or semantic analysis failed" not in p.stdout, p.stdout


def unquote_printed(line):
    """TLC prints a PrintT'd string value as a quoted TLA+ string; return the text after the @@X prefix."""
    import json
    s = line.strip()
    # TLA+ string escapes are a subset of JSON's
    try:
        return json.loads(s)
    except Exception:
        return s.strip('"').replace('\\"', '"').replace("\\\\", "\\")
