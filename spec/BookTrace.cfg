CONSTANTS
  Services <- TraceServices
  TimeoutOn <- TraceTimeoutOn
  Bug <- TraceBug
INIT BInit
NEXT BNext
