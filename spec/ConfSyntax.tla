------------------------------ MODULE ConfSyntax ------------------------------
(***************************************************************************)
(* The documented syntax of iauthd-c configuration files, at byte level    *)
(* (properties C16 and C14).                                               *)
(*                                                                         *)
(* Source of the grammar: the comment at the top of                        *)
(* doc/iauthd-c.conf.example:                                              *)
(*                                                                         *)
(*   file: contents                                                        *)
(*   contents: ( contents ';'|'\n' )? string value                         *)
(*   string: quoted string; or unquoted sequence of letters, digits,       *)
(*     '-', '.', '_' and '#'                                               *)
(*   value: string | inaddr | stringlist | object                          *)
(*   inaddr: string string                                                 *)
(*   stringlist: '(' ( ( string ',' )* string )? ')'                       *)
(*     | ( string ',' ( string ',' )* string )                             *)
(*   object: '{' contents '}'                                              *)
(*   Comments can be either C or C++ style.                                *)
(*                                                                         *)
(* This module contains                                                    *)
(*   - abstract configuration trees and their Meaning (what a consumer of  *)
(*     the configuration sees: later duplicates override, repeated objects *)
(*     merge);                                                             *)
(*   - Render(tree, tape): the admissible renderings of a tree; a layout   *)
(*     is a "choice tape" that is consulted at every point where the       *)
(*     syntax leaves a choice (string style, white space, comments, list   *)
(*     form, terminator);                                                  *)
(*   - Lex / Parse: a reader written from the grammar alone, independent   *)
(*     of the C code;                                                      *)
(*   - typed values: text, value as the sum of unit components, and an     *)
(*     independent evaluation of the text;                                 *)
(*   - generators for the trees over which the checks quantify.            *)
(* MCConfSyntax checks  Meaning(Parse(Render(t, l))) = Meaning(t).         *)
(*                                                                         *)
(* A string is a sequence of byte codes 1..255.                            *)
(*                                                                         *)
(* Where the 14-line grammar is silent, Render only produces what follows  *)
(* (the reading under which the parser as it stands is not blamed), and    *)
(* everything else is simply not generated:                                *)
(*  R1 a string is a bare word iff it is non-empty and consists of bare    *)
(*     characters; otherwise it is quoted.  Inside quotes: printable ASCII *)
(*     other than " and \ and bytes >= 128 may stand for themselves; the   *)
(*     escapes are \a \b \f \n \r \t \v, \xHH (exactly two hex digits,    *)
(*     either case), \" and \\.  Control bytes and 127 are always escaped. *)
(*     Not generated: NUL, \xH, \0, any other escape, raw newlines.        *)
(*  R2 names are strings (quoted names allowed); the empty name and names  *)
(*     differing only in letter case within one object are not generated   *)
(*     for the real parser (Meaning folds case, as the code does).         *)
(*  R3 every entry has exactly one terminator: ';', a newline (LF or CR LF,*)
(*     possibly after a // comment), or - for the last entry of a nested   *)
(*     object - nothing before the closing brace.  The last top-level      *)
(*     entry has an explicit terminator: end of file directly after a      *)
(*     value is not generated (DESIGN.md section 9).  No ";;".             *)
(*  R4 a newline is plain white space before an entry's name, after '{',   *)
(*     before '}', anywhere inside '(' ')', and at the end of the file; it *)
(*     is never put between name and value, host and service, or around    *)
(*     the commas of a bare comma list (there it would be a terminator).   *)
(*  R5 C comments may appear wherever white space may, also touching the   *)
(*     neighbouring tokens; comments spanning lines only where R4 allows a *)
(*     newline.  C++ comments only where a newline may follow, or as the   *)
(*     very last thing in the file.  Blanks are space, tab, CR (before LF).*)
(*  R6 two strings are separated by at least one blank or comment; next to *)
(*     a punctuation character the gap may be empty ("x{a b}", "l(a,b);"). *)
(*  R7 lists: "( )" with any number of items, bare comma list with at      *)
(*     least two; no trailing comma.  Empty objects "{}" are generated     *)
(*     (tests/coverage-1.conf uses one).                                   *)
(*  R8 an entry with the same name but another kind is another node (both  *)
(*     exist); same name and kind: the later value wins; objects merge.    *)
(***************************************************************************)
EXTENDS Naturals, Sequences, FiniteSets, TLC

-------------------------------------------------------------------------------
(* Bytes *)
TAB == 9       LF == 10      CR == 13      SP == 32      QUOTE == 34
LPAREN == 40   RPAREN == 41  STAR == 42    COMMA == 44   SLASH == 47
SEMI == 59     BSLASH == 92  LBRACE == 123 RBRACE == 125

Digits == 48..57
(* "unquoted sequence of letters, digits, '-', '.', '_' and '#'" *)
BareChars == Digits \cup (65..90) \cup (97..122) \cup {45, 46, 95, 35}
Blank == {SP, TAB, CR, 11, 12}          \* white space other than the newline
Punct == {LBRACE, RBRACE, LPAREN, RPAREN, COMMA, SEMI}

HexL == <<48,49,50,51,52,53,54,55,56,57,97,98,99,100,101,102>>
HexU == <<48,49,50,51,52,53,54,55,56,57,65,66,67,68,69,70>>
IsHex(c) == c \in Digits \cup (65..70) \cup (97..102)
HexVal(c) == IF c \in Digits THEN c - 48 ELSE IF c \in 65..70 THEN c - 55 ELSE c - 87

(* the escapes shown in tests/unit-tests.conf: \a \b \f \n \r \t \v \xHH; plus \" and \\ *)
NamedEsc == (7 :> 97) @@ (8 :> 98) @@ (12 :> 102) @@ (10 :> 110) @@ (13 :> 114) @@ (9 :> 116) @@ (11 :> 118)
    \* byte |-> letter after the backslash
EscLetter == (97 :> 7) @@ (98 :> 8) @@ (102 :> 12) @@ (110 :> 10) @@ (114 :> 13) @@ (116 :> 9) @@ (118 :> 11)
    \* letter |-> byte

IsStr(s) == \A i \in DOMAIN s : s[i] \in 1..255

-------------------------------------------------------------------------------
(* Abstract trees.  A tree is a sequence of entries in source order:       *)
(*   [n |-> name, k |-> "s", v |-> string]                                 *)
(*   [n |-> name, k |-> "p", h |-> host, s |-> service]                    *)
(*   [n |-> name, k |-> "l", items |-> sequence of strings]                *)
(*   [n |-> name, k |-> "o", ents |-> sequence of entries]                 *)
(* The same name may occur several times.                                  *)

RECURSIVE IsEnts(_, _)
IsEntry(e, d) ==
    /\ IsStr(e.n) /\ Len(e.n) > 0
    /\ CASE e.k = "s" -> IsStr(e.v)
         [] e.k = "p" -> IsStr(e.h) /\ IsStr(e.s)
         [] e.k = "l" -> \A i \in DOMAIN e.items : IsStr(e.items[i])
         [] e.k = "o" -> d > 0 /\ IsEnts(e.ents, d - 1)
         [] OTHER -> FALSE
IsEnts(es, d) == \A i \in DOMAIN es : IsEntry(es[i], d)

RECURSIVE CountEnts(_)
CountEnts(es) ==
    IF es = <<>> THEN 0
    ELSE 1 + (IF Head(es).k = "o" THEN CountEnts(Head(es).ents) ELSE 0) + CountEnts(Tail(es))

(* Meaning: the configuration a consumer sees.  Nodes are identified by    *)
(* (path of enclosing objects, name, kind); names compare without regard   *)
(* to ASCII letter case (the code orders siblings by strcasecmp(name) and  *)
(* then kind, so "a x" and "a (x)" are two nodes).  A later entry with the *)
(* same identity overrides an earlier one; a repeated object contributes   *)
(* its entries to the same object (so objects merge).                      *)
Fold(c) == IF c \in 65..90 THEN c + 32 ELSE c
FoldStr(s) == [i \in DOMAIN s |-> Fold(s[i])]

RECURSIVE Flat(_, _)
Flat(es, path) ==      \* <<key, value>> pairs in source order
    IF es = <<>> THEN <<>>
    ELSE LET e == Head(es)
             key == <<path, FoldStr(e.n), e.k>>
             here == CASE e.k = "s" -> << <<key, e.v>> >>
                       [] e.k = "p" -> << <<key, <<e.h, e.s>> >> >>
                       [] e.k = "l" -> << <<key, e.items>> >>
                       [] e.k = "o" -> << <<key, <<>> >> >> \o Flat(e.ents, Append(path, FoldStr(e.n)))
         IN here \o Flat(Tail(es), path)

LastWins(f) ==
    LET K == { f[i][1] : i \in DOMAIN f }
    IN [ k \in K |-> f[CHOOSE i \in DOMAIN f : f[i][1] = k /\ \A j \in DOMAIN f : f[j][1] = k => j <= i][2] ]

Meaning(t) == LastWins(Flat(t, <<>>))

RECURSIVE NamesIn(_)
NamesIn(es) ==         \* the spellings of all names used in a tree
    IF es = <<>> THEN {}
    ELSE {Head(es).n} \cup (IF Head(es).k = "o" THEN NamesIn(Head(es).ents) ELSE {}) \cup NamesIn(Tail(es))

-------------------------------------------------------------------------------
(* Rendering.                                                              *)

(* gaps where a newline is plain white space: before an entry's name, after '{', before '}',
   around the items and commas of a parenthesised list, at the end of the file *)
FreeGap == <<
    <<>>                                                        ,  \* 1: ''
    <<32>>                                                      ,  \* 2: ' '
    <<10>>                                                      ,  \* 3: '\n'
    <<9>>                                                       ,  \* 4: '\t'
    <<10,10,32,32>>                                             ,  \* 5: '\n\n  '
    <<47,42,32,99,32,42,47>>                                    ,  \* 6: '/* c */'
    <<32,47,47,32,99,10>>                                       ,  \* 7: ' // c\n'
    <<13,10>>                                                   ,  \* 8: '\r\n'
    <<47,42,10,32,42,32,109,117,108,116,105,32,59,32,125,32,34,32,108,105,110,101,10,32,42,47>>,  \* 9: '/*\n * multi ; } " line\n */'
    <<47,47,10>>                                                ,  \* 10: '//\n'
    <<47,42,42,47>>                                             ,  \* 11: '/**/'
    <<32,32,47,42,32,97,32,42,47,32,47,42,32,98,32,42,47,9>>    ,  \* 12: '  /* a */ /* b */\t'
    <<47,47,32,120,32,47,42,32,121,10>>                         ,  \* 13: '// x /* y\n'
    <<47,42,47,32,47,47,32,42,47>>                              ,  \* 14: '/*/ // */'
    <<47,42,42,42,47>>                                          ,  \* 15: '/***/'
    <<32,10,9,32,10>>                                              \* 16: ' \n\t \n'
>>

(* gaps inside an entry (between name and value, host and service, around the commas of
   a bare comma list, before the terminator): blanks and one-line C comments, no newline *)
InlineGap == <<
    <<32>>                                                      ,  \* 1: ' '
    <<9>>                                                       ,  \* 2: '\t'
    <<32,32>>                                                   ,  \* 3: '  '
    <<32,47,42,32,99,32,42,47,32>>                              ,  \* 4: ' /* c */ '
    <<47,42,32,99,32,42,47>>                                    ,  \* 5: '/* c */'   (comment touching both tokens)
    <<47,42,42,47>>                                             ,  \* 6: '/**/'
    <<32,9,32>>                                                 ,  \* 7: ' \t '
    <<47,42,32,59,32,125,32,41,32,44,32,47,47,32,34,32,42,47>>  ,  \* 8: '/* ; } ) , // " */'
    <<47,42,42,42,47>>                                          ,  \* 9: '/***/'
    <<47,42,47,32,42,47>>                                          \* 10: '/*/ */'
>>
InlineGap0 == << <<>> >> \o InlineGap      \* next to a punctuation character the gap may be empty

(* explicit entry terminators: ';' or a newline (possibly CR LF, possibly after a C++ comment) *)
Terminator == <<
    <<59>>                                                      ,  \* 1: ';'
    <<10>>                                                      ,  \* 2: '\n'
    <<47,47,32,99,32,59,32,125,10>>                             ,  \* 3: '// c ; }\n'
    <<13,10>>                                                   ,  \* 4: '\r\n'
    <<47,47,10>>                                                   \* 5: '//\n'
>>
(* the last entry of a nested object may also be followed directly by '}' (empty terminator) *)
TerminatorLast == << <<>> >> \o Terminator \o << <<>> >>

(* additional gaps admissible only at the end of the file: a comment that the end of file closes *)
EofGap == FreeGap \o <<
    <<47,47,32,99>>                                             ,  \* '// c'
    <<47,42,32,99,32,42,47>>                                    ,  \* '/* c */'
    <<32>>                                                         \* ' '
>>

Bareable(s) == Len(s) > 0 /\ \A i \in DOMAIN s : s[i] \in BareChars

HexEsc(c, tbl) == <<BSLASH, 120, tbl[(c \div 16) + 1], tbl[(c % 16) + 1]>>
MinEsc(c) ==     \* the least escaping: only what cannot stand for itself
    IF c = QUOTE \/ c = BSLASH THEN <<BSLASH, c>>
    ELSE IF c \in DOMAIN NamedEsc THEN <<BSLASH, NamedEsc[c]>>
    ELSE IF c < 32 \/ c = 127 THEN HexEsc(c, HexL)
    ELSE <<c>>

NStyles == 8
(* 0, 6, 7 bare word if possible (else 1)   1 quoted, least escaping       2 quoted, every byte \xhh
   3 quoted, every byte \xHH                4 quoted, alternating 1 and 2  5 quoted, controls and bytes >= 128 as \xHH *)
EscByte(c, style, pos) ==
    CASE style = 1 -> MinEsc(c)
      [] style = 2 -> HexEsc(c, HexL)
      [] style = 3 -> HexEsc(c, HexU)
      [] style = 4 -> IF pos % 2 = 1 THEN MinEsc(c) ELSE HexEsc(c, HexL)
      [] style = 5 -> IF c = QUOTE \/ c = BSLASH THEN <<BSLASH, c>>
                      ELSE IF c < 32 \/ c >= 127 THEN HexEsc(c, HexU) ELSE <<c>>

RECURSIVE QuoteBody(_, _, _)
QuoteBody(s, style, pos) ==
    IF pos > Len(s) THEN <<>> ELSE EscByte(s[pos], style, pos) \o QuoteBody(s, style, pos + 1)

StrText(s, style) ==
    IF style \in {0, 6, 7} /\ Bareable(s) THEN s
    ELSE <<QUOTE>> \o QuoteBody(s, IF style \in {0, 6, 7} THEN 1 ELSE style, 1) \o <<QUOTE>>

(* The choice at decision point i among n options. *)
Opt(tape, i, n) == tape[((i - 1) % Len(tape)) + 1] % n

(* Render(tree, tape): the bytes of the file.  The state threaded through the rendering is
   [o |-> bytes so far, i |-> number of the next decision].                                  *)
Render(tree, tape) ==
    LET Put(st, bytes) == [o |-> st.o \o bytes, i |-> st.i]
        Gap(st, tbl) == [o |-> st.o \o tbl[Opt(tape, st.i, Len(tbl)) + 1], i |-> st.i + 1]
        PutStr(st, s) == [o |-> st.o \o StrText(s, Opt(tape, st.i, NStyles)), i |-> st.i + 1]
        RECURSIVE RParen(_, _, _), RComma(_, _, _), REnts(_, _, _, _)
        RParen(st, items, k) ==        \* after '(' : items k.. and the ')'
            IF items = <<>> THEN Put(Gap(st, FreeGap), <<RPAREN>>)
            ELSE LET s3 == Gap(PutStr(Gap(st, FreeGap), items[k]), FreeGap)
                 IN IF k = Len(items) THEN Put(s3, <<RPAREN>>)
                    ELSE RParen(Put(s3, <<COMMA>>), items, k + 1)
        RComma(st, items, k) ==        \* bare comma list, at least two items
            LET s1 == PutStr(st, items[k])
            IN IF k = Len(items) THEN s1
               ELSE RComma(Gap(Put(Gap(s1, InlineGap0), <<COMMA>>), InlineGap0), items, k + 1)
        REntry(st, e, nested, last) ==
            LET s2 == PutStr(Gap(st, FreeGap), e.n)
                sv == CASE e.k = "s" -> PutStr(Gap(s2, InlineGap), e.v)
                        [] e.k = "p" -> PutStr(Gap(PutStr(Gap(s2, InlineGap), e.h), InlineGap), e.s)
                        [] e.k = "l" ->
                             LET comma == Len(e.items) >= 2 /\ Opt(tape, s2.i, 2) = 1
                                 s3 == [o |-> s2.o, i |-> s2.i + 1]
                             IN IF comma THEN RComma(Gap(s3, InlineGap), e.items, 1)
                                ELSE RParen(Put(Gap(s3, InlineGap0), <<LPAREN>>), e.items, 1)
                        [] e.k = "o" ->
                             Put(REnts(Put(Gap(s2, InlineGap0), <<LBRACE>>), e.ents, TRUE, 1), <<RBRACE>>)
                s5 == Gap(sv, InlineGap0)
                tbl == IF nested /\ last THEN TerminatorLast ELSE Terminator
                term == tbl[Opt(tape, s5.i, Len(tbl)) + 1]
                s6 == [o |-> s5.o \o term, i |-> s5.i + 1]
            IN IF nested /\ last /\ term # <<>> THEN Gap(s6, FreeGap) ELSE s6
        REnts(st, es, nested, k) ==    \* entries k.. of an object body (or of the file)
            IF es = <<>> THEN (IF nested THEN Gap(st, FreeGap) ELSE st)
            ELSE IF k > Len(es) THEN st
            ELSE REnts(REntry(st, es[k], nested, k = Len(es)), es, nested, k + 1)
    IN Gap(REnts([o |-> <<>>, i |-> 1], tree, FALSE, 1), EofGap).o

-------------------------------------------------------------------------------
(* Reading.  Tokens: [t |-> "str", v |-> bytes], [t |-> "p", v |-> <<punctuation byte>>],
   [t |-> "nl", v |-> <<>>], [t |-> "bad", ..] (not in the documented syntax), [t |-> "eof", ..]. *)
Tok(t, v) == [t |-> t, v |-> v]

RECURSIVE EndOfBlock(_, _)
EndOfBlock(b, i) ==      \* i: first byte after "/*"; result: first byte after the closing "*/", 0 if none
    IF i + 1 > Len(b) THEN 0
    ELSE IF b[i] = STAR /\ b[i + 1] = SLASH THEN i + 2 ELSE EndOfBlock(b, i + 1)

RECURSIVE EndOfLine(_, _)
EndOfLine(b, i) ==       \* position of the next newline at or after i, or Len(b) + 1
    IF i > Len(b) \/ b[i] = LF THEN i ELSE EndOfLine(b, i + 1)

RECURSIVE EndOfBare(_, _)
EndOfBare(b, i) == IF i > Len(b) \/ b[i] \notin BareChars THEN i ELSE EndOfBare(b, i + 1)

RECURSIVE ScanQuoted(_, _, _)
ScanQuoted(b, i, acc) == \* i: first byte after the opening quote
    IF i > Len(b) THEN [ok |-> FALSE, v |-> acc, next |-> i]
    ELSE IF b[i] = QUOTE THEN [ok |-> TRUE, v |-> acc, next |-> i + 1]
    ELSE IF b[i] # BSLASH THEN ScanQuoted(b, i + 1, Append(acc, b[i]))
    ELSE IF i + 1 > Len(b) THEN [ok |-> FALSE, v |-> acc, next |-> i]
    ELSE LET c == b[i + 1] IN
         IF c = QUOTE \/ c = BSLASH THEN ScanQuoted(b, i + 2, Append(acc, c))
         ELSE IF c \in DOMAIN EscLetter THEN ScanQuoted(b, i + 2, Append(acc, EscLetter[c]))
         ELSE IF c = 120 /\ i + 3 <= Len(b) /\ IsHex(b[i + 2]) /\ IsHex(b[i + 3])
              THEN ScanQuoted(b, i + 4, Append(acc, 16 * HexVal(b[i + 2]) + HexVal(b[i + 3])))
         ELSE [ok |-> FALSE, v |-> acc, next |-> i]     \* an escape the documentation does not show

RECURSIVE LexFrom(_, _, _)
LexFrom(b, i, acc) ==
    IF i > Len(b) THEN Append(acc, Tok("eof", <<>>))
    ELSE LET c == b[i] IN
         IF c = LF THEN LexFrom(b, i + 1, Append(acc, Tok("nl", <<>>)))
         ELSE IF c \in Blank THEN LexFrom(b, i + 1, acc)
         ELSE IF c = SLASH THEN
              IF i < Len(b) /\ b[i + 1] = STAR THEN
                   LET e == EndOfBlock(b, i + 2)        \* a C comment counts as a blank, even over several lines
                   IN IF e = 0 THEN Append(acc, Tok("bad", <<>>)) ELSE LexFrom(b, e, acc)
              ELSE IF i < Len(b) /\ b[i + 1] = SLASH THEN LexFrom(b, EndOfLine(b, i + 2), acc)
              ELSE Append(acc, Tok("bad", <<>>))
         ELSE IF c = QUOTE THEN
              LET r == ScanQuoted(b, i + 1, <<>>)
              IN IF r.ok THEN LexFrom(b, r.next, Append(acc, Tok("str", r.v))) ELSE Append(acc, Tok("bad", <<>>))
         ELSE IF c \in BareChars THEN
              LET e == EndOfBare(b, i) IN LexFrom(b, e, Append(acc, Tok("str", SubSeq(b, i, e - 1))))
         ELSE IF c \in Punct THEN LexFrom(b, i + 1, Append(acc, Tok("p", <<c>>)))
         ELSE Append(acc, Tok("bad", <<>>))

Lex(b) == LexFrom(b, 1, <<>>)          \* always ends with an "eof" or a "bad" token

IsP(tok, c) == tok.t = "p" /\ tok.v = <<c>>
Fail == [ok |-> FALSE, ents |-> <<>>, i |-> 0]

(* Parse(tk): [ok, ents].  Every index stays within tk because the last token is never consumed. *)
Parse(tk) ==
    LET RECURSIVE SkipNL(_), PItems(_, _), PComma(_, _), PEnts(_, _, _)
        SkipNL(i) == IF tk[i].t = "nl" THEN SkipNL(i + 1) ELSE i
        PItems(i, items) ==            \* inside parentheses, expecting an item; newlines are blanks here
            LET j == SkipNL(i) IN
            IF tk[j].t # "str" THEN [ok |-> FALSE, items |-> items, i |-> j]
            ELSE LET k == SkipNL(j + 1) IN
                 IF IsP(tk[k], COMMA) THEN PItems(k + 1, Append(items, tk[j].v))
                 ELSE IF IsP(tk[k], RPAREN) THEN [ok |-> TRUE, items |-> Append(items, tk[j].v), i |-> k + 1]
                 ELSE [ok |-> FALSE, items |-> items, i |-> k]
        PComma(i, items) ==            \* tk[i] is a comma of a bare list; a string must follow on the same line
            IF tk[i + 1].t # "str" THEN [ok |-> FALSE, items |-> items, i |-> i]
            ELSE IF IsP(tk[i + 2], COMMA) THEN PComma(i + 2, Append(items, tk[i + 1].v))
            ELSE [ok |-> TRUE, items |-> Append(items, tk[i + 1].v), i |-> i + 2]
        PEntry(j) ==                   \* tk[j] is the name; result: [ok, e, i = first token after the value]
            LET n == tk[j].v
                k == j + 1
            IN IF IsP(tk[k], LPAREN) THEN
                    LET k1 == SkipNL(k + 1) IN
                    IF IsP(tk[k1], RPAREN) THEN [ok |-> TRUE, e |-> [n |-> n, k |-> "l", items |-> <<>>], i |-> k1 + 1]
                    ELSE LET r == PItems(k + 1, <<>>)
                         IN [ok |-> r.ok, e |-> [n |-> n, k |-> "l", items |-> r.items], i |-> r.i]
               ELSE IF IsP(tk[k], LBRACE) THEN
                    LET r == PEnts(k + 1, TRUE, <<>>)
                    IN IF r.ok /\ IsP(tk[r.i], RBRACE)
                       THEN [ok |-> TRUE, e |-> [n |-> n, k |-> "o", ents |-> r.ents], i |-> r.i + 1]
                       ELSE [ok |-> FALSE, e |-> <<>>, i |-> 0]
               ELSE IF tk[k].t = "str" THEN
                    IF IsP(tk[k + 1], COMMA) THEN
                         LET r == PComma(k + 1, <<tk[k].v>>)
                         IN [ok |-> r.ok, e |-> [n |-> n, k |-> "l", items |-> r.items], i |-> r.i]
                    ELSE IF tk[k + 1].t = "str" THEN
                         [ok |-> TRUE, e |-> [n |-> n, k |-> "p", h |-> tk[k].v, s |-> tk[k + 1].v], i |-> k + 2]
                    ELSE [ok |-> TRUE, e |-> [n |-> n, k |-> "s", v |-> tk[k].v], i |-> k + 1]
               ELSE [ok |-> FALSE, e |-> <<>>, i |-> 0]
        PEnts(i, nested, acc) ==       \* result: [ok, ents, i]; when nested, tk[i] is the closing '}'
            LET j == SkipNL(i) IN
            IF tk[j].t = "eof" THEN (IF nested THEN Fail ELSE [ok |-> TRUE, ents |-> acc, i |-> j])
            ELSE IF IsP(tk[j], RBRACE) THEN (IF nested THEN [ok |-> TRUE, ents |-> acc, i |-> j] ELSE Fail)
            ELSE IF tk[j].t # "str" THEN Fail
            ELSE LET r == PEntry(j) IN
                 IF ~r.ok THEN Fail
                 ELSE IF IsP(tk[r.i], SEMI) \/ tk[r.i].t = "nl" THEN PEnts(r.i + 1, nested, Append(acc, r.e))
                 ELSE IF nested /\ IsP(tk[r.i], RBRACE) THEN [ok |-> TRUE, ents |-> Append(acc, r.e), i |-> r.i]
                 ELSE Fail              \* includes: end of file directly after a value
        top == PEnts(1, FALSE, <<>>)
    IN [ok |-> top.ok, ents |-> top.ents]

ParseBytes(b) == Parse(Lex(b))

-------------------------------------------------------------------------------
(* Typed values.  st: 1 boolean, 2 integer, 3 float, 4 interval, 5 volume (the numbering of
   enum conf_node_string_subtype).  An abstract value is a sequence of components:
     boolean  << <<w>> >>            w: index into BoolWords
     integer  << <<n>> >>            decimal text (strtoul(.., 0) would also take 0x.. and 0..: not generated)
     float    << <<ip, f>> >>        f: index into FracText; the value is delivered in 1/1000
     interval << <<n, u, w>>, .. >>  u: unit letter y d h m s, 58 (':' - first hours, then minutes), or
                                     0 (a final bare number: seconds); w: minimal width of the number
     volume   << <<n, u>>, .. >>     u: unit letter G M K B in either case, or 0 (final bare number: bytes) *)
BoolWords == <<
    << <<48>>, 0 >>,                              \* 0
    << <<102,97,108,115,101>>, 0 >>,              \* false
    << <<111,102,102>>, 0 >>,                     \* off
    << <<100,105,115,97,98,108,101,100>>, 0 >>,   \* disabled
    << <<110,111>>, 0 >>,                         \* no
    << <<49>>, 1 >>,                              \* 1
    << <<116,114,117,101>>, 1 >>,                 \* true
    << <<111,110>>, 1 >>,                         \* on
    << <<101,110,97,98,108,101,100>>, 1 >>,       \* enabled
    << <<121,101,115>>, 1 >>                      \* yes
>>
FracText == << << <<48>>, 0 >>, << <<53>>, 500 >>, << <<50,53>>, 250 >>, << <<49,50,53>>, 125 >>, << <<55,53>>, 750 >> >>
    \* ".0" ".5" ".25" ".125" ".75": exactly representable, value in 1/1000

RECURSIVE Dec10(_)
Dec10(n) == IF n < 10 THEN <<48 + n>> ELSE Append(Dec10(n \div 10), 48 + (n % 10))
Padded(n, w) == LET d == Dec10(n) IN IF Len(d) < w THEN [i \in 1..(w - Len(d)) |-> 48] \o d ELSE d

IntervalMult(u) == CASE u = 121 -> 365 * 24 * 60 * 60 [] u = 100 -> 24 * 60 * 60 [] u = 104 -> 60 * 60
                     [] u = 109 -> 60 [] u = 115 -> 1 [] u = 0 -> 1
VolumeMult(u) == CASE u \in {71, 103} -> 1073741824 [] u \in {77, 109} -> 1048576 [] u \in {75, 107} -> 1024
                   [] u \in {66, 98} -> 1 [] u = 0 -> 1

RECURSIVE IntervalSum(_, _)
IntervalSum(c, colons) ==
    IF c = <<>> THEN 0
    ELSE LET x == Head(c) IN
         IF x[2] = 58 THEN x[1] * (IF colons = 0 THEN 3600 ELSE 60) + IntervalSum(Tail(c), colons + 1)
         ELSE x[1] * IntervalMult(x[2]) + IntervalSum(Tail(c), colons)
RECURSIVE VolumeSum(_)
VolumeSum(c) == IF c = <<>> THEN 0 ELSE Head(c)[1] * VolumeMult(Head(c)[2]) + VolumeSum(Tail(c))

RECURSIVE CompText(_)
CompText(c) ==       \* number, then the unit letter if any
    IF c = <<>> THEN <<>>
    ELSE LET x == Head(c)
         IN Padded(x[1], IF Len(x) >= 3 THEN x[3] ELSE 1) \o (IF x[2] = 0 THEN <<>> ELSE <<x[2]>>) \o CompText(Tail(c))

TypedText(st, c) ==
    CASE st = 1 -> BoolWords[c[1][1]][1]
      [] st = 2 -> Dec10(c[1][1])
      [] st = 3 -> Dec10(c[1][1]) \o <<46>> \o FracText[c[1][2]][1]
      [] st = 4 -> CompText(c)
      [] st = 5 -> CompText(c)

(* the value written: booleans by keyword, integers, intervals and volumes as the sum of
   their unit components *)
TypedValue(st, c) ==
    CASE st = 1 -> BoolWords[c[1][1]][2]
      [] st = 2 -> c[1][1]
      [] st = 3 -> c[1][1] * 1000 + FracText[c[1][2]][2]
      [] st = 4 -> IntervalSum(c, 0)
      [] st = 5 -> VolumeSum(c)

(* Independent evaluation of the text.  Groups(text): << <<digits, separator byte or 0>>, .. >> *)
RECURSIVE GroupsFrom(_, _, _, _)
GroupsFrom(t, i, digits, acc) ==
    IF i > Len(t) THEN (IF digits = <<>> /\ acc # <<>> THEN acc ELSE Append(acc, <<digits, 0>>))
    ELSE IF t[i] \in Digits THEN GroupsFrom(t, i + 1, Append(digits, t[i]), acc)
    ELSE GroupsFrom(t, i + 1, <<>>, Append(acc, <<digits, t[i]>>))
Groups(t) == GroupsFrom(t, 1, <<>>, <<>>)

RECURSIVE NumVal(_)
NumVal(d) == IF d = <<>> THEN 0 ELSE NumVal(SubSeq(d, 1, Len(d) - 1)) * 10 + (d[Len(d)] - 48)

IntervalInLang(t) ==
    LET g == Groups(t)
        n == Len(g)
        colons == { i \in 1..n : g[i][2] = 58 }
    IN /\ t # <<>>
       /\ \A i \in 1..n : /\ g[i][2] \in {121, 100, 104, 109, 115, 58, 0}
                          /\ g[i][1] # <<>>
                          /\ g[i][2] = 0 => i = n
       /\ \/ colons = {}
          \/ n >= 3 /\ colons = {n - 2, n - 1} /\ g[n][2] = 0      \* .. hh:mm:ss at the end
RECURSIVE IntervalDenoteG(_, _)
IntervalDenoteG(g, colons) ==
    IF g = <<>> THEN 0
    ELSE LET x == Head(g) IN
         IF x[2] = 58 THEN NumVal(x[1]) * (IF colons = 0 THEN 3600 ELSE 60) + IntervalDenoteG(Tail(g), colons + 1)
         ELSE NumVal(x[1]) * IntervalMult(x[2]) + IntervalDenoteG(Tail(g), colons)

VolumeInLang(t) ==
    LET g == Groups(t)
        n == Len(g)
    IN /\ t # <<>>
       /\ \A i \in 1..n : /\ g[i][2] \in {71, 103, 77, 109, 75, 107, 66, 98, 0}
                          /\ g[i][1] # <<>>
                          /\ g[i][2] = 0 => i = n
RECURSIVE VolumeDenoteG(_)
VolumeDenoteG(g) == IF g = <<>> THEN 0 ELSE NumVal(Head(g)[1]) * VolumeMult(Head(g)[2]) + VolumeDenoteG(Tail(g))

IntegerInLang(t) == t # <<>> /\ (\A i \in DOMAIN t : t[i] \in Digits) /\ (Len(t) > 1 => t[1] # 48)
FloatInLang(t) ==
    LET g == Groups(t)
    IN Len(g) = 2 /\ g[1][2] = 46 /\ g[1][1] # <<>> /\ g[2][2] = 0 /\ g[2][1] # <<>> /\ Len(g[2][1]) <= 3
BooleanInLang(t) == \E w \in DOMAIN BoolWords : BoolWords[w][1] = t

InLang(st, t) ==
    CASE st = 1 -> BooleanInLang(t) [] st = 2 -> IntegerInLang(t) [] st = 3 -> FloatInLang(t)
      [] st = 4 -> IntervalInLang(t) [] st = 5 -> VolumeInLang(t)

Denote(st, t) ==     \* defined for texts in the language
    CASE st = 1 -> BoolWords[CHOOSE w \in DOMAIN BoolWords : BoolWords[w][1] = t][2]
      [] st = 2 -> NumVal(t)
      [] st = 3 -> LET g == Groups(t)
                       f == g[2][1]
                   IN NumVal(g[1][1]) * 1000 + NumVal(f) * (IF Len(f) = 1 THEN 100 ELSE IF Len(f) = 2 THEN 10 ELSE 1)
      [] st = 4 -> IntervalDenoteG(Groups(t), 0)
      [] st = 5 -> VolumeDenoteG(Groups(t))

(* Wide typed values.  Intervals and volumes are unsigned int in the code and TLC's integers are 32-bit
   signed, so values from 2^31 up to 4294967295 - among them the largest count of each unit that still
   fits - are handled as sequences of decimal digit codes, with schoolbook arithmetic on single digits.
   A wide abstract value is a sequence of components << <<count digits, unit>>, .. >> (units as above). *)
RECURSIVE DNorm(_)
DNorm(d) == IF Len(d) > 1 /\ d[1] = 48 THEN DNorm(Tail(d)) ELSE IF d = <<>> THEN <<48>> ELSE d
RECURSIVE DAddRev(_, _, _)
DAddRev(a, b, carry) ==      \* a, b least significant digit first
    IF a = <<>> /\ b = <<>> THEN (IF carry = 0 THEN <<>> ELSE <<48 + carry>>)
    ELSE LET x == (IF a = <<>> THEN 0 ELSE a[1] - 48) + (IF b = <<>> THEN 0 ELSE b[1] - 48) + carry
         IN <<48 + (x % 10)>> \o DAddRev(IF a = <<>> THEN a ELSE Tail(a), IF b = <<>> THEN b ELSE Tail(b), x \div 10)
Rev(q) == [i \in 1..Len(q) |-> q[Len(q) + 1 - i]]
DAdd(a, b) == DNorm(Rev(DAddRev(Rev(a), Rev(b), 0)))
RECURSIVE DMulDigitRev(_, _, _)
DMulDigitRev(a, m, carry) ==
    IF a = <<>> THEN (IF carry = 0 THEN <<>> ELSE <<48 + carry>>)
    ELSE LET x == (a[1] - 48) * m + carry IN <<48 + (x % 10)>> \o DMulDigitRev(Tail(a), m, x \div 10)
RECURSIVE DMul(_, _)
DMul(a, b) ==                \* b's digits from the most significant: acc * 10 + a * digit
    IF b = <<>> THEN <<48>>
    ELSE DAdd(DNorm(DMul(a, SubSeq(b, 1, Len(b) - 1)) \o <<48>>), DNorm(Rev(DMulDigitRev(Rev(a), b[Len(b)] - 48, 0))))
DLe(a, b) == LET x == DNorm(a) y == DNorm(b)
             IN Len(x) < Len(y) \/ (Len(x) = Len(y) /\ (x = y \/ \E i \in 1..Len(x) : x[i] < y[i] /\ \A j \in 1..(i - 1) : x[j] = y[j]))
UIntMax == <<52,50,57,52,57,54,55,50,57,53>>     \* 4294967295
WideMult(st, u, colons) ==
    IF u = 58 THEN (IF colons = 0 THEN Dec10(3600) ELSE Dec10(60))
    ELSE Dec10(IF st = 4 THEN IntervalMult(u) ELSE VolumeMult(u))
RECURSIVE WideSum(_, _, _)
WideSum(st, c, colons) ==
    IF c = <<>> THEN <<48>>
    ELSE DAdd(DMul(Head(c)[1], WideMult(st, Head(c)[2], colons)),
              WideSum(st, Tail(c), IF Head(c)[2] = 58 THEN colons + 1 ELSE colons))
WideValue(st, c) == WideSum(st, c, 0)
RECURSIVE WideText(_)
WideText(c) == IF c = <<>> THEN <<>> ELSE Head(c)[1] \o (IF Head(c)[2] = 0 THEN <<>> ELSE <<Head(c)[2]>>) \o WideText(Tail(c))
(* independent evaluation of a text of the language: its digit groups and separators *)
WideDenote(st, t) == WideSum(st, Groups(t), 0)

(* values at and around the largest count of each unit that still fits, 2^31, and 2^32 - 1 *)
D(n) == Dec10(n)
WidePool == <<
    \* intervals (st 4)
    << << <<D(136),121>> >>,                                                                   \* 136y
       << <<D(136),121>>, <<D(70),100>>, <<D(6),104>>, <<D(28),109>>, <<D(15),115>> >>,      \* = 4294967295
       << <<D(49710),100>> >>, << <<D(49710),100>>, <<D(6),58>>, <<D(28),58>>, <<D(15),0>> >>,   \* 49710d ; 49710d6:28:15
       << <<D(1193046),104>> >>, << <<D(1193046),58>>, <<D(28),58>>, <<D(15),0>> >>,             \* 1193046h ; 1193046:28:15
       << <<D(71582788),109>> >>, << <<D(71582788),109>>, <<D(15),115>> >>,                      \* 71582788m (15s)
       << <<UIntMax,115>> >>, << <<UIntMax,0>> >>,                                               \* 4294967295s ; bare
       << <<D(68),121>>, <<D(35),100>>, <<D(3),104>>, <<D(14),109>>, <<D(8),115>> >>,           \* = 2^31
       << <<D(135),121>>, <<D(364),100>> >>, << <<D(24855),100>> >>, << <<D(596524),104>> >> >>,
    \* volumes (st 5)
    << << <<D(3),71>> >>, << <<D(3),103>>, <<D(1023),109>> >>,
       << <<D(3),71>>, <<D(1023),77>>, <<D(1023),75>>, <<D(1023),66>> >>,                       \* = 4294967295
       << <<D(4095),77>> >>, << <<D(4095),77>>, <<D(1023),75>>, <<D(1023),0>> >>,
       << <<D(4194303),75>> >>, << <<D(4194303),107>>, <<D(1023),98>> >>,
       << <<UIntMax,66>> >>, << <<UIntMax,0>> >>,
       << <<D(2),71>> >>, << <<D(2047),77>>, <<D(1024),75>> >>, << <<D(2),71>>, <<D(1),0>> >>,  \* 2^31, 2^31, 2^31 + 1
       << <<D(2048),77>> >>, << <<D(2097152),75>> >>, << <<D(3),71>>, <<D(512),77>> >> >>
>>

(* texts that are not values of the type under any reading (used for "an unparsable typed
   value is rejected") *)
BadPool == <<
    << <<112,105,122,122,97>>, <<50>>, <<109,97,121,98,101>>, <<121>> >>,                    \* pizza 2 maybe y
    << <<49,50,113>>, <<120,121,122>>, <<49,46,53>>, <<53,107>>, <<49,101,51>> >>,           \* 12q xyz 1.5 5k 1e3
    << <<56,46,48,120>>, <<120,121,122>>, <<49,46,50,46,51>> >>,                             \* 8.0x xyz 1.2.3
    << <<49,50,51,122>>, <<49,58,50,58,51,58>>, <<53,119>>, <<49,46,53,104>>, <<120>> >>,    \* 123z 1:2:3: 5w 1.5h x
    << <<49,50,113>>, <<97,98,99>>, <<49,46,53,77>>, <<53,84>>, <<49,32,75>> >>              \* 12q abc 1.5M 5T "1 K"
>>

-------------------------------------------------------------------------------
(* The trees the checks quantify over.                                     *)

NamePool == <<
    <<97>>                                                      ,  \* 1: 'a'
    <<98,45,50>>                                                ,  \* 2: 'b-2'
    <<67,46,120,95,35,57>>                                      ,  \* 3: 'C.x_#9'
    <<107,101,121,32,119,105,116,104,32,115,112,97,99,101>>     ,  \* 4: 'key with space'
    <<34,113,34>>                                               ,  \* 5: '"q"'
    <<42,46,62,61,105,110,102,111>>                             ,  \* 6: '*.>=info'
    <<55>>                                                      ,  \* 7: '7'
    <<110,92,120>>                                                 \* 8: 'n\x'
>>
(* every escape, quote, backslash, comment openers, punctuation, bytes >= 128, the empty string *)
ValPool == <<
    <<120>>                                                     ,  \* 1: 'x'
    <<106,97,110,101>>                                          ,  \* 2: 'jane'
    <<56,48,56,48>>                                             ,  \* 3: '8080'
    <<58,58,49>>                                                ,  \* 4: '::1'
    <<97,32,98>>                                                ,  \* 5: 'a b'
    <<>>                                                        ,  \* 6: ''
    <<7,8,12,10,13,9,11>>                                       ,  \* 7: '\a\b\f\n\r\t\v'
    <<113,34,117,111,92,116,101>>                               ,  \* 8: 'q"uo\te' (with a backslash)
    <<47,42,110,111,42,47,32,47,47,99,111,109,109,101,110,116>> ,  \* 9: '/*no*/ //comment'
    <<123,32,125,32,40,32,41,32,44,32,59,32,35>>                ,  \* 10: '{ } ( ) , ; #'
    <<128,255,195,169>>                                         ,  \* 11: bytes 80 ff c3 a9
    <<1,31,127>>                                                ,  \* 12: bytes 01 1f 7f
    <<102,105,108,101,58,117,110,105,116,45,116,101,115,116,115,46,108,111,103>>,  \* 13: 'file:unit-tests.log'
    <<65,46,98,45,99,95,100,35,49>>                             ,  \* 14: 'A.b-c_d#1'
    <<92,120,52,49>>                                            ,  \* 15: backslash 'x41'
    <<42,46,62,61,105,110,102,111>>                             ,  \* 16: '*.>=info'
    <<94,92,34,120,92,34,36>>                                   ,  \* 17: '^' backslash '"x' backslash '"$' (a backslash directly before a quote)
    <<100,105,114,92>>                                          ,  \* 18: 'dir' backslash (ends in a backslash)
    <<92,92,34,92,92,92,34>>                                       \* 19: two backslashes, quote, three backslashes, quote
>>

(* A shape is a tree whose names are indices (equal index = equal name) and whose values are
   yet to be filled in: [n, k |-> "s"], [n, k |-> "p"], [n, k |-> "l", c |-> item count],
   [n, k |-> "o", ents].                                                                      *)
LeafShapes(NI, MaxItems) ==
    [n : NI, k : {"s", "p"}] \cup [n : NI, k : {"l"}, c : 0..MaxItems]

RECURSIVE ShapeSeqs(_, _, _, _, _)
(* all sequences of at most w entries with at most t entries in total and nesting depth <= d *)
ShapeSeqs(t, d, w, NI, MaxItems) ==
    IF t = 0 \/ w = 0 THEN {<<>>}
    ELSE LET First(u) ==      \* a first entry that, with its descendants, accounts for at most u entries
                 (IF u = 1 THEN LeafShapes(NI, MaxItems) ELSE {})
                 \cup (IF d > 0
                       THEN { [n |-> ni, k |-> "o", ents |-> sub] : ni \in NI, sub \in ShapeSeqs(u - 1, d - 1, 3, NI, MaxItems) }
                       ELSE {})
         IN {<<>>} \cup UNION { { <<e>> \o rest : e \in First(u), rest \in ShapeSeqs(t - u, d, w - 1, NI, MaxItems) }
                                : u \in 1..t }

RECURSIVE CountShape(_)
CountShape(es) ==
    IF es = <<>> THEN 0
    ELSE 1 + (IF Head(es).k = "o" THEN CountShape(Head(es).ents) ELSE 0) + CountShape(Tail(es))

(* Fill(shape, noff, voff): name index j becomes NamePool[noff + j], the k-th value slot
   (in source order) becomes ValPool[voff + k] (indices wrap around).                      *)
PoolAt(pool, i) == pool[(i % Len(pool)) + 1]
Fill(shape, noff, voff) ==
    LET RECURSIVE FEnts(_, _), FItems(_, _)
        FItems(c, k) == IF c = 0 THEN <<>> ELSE <<PoolAt(ValPool, voff + k)>> \o FItems(c - 1, k + 1)
        FEnts(es, k) ==         \* [t |-> entries, k |-> next slot]
            IF es = <<>> THEN [t |-> <<>>, k |-> k]
            ELSE LET e == Head(es)
                     nm == PoolAt(NamePool, noff + e.n)
                     one == CASE e.k = "s" -> [t |-> [n |-> nm, k |-> "s", v |-> PoolAt(ValPool, voff + k)], k |-> k + 1]
                              [] e.k = "p" -> [t |-> [n |-> nm, k |-> "p", h |-> PoolAt(ValPool, voff + k),
                                                      s |-> PoolAt(ValPool, voff + k + 1)], k |-> k + 2]
                              [] e.k = "l" -> [t |-> [n |-> nm, k |-> "l", items |-> FItems(e.c, k)], k |-> k + e.c]
                              [] e.k = "o" -> LET r == FEnts(e.ents, k)
                                              IN [t |-> [n |-> nm, k |-> "o", ents |-> r.t], k |-> r.k]
                     rest == FEnts(Tail(es), one.k)
                 IN [t |-> <<one.t>> \o rest.t, k |-> rest.k]
    IN FEnts(shape, 0).t

(* A larger shape drawn from a choice tape: up to 3 entries per object, nesting depth <= 2. *)
RandShape(tape) ==
    LET RECURSIVE GEnts(_, _, _, _)
        GEnts(i, d, cnt, acc) ==    \* [t, i]
            IF cnt = 0 THEN [t |-> acc, i |-> i]
            ELSE LET kind == Opt(tape, i, 8)
                     ni == Opt(tape, i + 1, 3)
                 IN IF kind \in {0, 1} THEN GEnts(i + 2, d, cnt - 1, Append(acc, [n |-> ni, k |-> "s"]))
                    ELSE IF kind = 2 THEN GEnts(i + 2, d, cnt - 1, Append(acc, [n |-> ni, k |-> "p"]))
                    ELSE IF kind \in {3, 4} \/ d = 0
                         THEN GEnts(i + 3, d, cnt - 1, Append(acc, [n |-> ni, k |-> "l", c |-> Opt(tape, i + 2, 4)]))
                    ELSE LET sub == GEnts(i + 3, d - 1, Opt(tape, i + 2, 4), <<>>)
                         IN GEnts(sub.i, d, cnt - 1, Append(acc, [n |-> ni, k |-> "o", ents |-> sub.t]))
    IN GEnts(2, 2, 1 + Opt(tape, 1, 3), <<>>).t

(* pseudo-random tapes: x' = 75 x + 74 mod 65537 (all values stay far below 2^31) *)
RECURSIVE LcgTape(_, _)
LcgTape(x, n) == IF n = 0 THEN <<>> ELSE LET y == (75 * x + 74) % 65537 IN <<(y \div 7) % 720>> \o LcgTape(y, n - 1)

=============================================================================
