"""C02 No premature acceptance."""
from vlib import iauthrun as R

LEVEL = "model_checking"
TITLE = "no premature acceptance (gate: data complete, no query outstanding unless expired, +! needs a stamp, never after NO)"
OWN = {"P02_gate"}


def plans(ctx):
    if ctx.tier == "quick":
        return [R.Plan("q1", "S_q1", emit_mod=32, max_inst=1, max_pw=2),
                R.Plan("t1d", "S_t1d", emit_mod=8, max_inst=1, max_pw=2),
                R.Plan("t1di2", "S_t1d", emit_mod=40, max_inst=2, max_pw=1, stray=1, also=R.crowd_also(200)),
                # iauth_xquery not loaded: the loaded modules ask for the host name result only
                R.Plan("noxq", "S_noxq", emit_mod=1, max_inst=2, max_pw=1, stray=1),
                # less usual configurations: an entry with an unknown protocol word, a dronecheck service alone
                R.Plan("unk", "S_unk", emit_mod=200, max_inst=1, max_pw=2),
                R.Plan("drone", "S_drone", emit_mod=12, max_inst=1, max_pw=2)]
    return [R.Plan("q1", "S_q1", emit_mod=8, max_inst=1, max_pw=2),
            R.Plan("q1i2", "S_q1", emit_mod=150, max_inst=2, max_pw=2, stray=1, also=R.crowd_also(1500)),
            R.Plan("t1a", "S_t1a", emit_mod=12, max_inst=1, max_pw=1),
            R.Plan("t1b", "S_t1b", emit_mod=8, max_inst=1, max_pw=2),
            R.Plan("t1c", "S_t1c", emit_mod=25, max_inst=1, max_pw=2),
            R.Plan("t1d", "S_t1d", emit_mod=3, max_inst=1, max_pw=3),
            R.Plan("noxq", "S_noxq", emit_mod=3, max_inst=3, max_pw=2, stray=2, junk=True),
            R.Plan("unk", "S_unk", emit_mod=60, max_inst=1, max_pw=2, stray=1),
            R.Plan("drone", "S_drone", emit_mod=2, max_inst=2, max_pw=2, stray=1),
            R.Plan("pref", "S_pref", emit_mod=20, max_inst=1, max_pw=2, stray=1),
            R.Plan("none", "S_none", emit_mod=1, max_inst=2, max_pw=2, stray=1),
            R.Plan("sim", "S_t1a", simulate="num=60", depth=40, workers=8, rich=True, max_inst=6, max_pw=3, stray=1, junk=True)]


def run(ctx):
    ctx.cov["rule"] = ("behaviours = shortest path to a transition of the exhaustively explored composition "
                       "IAuth (B) x IAuthContract (A) plus that transition, sampled 1/emit_mod; each replayed on the real "
                       "daemon (timeout hook at the model's Timeout steps) and validated by TLC against the contract; "
                       "distinct = distinct event sequences of length >= 2")
    ctx.assumptions += ["the request timeout fires only where the '<id> ! timeout' hook is sent (timeout 1h configured)",
                        "texts stand for all texts of the same length class; tags follow the daemon's own X lines"]
    R.standard(ctx, plans(ctx), OWN, need=("accept_D", "accept_R", "kill", "queries", "timeouts"))


def replay(ctx, body):
    R.replay_file(ctx, body, OWN)
