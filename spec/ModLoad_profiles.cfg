\* C20: thorough: every case on <= 3 modules without self-dependencies and with every shared object present (cyclic graphs included), calls in name order, every listing, EVERY hook profile (every subset of the modules lacking module_post_init x every subset lacking module_destructor x every subset of the modules that declare nothing lacking module_constructor)
SPECIFICATION Spec
CONSTANTS
    Source = "enum"
    MaxN = 3
    SelfLoops = FALSE
    DepOrders = "asc"
    WithMissing = FALSE
    WithAnti = FALSE
    Profiles = "all"
    Bug = "none"
INVARIANTS
    TypeOK LoadingIsInnermostCtor RdependsMirrorsDepends SetEmptyAtExit NoGhostInGoodCase
    B_CtorOnce B_DepsConstructedFirst B_PostInitOnce B_PostInitAfterDeps B_DtorBeforeDeps
    B_StartsComplete B_StopsClean B_AbortsWithError B_NeverRunsPartial
ACTION_CONSTRAINT EmitCase
