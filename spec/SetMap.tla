------------------------------- MODULE SetMap -------------------------------
(***************************************************************************)
(* Contract (A) of the set container of src/set.c, property C19.           *)
(*                                                                         *)
(* What a user of set.h can observe, and nothing else: a sorted map from   *)
(* keys to ELEMENTS.  An element has an identity (a fresh number chosen    *)
(* when it is handed to set_insert), so that "insert of an equal key       *)
(* replaces" is visible: the OLD element is cleaned up, the NEW one is in  *)
(* the set afterwards.  Keys are integers; their order is the              *)
(* mathematical order the comparator stands for (for the stock             *)
(* comparators the harness maps rank 1..N to concrete ints, case-variant   *)
(* strings or pointers; two spellings that the comparator calls equal are  *)
(* ONE key here).                                                          *)
(*                                                                         *)
(* Identity and recycled nodes.  The identity belongs to the INSERTION,    *)
(* not to the memory of the node: a node that was taken out with           *)
(* no_dispose (set_remove(.., 1) / set_clear(.., 1)) has been handed back  *)
(* to the caller and has NOT been cleaned up; that identity stays in       *)
(* `kept` and must never be cleaned up by the set.  If the caller inserts  *)
(* the same node object again (src/config.c moves nodes between sets that  *)
(* way) it is a NEW element with a fresh identity, to be cleaned up        *)
(* exactly once when that insertion is removed, replaced or cleared with   *)
(* disposal -- whatever its l/r/prev/next fields held when it was handed   *)
(* in (the contract does not know them; Splay.tla InsertIgnoresStale).     *)
(*                                                                         *)
(* Every operation is a pure operator  XxxR(mm, ...)  that yields the new  *)
(* map, the result the caller must see, and the bag of cleanup calls the   *)
(* call must make.  The actions below, Splay.tla (refinement) and          *)
(* SetTrace.tla (validation of traces of the real code) all use them.      *)
(***************************************************************************)
EXTENDS Integers, Sequences, FiniteSets, TLC

CONSTANTS Keys              \* finite set of integers

NULL == 0                   \* "no element" (ids are >= 1)

VARIABLES
    m,       \* the mathematical map: function from the keys present to element ids
    cl,      \* bag (id -> number of calls) of ALL cleanup calls made so far
    kept,    \* ids taken out with no_dispose (handed back to the caller, never cleaned)
    nid,     \* next fresh element id
    op       \* observation of the last call: everything the caller can see

vars == <<m, cl, kept, nid, op>>

-----------------------------------------------------------------------------
(* functions and bags *)
EmptyF == [x \in {} |-> 0]
Range(f) == {f[x] : x \in DOMAIN f}
Without(f, S) == [x \in DOMAIN f \ S |-> f[x]]
BagOne(e) == [x \in {e} |-> 1]
BagOfSet(S) == [x \in S |-> 1]
BagPlus(a, b) == [x \in DOMAIN a \cup DOMAIN b |->
                    (IF x \in DOMAIN a THEN a[x] ELSE 0) + (IF x \in DOMAIN b THEN b[x] ELSE 0)]
BagOfSeq(s) == [x \in {s[i] : i \in DOMAIN s} |-> Cardinality({i \in DOMAIN s : s[i] = x})]

(* the keys of mm in ascending order, and the (key, element) listing a first/next walk must give *)
RECURSIVE SortedSeq(_)
SortedSeq(S) == IF S = {} THEN <<>>
                ELSE LET lo == CHOOSE x \in S : \A y \in S : x <= y
                     IN <<lo>> \o SortedSeq(S \ {lo})
Listing(mm) == LET ks == SortedSeq(DOMAIN mm) IN [i \in 1..Len(ks) |-> <<ks[i], mm[ks[i]]>>]
Ids(lst)    == [i \in 1..Len(lst) |-> lst[i][2]]
Rev(s)      == [i \in 1..Len(s) |-> s[Len(s) + 1 - i]]

-----------------------------------------------------------------------------
(* The operations.  Each yields [m: new map, res: result, cleaned: bag of cleanup calls]. *)

\* set_insert(set, node) with a fresh element e whose key is k: an equal key is REPLACED
InsertR(mm, k, e) ==
    [m       |-> [x \in DOMAIN mm \cup {k} |-> IF x = k THEN e ELSE mm[x]],
     res     |-> NULL,
     cleaned |-> IF k \in DOMAIN mm THEN BagOne(mm[k]) ELSE EmptyF]

\* set_find(set, &k): the element with that key, or NULL
FindR(mm, k) ==
    [m |-> mm, res |-> IF k \in DOMAIN mm THEN mm[k] ELSE NULL, cleaned |-> EmptyF]

\* set_lower(set, &k): the element with the least key >= k, or NULL
LowerR(mm, k) ==
    LET ge == {x \in DOMAIN mm : x >= k}
    IN [m |-> mm,
        res |-> IF ge = {} THEN NULL ELSE mm[CHOOSE x \in ge : \A y \in ge : x <= y],
        cleaned |-> EmptyF]

\* set_remove(set, &k, no_dispose): 1 iff it was there; cleaned iff removed and not no_dispose
RemoveR(mm, k, nd) ==
    [m       |-> Without(mm, {k}),
     res     |-> IF k \in DOMAIN mm THEN 1 ELSE 0,
     cleaned |-> IF k \in DOMAIN mm /\ ~nd THEN BagOne(mm[k]) ELSE EmptyF]

\* set_clear(set, no_dispose)
ClearR(mm, nd) ==
    [m |-> EmptyF, res |-> NULL, cleaned |-> IF nd THEN EmptyF ELSE BagOfSet(Range(mm))]

\* iteration (set_first / set_next ... then set_prev back from the last): no effect
IterR(mm) == [m |-> mm, res |-> NULL, cleaned |-> EmptyF]

(* ids that leave the set without being cleaned *)
Released(mm, R, nd) == IF nd THEN Range(mm) \ Range(R.m) ELSE {}

(* what the caller observes of a call: arguments, result, cleanup calls, and (all calls)
   size and first/next/prev order afterwards *)
Obs(o, k, nd, e, R) ==
    [o |-> o, k |-> k, nd |-> nd, id |-> e, res |-> R.res, cleaned |-> R.cleaned,
     size |-> Cardinality(DOMAIN R.m), fwd |-> Listing(R.m), bwd |-> Rev(Ids(Listing(R.m)))]

-----------------------------------------------------------------------------
Init == /\ m = EmptyF /\ cl = EmptyF /\ kept = {} /\ nid = 1
        /\ op = Obs("init", NULL, FALSE, NULL, IterR(EmptyF))

Apply(o, k, nd, e, R) ==
    /\ m' = R.m
    /\ cl' = BagPlus(cl, R.cleaned)
    /\ kept' = kept \cup Released(m, R, nd)
    /\ op' = Obs(o, k, nd, e, R)

Insert(k)     == Apply("ins", k, FALSE, nid, InsertR(m, k, nid)) /\ nid' = nid + 1
Find(k)       == Apply("find", k, FALSE, NULL, FindR(m, k)) /\ UNCHANGED nid
Lower(k)      == Apply("lower", k, FALSE, NULL, LowerR(m, k)) /\ UNCHANGED nid
Remove(k, nd) == Apply("rem", k, nd, NULL, RemoveR(m, k, nd)) /\ UNCHANGED nid
Clear(nd)     == Apply("clear", NULL, nd, NULL, ClearR(m, nd)) /\ UNCHANGED nid
Iterate       == Apply("iter", NULL, FALSE, NULL, IterR(m)) /\ UNCHANGED nid

Next == \/ \E k \in Keys : Insert(k) \/ Find(k) \/ Lower(k) \/ Remove(k, TRUE) \/ Remove(k, FALSE)
        \/ Clear(TRUE) \/ Clear(FALSE) \/ Iterate

Spec == Init /\ [][Next]_vars

-----------------------------------------------------------------------------
(* Consequences of the contract (checked by TLC on MCSetMap; re-checked on real traces by
   SetTrace): the cleanup clauses of C19. *)
TypeOK == /\ DOMAIN m \subseteq Keys
          /\ \A k \in DOMAIN m : m[k] \in 1..(nid - 1)
          /\ \A a, b \in DOMAIN m : a # b => m[a] # m[b]
CleanupAtMostOnce   == \A e \in DOMAIN cl : cl[e] = 1
CleanupNeverOnMember == \A k \in DOMAIN m : m[k] \notin DOMAIN cl
CleanupNeverOnKept  == kept \cap DOMAIN cl = {}
\* every id ever issued is a member, was cleaned, or was handed back: "exactly once"
CleanupExactly == (1..(nid - 1)) = Range(m) \cup DOMAIN cl \cup kept
=============================================================================
