---------------------------- MODULE MCClassPools ----------------------------
(***************************************************************************)
(* Value pools and the case space shared by the C11 models (MCClassRules:  *)
(* exhaustive, MCClassGen: seeded sample over the rich pools).             *)
(***************************************************************************)
EXTENDS ClassRules, TLC

CONSTANTS
    Names,        \* set of rule names (texts), pairwise different under strcasecmp
    AcctP, AddrP, UserP, HostP, OkP, ClassP,     \* sets of optional texts
    TrustP,       \* subset of BOOLEAN
    MaxRules, MaxCrit,
    CAcct, CAddr, CIdent, CHost, CUser,          \* client attribute pools (texts)
    LoginSt, DroneSt                             \* admitted reply states per service type

-----------------------------------------------------------------------------
(* pools *)
\* strcasecmp (letters folded to LOWER case): a < a_ < Ab < b < B2 < C ; strcmp: Ab < B2 < C < a < a_ < b ; folded to UPPER
\* case instead ('_' = 95 lies between 'Z' and 'a'): a < Ab < a_ < b < B2 < C
N_all == { T("a"), T("a_"), T("Ab"), T("B2"), T("b"), T("C") }
N_4   == { T("a_"), T("Ab"), T("B2"), T("b") }
N_3   == { T("a_"), T("Ab"), T("b") }
N_1   == { T("B2") }

None == << >>
O(s) == << T(s) >>

Acct_rich  == { None, O("alice"), O("al*"), O("*ce"), O("a?a*") }
Addr_rich  == { None, O("10.1.2.0/24"), O("10.1.2.0/23"), O("10.1/16"), O("10.1.*"), O("10.1.2.3"), O("0.0.0.0/0"),
                O("*"), O("::/0"), O("2001:db8::/32"), O("2001:db8::/31"), O("2001:db8:*"), O("2001:db8::1") }
User_rich  == { None, O("al*"), O("~*"), O("?bob"), O("*b") }
Host_rich  == { None, O("*.example.org"), O("h?.example.*"), O("*.test"), O("10.*") }
Ok_rich    == { None, O("d1.svc"), O("l1.svc") }
Class_rich == { None, O("users"), O("Opers") }

CAcct_rich  == { T(""), T("alice"), T("alice:77"), T("alan:1"), T("bob:5"), T("alice:77:9"), T("aliceyyyyyyyyyyyyyyyyyyyyyyyyyyyyyyyyyyyyyyyyyyyyyyyyyyyyyy:7777") }
CAddr_rich  == { T("10.1.2.3"), T("10.1.3.3"), T("10.2.2.3"), T("192.168.7.9"), T("2001:db8::1"), T("2001:db9::1"),
                 T("2001:db8:0:5::9") }
\* incl. values of exactly the documented maximum length (HOSTLEN 63, USERLEN 10, ACCOUNTLEN 64): a criterion that looks
\* at the end of the text sees an off-by-one in how the daemon stores it
CIdent_rich == { T(""), T("alice"), T("~bob"), T("~alice"), T("bob"), T("alicexxbob") }
CHost_rich  == { T(""), T("h1.example.org"), T("h2.example.net"), T("mail.test"), T("hxxxxxxxxxxxxxxxxxxxxxxxxxxxxxxxxxxxxxxxxxxxxxxxxxx.example.org") }
CUser_rich  == { T("carol"), T("alice"), T("bob"), T("~dave"), T("~xxxxxxbob") }

\* small pools: one pattern per criterion, two values per attribute (one matching, one not)
Acct_1  == { None, O("a*ce") }
Addr_1  == { None, O("10.1.2.0/23") }
User_1  == { None, O("~*") }
Host_1  == { None, O("*.example.org") }
Ok_1    == { None, O("d1.svc") }
Class_1 == { None, O("users") }
OnlyNone == { None }
BoolSet == BOOLEAN
OnlyFalse == { FALSE }

CAcct_2  == { T(""), T("alice:77") }
CAddr_2  == { T("10.1.3.3"), T("10.2.2.3") }
CAddr_1  == { T("10.1.3.3") }
CIdent_2 == { T("alice"), T("~bob") }
CHost_1  == { T("h1.example.org") }
CHost_2  == { T(""), T("h1.example.org") }
CUser_1  == { T("carol") }

\* medium pools (thorough): two patterns per criterion
Acct_2  == { None, O("alice"), O("a?a*") }
Addr_2  == { None, O("10.1.2.0/23"), O("2001:db8::/32"), O("*") }
User_2  == { None, O("~*"), O("al*") }
Host_2  == { None, O("*.example.org"), O("h?.example.*") }
Ok_2    == { None, O("d1.svc"), O("l1.svc") }
CAcct_3  == { T(""), T("alice:77"), T("alan:1") }
CAddr_3  == { T("10.1.3.3"), T("10.1.4.3"), T("2001:db8::1") }
CIdent_3 == { T(""), T("alice"), T("~bob") }
CHost_3  == { T(""), T("h1.example.org"), T("h2.example.net") }
CUser_2  == { T("carol"), T("alice") }

S_ld == << [name |-> T("d1.svc"), type |-> "dronecheck"], [name |-> T("l1.svc"), type |-> "login"] >>
S_l  == << [name |-> T("l1.svc"), type |-> "login"] >>
S_d  == << [name |-> T("d1.svc"), type |-> "dronecheck"] >>
S_0  == << >>
SvcChoices == << S_ld, S_ld, S_ld, S_l, S_d, S_0 >>      \* sampling model: weights

\* reply states of a service at acceptance time: [ok, ref, sent]
St(ok, ref, sent) == [ok |-> ok, ref |-> ref, sent |-> sent]
StUnasked == St(FALSE, FALSE, FALSE)     \* never queried (login service, no password)
StOk      == St(TRUE, FALSE, TRUE)       \* answered OK
StFinal   == St(FALSE, FALSE, TRUE)      \* answered otherwise (unlinked / AGAIN)
StPending == St(FALSE, TRUE, TRUE)       \* no answer before the accepting event (request timeout)
StOkReq   == St(TRUE, TRUE, TRUE)        \* answered OK, queried again (second password), no second answer
Login_all == { StUnasked, StOk, StFinal, StPending, StOkReq }
Drone_all == { StOk, StFinal, StPending }
Login_2   == { StUnasked, StOk }
Drone_2   == { StOk, StFinal }
Drone_1   == { StOk }

Bug_none == {}
\* model mutants (anti-vacuity of the exhaustive check; each must break VecOrder or one of Impl*)
Bug_STRCMP   == {"STRCMP"}
Bug_REVERSE  == {"REVERSE"}
Bug_LAST     == {"LAST"}
Bug_NAMEONLY == {"NAMEONLY"}
Bug_STAMP    == {"STAMP"}
Bug_CLIUSER  == {"CLIUSER"}
Bug_XR0      == {"XR0"}
Bug_TRUSTALL == {"TRUSTALL"}

-----------------------------------------------------------------------------
(* the case space *)
NCrit(b) == Cardinality({k \in {"account", "address", "username", "hostname", "xreply_ok"} : Present(b[k])})

Bodies == {b \in [class : ClassP, account : AcctP, address : AddrP, username : UserP, hostname : HostP,
                  xreply_ok : OkP, trust : TrustP] : NCrit(b) <= MaxCrit}

MkRule(n, b) == [name |-> n, class |-> b.class, account |-> b.account, address |-> b.address, username |-> b.username,
                 hostname |-> b.hostname, xreply_ok |-> b.xreply_ok, trust |-> b.trust]

StatesOf(svc) == IF svc.type = "dronecheck" THEN DroneSt ELSE LoginSt

XrOf(svcs, f) == [i \in 1..Len(svcs) |-> [svc |-> svcs[i].name, ok |-> f[i].ok, ref |-> f[i].ref, sent |-> f[i].sent]]

XrSet(svcs) == {XrOf(svcs, f) : f \in {g \in [1..Len(svcs) -> DroneSt \cup LoginSt] : \A i \in 1..Len(svcs) : g[i] \in StatesOf(svcs[i])}}

(* an account can only have come with an OK of a login-type service; a service can only be asked again after  *)
(* its OK while another service still keeps the request open                                                  *)
Consistent(svcs, c) ==
    /\ c.acct # << >> => \E i \in 1..Len(svcs) : svcs[i].type # "dronecheck" /\ c.xr[i].ok
    /\ \A i \in 1..Len(svcs) : (c.xr[i].ok /\ c.xr[i].ref) => Len(svcs) >= 2

Clients(svcs) == {c \in [addr : CAddr, host : CHost, ident : CIdent, user : CUser, acct : CAcct, xr : XrSet(svcs)] :
                Consistent(svcs, c)}

Range(s) == {s[i] : i \in 1..Len(s)}

-----------------------------------------------------------------------------
(* pools are within the determined input space *)
MasksOk(P) == \A o \in P : Present(o) =>
                 LET m == MaskDoc(Val(o))
                     p == AD!PtonAlgo(Val(o), TRUE, FALSE)
                 IN  /\ m.ok
                     /\ p.ret # 0 /\ ~p.ub
                     /\ p.bits = m.bits                          \* irc_pton agrees with the documented meaning
                     /\ AD!PrefixEq(p.addr, m.net, m.bits)
AddrsOk(P) == \A t \in P : LET a == ClientAddr(t) IN a # AD!Bad /\ AD!PtonAlgo(t, FALSE, FALSE).addr = a
GlobsOk(P) == \A o \in P : Present(o) => GlobOk(Val(o))
NamesOk(P) == \A a, b \in P : a # b => ~StrCaseEq(a, b)

ASSUME MasksOk(AddrP) /\ AddrsOk(CAddr) /\ GlobsOk(AcctP \cup UserP \cup HostP) /\ NamesOk(Names)

=============================================================================
