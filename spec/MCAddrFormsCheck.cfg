CONSTANTS
  EMIT = FALSE
  NFAM = 18
  Bug = {}
INIT Init
NEXT Next
INVARIANTS Emit DocSane DenotesNet RejectNotPlain AlgoDoc AlgoPlain
