------------------------------ MODULE LogRoute ------------------------------
(***************************************************************************)
(* C18 - log routing (src/log.c) driven by the `logs` section through the   *)
(* reload path of src/config.c.                                             *)
(*                                                                          *)
(*  Part 1  concrete syntax of an entry name ("core.>=info,error"), as       *)
(*          character codes; ParseName / Render.                            *)
(*  Part 2  (A) the contract: SevSet, Route, Expected - what the user may    *)
(*          rely on, stated on sections only.                               *)
(*  Part 3  (B) the implementation-shaped specification: the live          *)
(*          configuration nodes of the section with their update hooks, the  *)
(*          ordered merge of conf_replace_value(), log_rescan_conf() with    *)
(*          reference counts and per-type destination vectors, default       *)
(*          targets, log_vmessage().                                         *)
(*  Part 4  the state machine (Reload / ReloadNoSection / ReloadFail / Emit) *)
(*          and what TLC checks: after every reload B's routing equals the   *)
(*          declarative Route of the NEW section only.                       *)
(*                                                                          *)
(* Facilities are lower-cased character-code tuples (names are compared with *)
(* strcasecmp), severities are 1..6 (LOG_DEBUG = 0 in C), destinations are   *)
(* opaque strings ("file:a.log").                                            *)
(***************************************************************************)
EXTENDS Naturals, Integers, Sequences, FiniteSets, SequencesExt, TLC

---------------------------------------------------------------------------
(* Part 0: vocabulary *)

NSev == 6
Sev == 1..NSev
WARNING == 4                      \* LOG_WARNING + 1
SevText == <<"debug", "command", "info", "warning", "error", "fatal">>
SevWord == << <<100,101,98,117,103>>,              \* log_severity_names[], in this order
              <<99,111,109,109,97,110,100>>,
              <<105,110,102,111>>,
              <<119,97,114,110,105,110,103>>,
              <<101,114,114,111,114>>,
              <<102,97,116,97,108>> >>

Star  == <<42>>                   \* "*"     (log_default)
Core  == <<99,111,114,101>>       \* "core"  (log_core)
Modx  == <<109,111,100,120>>      \* "modx"  (a facility a module registers)
Modd  == <<109,111,100,100>>      \* "modd"  (a facility registered WITH a default target)
Bogus == <<98,111,103,117,115>>   \* "bogus" (the unknown severity word Render uses)

(* Range (Functions) and Min (FiniteSetsExt) come with SequencesExt *)

---------------------------------------------------------------------------
(* Part 1: concrete syntax.  A name is a tuple of character codes.          *)
(* Structured form (a "head"):                                              *)
(*   [dot, fac, star, comps]   dot = FALSE: the name has no '.', fac holds   *)
(*   the whole (lower-cased) name;  star: severity part is exactly "*";      *)
(*   comps: sequence of [op, sev], op in Ops, sev in 0..6 (0 = unknown word) *)

Ops == {"lit", "eq", "lt", "le", "ge", "gt"}        \* info  =info  <info  <=info  >=info  >info
OpText == [lit |-> <<>>, eq |-> <<61>>, lt |-> <<60>>, le |-> <<60,61>>, ge |-> <<62,61>>, gt |-> <<62>>]

Lower(c) == IF c \in 65..90 THEN c + 32 ELSE c
Upper(c) == IF c \in 97..122 THEN c - 32 ELSE c
LowerSeq(s) == [i \in DOMAIN s |-> Lower(s[i])]
UpperSeq(s) == [i \in DOMAIN s |-> Upper(s[i])]

IndexOf(s, ch) == IF \E i \in DOMAIN s : s[i] = ch THEN Min({i \in DOMAIN s : s[i] = ch}) ELSE 0

(* strcasecmp over log_severity_names; 0 = not found *)
WordSev(w) == LET lw == LowerSeq(w) IN
              IF \E i \in Sev : SevWord[i] = lw THEN CHOOSE i \in Sev : SevWord[i] = lw ELSE 0

(* the if-chain on sev_str[0] in log_parse_type_sevset *)
ParseComp(tok) ==
    IF tok = <<>> THEN [op |-> "lit", sev |-> 0]
    ELSE IF tok[1] = 62 THEN
        IF Len(tok) >= 2 /\ tok[2] = 61 THEN [op |-> "ge", sev |-> WordSev(SubSeq(tok, 3, Len(tok)))]
        ELSE [op |-> "gt", sev |-> WordSev(Tail(tok))]
    ELSE IF tok[1] = 60 THEN
        IF Len(tok) >= 2 /\ tok[2] = 61 THEN [op |-> "le", sev |-> WordSev(SubSeq(tok, 3, Len(tok)))]
        ELSE [op |-> "lt", sev |-> WordSev(Tail(tok))]
    ELSE IF tok[1] = 61 THEN [op |-> "eq", sev |-> WordSev(Tail(tok))]
    ELSE [op |-> "lit", sev |-> WordSev(tok)]

(* `while (sep && (sev_str = sep)[0] != '\0')`: split at commas, stop at an empty remainder *)
RECURSIVE SplitComps(_)
SplitComps(rest) ==
    IF rest = <<>> THEN <<>>
    ELSE LET k == IndexOf(rest, 44) IN
         IF k = 0 THEN <<ParseComp(rest)>>
         ELSE <<ParseComp(SubSeq(rest, 1, k - 1))>> \o SplitComps(SubSeq(rest, k + 1, Len(rest)))

ParseName(t) ==
    LET k == IndexOf(t, 46) IN
    IF k = 0 THEN [dot |-> FALSE, fac |-> LowerSeq(t), star |-> FALSE, comps |-> <<>>]
    ELSE LET rest == SubSeq(t, k + 1, Len(t)) IN
         [dot |-> TRUE, fac |-> LowerSeq(SubSeq(t, 1, k - 1)), star |-> (rest = Star),
          comps |-> IF rest = Star THEN <<>> ELSE SplitComps(rest)]

RenderComp(c) == OpText[c.op] \o (IF c.sev = 0 THEN Bogus ELSE SevWord[c.sev])
RECURSIVE RenderComps(_)
RenderComps(cs) == IF cs = <<>> THEN <<>>
                   ELSE IF Len(cs) = 1 THEN RenderComp(cs[1])
                   ELSE RenderComp(cs[1]) \o <<44>> \o RenderComps(Tail(cs))
Render(h) == IF ~h.dot THEN h.fac
             ELSE h.fac \o <<46>> \o (IF h.star THEN Star ELSE RenderComps(h.comps))

(* three-way comparison of code tuples, as strcasecmp on the lower-cased text *)
SeqCmp(a, b) ==
    LET n == IF Len(a) < Len(b) THEN Len(a) ELSE Len(b)
        diff == {i \in 1..n : a[i] # b[i]}
    IN IF diff = {} THEN (IF Len(a) < Len(b) THEN -1 ELSE IF Len(a) > Len(b) THEN 1 ELSE 0)
       ELSE LET i == Min(diff) IN IF a[i] < b[i] THEN -1 ELSE 1

---------------------------------------------------------------------------
(* Part 2: (A) the contract.                                                *)
(* An entry is [head, kind, dests]: kind "s" (string value, one destination) *)
(* or "l" (list value); a section is a set (or the range of a sequence) of   *)
(* entries.                                                                  *)

CompSet(c) == CASE c.op \in {"lit", "eq"} -> {c.sev}
                []  c.op = "ge" -> c.sev..NSev
                []  c.op = "gt" -> (c.sev + 1)..NSev
                []  c.op = "le" -> 1..c.sev
                []  c.op = "lt" -> 1..(c.sev - 1)

(* "an entry with unknown syntax is ignored as a whole": no '.', or an unknown severity word *)
WellFormed(h) == h.dot /\ (h.star \/ \A i \in DOMAIN h.comps : h.comps[i].sev # 0)

SevSet(h) == IF ~WellFormed(h) THEN {}
             ELSE IF h.star THEN Sev
             ELSE UNION {CompSet(h.comps[i]) : i \in DOMAIN h.comps}

RouteOf(section, fac, sev) ==
    UNION {Range(e.dests) : e \in {x \in section : WellFormed(x.head) /\ x.head.fac = fac /\ sev \in SevSet(x.head)}}

FacsOf(section) == {e.head.fac : e \in {x \in section : x.head.dot}} \cup {Star}
Route(section) == [f \in FacsOf(section) |-> [s \in Sev |-> RouteOf(section, f, s)]]

(* where a message of (fac, sev) must be found: its own facility's destinations and those of "*" *)
Expected(section, fac, sev) == RouteOf(section, fac, sev) \cup RouteOf(section, Star, sev)

(* Not part of C18's text, but part of log.c: a facility registered with a default target sends  *)
(* severities >= warning there unless some well-formed entry names that (facility, severity).     *)
NoDest == "none"
Specified(section, fac, sev) == \E e \in section : WellFormed(e.head) /\ e.head.fac = fac /\ sev \in SevSet(e.head)
WithDefault(section, def, fac, sev) ==
    RouteOf(section, fac, sev)
    \cup (IF fac \in DOMAIN def /\ sev >= WARNING /\ ~Specified(section, fac, sev) THEN {def[fac]} ELSE {})
ExpectedB(section, def, fac, sev) == WithDefault(section, def, fac, sev) \cup WithDefault(section, def, Star, sev)

---------------------------------------------------------------------------
(* Part 3: (B) implementation-shaped.                                        *)

CONSTANTS Sections,      \* the sections the environment may load: a set of sets of entries
          PreReg,        \* facilities registered at start-up (besides core and *)
          DefTarget,     \* function: facility -> default target, for facilities registered with one
          Bug,           \* self-test switches: re-introduce a defect into B
          MaxReloads,    \* bound on the number of (re)loads in a behaviour
          WithEmit       \* BOOLEAN: include the Emit action (it changes ghosts only; off for the big syntax universes)

VARIABLES sys,           \* the subsystem's state, a record (one variable so that TLC evaluates a step once):
                         \*   tree   live nodes of the logs section, in set order: sequence of
                         \*          [k, head, kind, val, hook, pstr]
                         \*   types  log_types: facility -> [def, specified, logs]
                         \*   dests  log_destinations: name -> refcnt
          cur,           \* ghost: the section of the last successful load
          out,           \* ghost: destinations written by the last Emit, in call order
          hist           \* ghost: the behaviour so far (hidden by the VIEW)

vars == <<sys, cur, out, hist>>
tree == sys.tree
types == sys.types
dests == sys.dests

KindRank(kind) == IF kind = "s" THEN 0 ELSE 2          \* CONF_STRING = 0, CONF_STRING_LIST = 2
KeyOf(e) == <<LowerSeq(Render(e.head)), KindRank(e.kind)>>
KeyCmp(a, b) == LET c == SeqCmp(a[1], b[1]) IN IF c # 0 THEN c ELSE a[2] - b[2]      \* conf_object_cmp

(* a node as the parser builds it (and as it is spliced over): no hook yet, parsed.p_string never set *)
NewNode(e) == [k |-> KeyOf(e), head |-> e.head, kind |-> e.kind, val |-> e.dests, hook |-> FALSE, pstr |-> FALSE]
NodeLess(a, b) == KeyCmp(a.k, b.k) < 0
SortedNodes(S) == SetToSortSeq({NewNode(e) : e \in S}, NodeLess)      \* the parse tree's logs object, in set order

EmptyType(def) == [def |-> def, specified |-> {}, logs |-> [s \in Sev |-> <<>>]]

(* log_destination_open: found -> refcnt++, else a new record with refcnt 0 (refcnt = references - 1) *)
LogDestinationOpen(ds, name) == IF name \in DOMAIN ds THEN [ds EXCEPT ![name] = @ + 1] ELSE (name :> 0) @@ ds

(* log_destination_vector_append(&type->logs[sev], log_destination_open(name)) *)
Attach(st, fac, sev, name) == [st EXCEPT !.types[fac].logs[sev] = Append(@, name),
                                         !.dests = LogDestinationOpen(@, name)]

RECURSIVE AttachAll(_, _, _, _)
AttachAll(st, fac, sev, names) == IF names = <<>> THEN st
                                  ELSE AttachAll(Attach(st, fac, sev, Head(names)), fac, sev, Tail(names))

(* attach the default target to the unspecified severities of LOG_WARNING and above *)
RECURSIVE AttachDefault(_, _, _)
AttachDefault(st, fac, sev) ==
    IF sev > NSev THEN st
    ELSE AttachDefault(IF sev \in st.types[fac].specified THEN st ELSE Attach(st, fac, sev, st.types[fac].def),
                       fac, sev + 1)

LogTypeRegister(st, fac, def) ==
    LET st1 == IF fac \in DOMAIN st.types THEN st ELSE [st EXCEPT !.types = (fac :> EmptyType(NoDest)) @@ @]
    IN IF def # NoDest /\ st1.types[fac].def = NoDest
       THEN AttachDefault([st1 EXCEPT !.types[fac].def = def], fac, WARNING)
       ELSE st1

(* log_parse_type_sevset: res 1 = no '.', 3 = unknown severity word (the bits set so far stay in   *)
(* *sevset; the caller discards them by `continue`), 0 = ok.  reg: the type was looked up/registered *)
RECURSIVE SevLoop(_, _)
SevLoop(comps, bits) ==
    IF comps = <<>> THEN [res |-> 0, bits |-> bits]
    ELSE IF Head(comps).sev = 0 THEN [res |-> 3, bits |-> bits]
    ELSE SevLoop(Tail(comps), bits \cup CompSet(Head(comps)))

LogParseTypeSevset(h) ==
    IF ~h.dot THEN [res |-> 1, reg |-> FALSE, bits |-> {}]
    ELSE IF h.star THEN [res |-> 0, reg |-> TRUE, bits |-> Sev]
    ELSE LET r == SevLoop(h.comps, {}) IN [res |-> r.res, reg |-> TRUE, bits |-> r.bits]

RECURSIVE AttachSevs(_, _, _, _, _)
AttachSevs(st, fac, bits, names, sev) ==          \* for (sev = 0; sev < LOG_NUM_SEVERITIES; ++sev) if BITSET_GET ...
    IF sev > NSev THEN st
    ELSE IF sev \in bits
         THEN AttachSevs([AttachAll(st, fac, sev, names) EXCEPT !.types[fac].specified = @ \cup {sev}],
                         fac, bits, names, sev + 1)
         ELSE AttachSevs(st, fac, bits, names, sev + 1)

(* the walk over conf.root->contents in log_rescan_conf *)
RECURSIVE RescanChildren(_, _)
RescanChildren(st, i) ==
    IF i > Len(st.tree) THEN st
    ELSE LET node == st.tree[i]
             st1 == IF "nohook" \in Bug THEN st ELSE [st EXCEPT !.tree[i].hook = TRUE]   \* child->hook = log_rescan_type
             r == LogParseTypeSevset(node.head)
             st2 == IF r.reg THEN LogTypeRegister(st1, node.head.fac, NoDest) ELSE st1
         IN IF r.res # 0 /\ ~("keepbits" \in Bug /\ r.reg)
            THEN RescanChildren(st2, i + 1)                                               \* continue
            ELSE RescanChildren(AttachSevs(st2, node.head.fac, r.bits, node.val, 1), i + 1)

RECURSIVE RescanDefaults(_, _)
RescanDefaults(st, facs) ==
    IF facs = <<>> THEN st
    ELSE LET f == Head(facs) IN
         RescanDefaults(IF st.types[f].def = NoDest THEN st ELSE AttachDefault(st, f, WARNING), Tail(facs))

FacLess(a, b) == SeqCmp(a, b) < 0

LogRescanConf(st) ==
    LET s1 == [st EXCEPT !.dests = [d \in DOMAIN @ |-> -1],                               \* refcnt = -1
                         !.types = [f \in DOMAIN @ |->
                                       [@[f] EXCEPT !.specified = {},
                                                    !.logs = IF "noreset" \in Bug THEN @ ELSE [s \in Sev |-> <<>>]]]]
        s2 == RescanChildren(s1, 1)
        s3 == RescanDefaults(s2, SetToSortSeq(DOMAIN s2.types, FacLess))
        open == {d \in DOMAIN s3.dests : s3.dests[d] >= 0}                                \* close the unreferenced
    IN [s3 EXCEPT !.dests = [d \in open |-> s3.dests[d]]]

(* conf_replace_value(logs, source): the ordered merge of the live nodes with the parsed section.    *)
(* w = [done, tt, ss, types, dests, modified]: nodes already merged, live nodes still to visit,      *)
(* parsed entries still to visit.  A child's hook (log_rescan_type -> log_rescan_conf) runs in the    *)
(* MIDDLE of the walk and sees done \o tt.                                                            *)
WithRescan(w) ==
    LET st == LogRescanConf([tree |-> w.done \o w.tt, types |-> w.types, dests |-> w.dests])
    IN [w EXCEPT !.done = SubSeq(st.tree, 1, Len(w.done)),
                 !.tt = SubSeq(st.tree, Len(w.done) + 1, Len(st.tree)),
                 !.types = st.types, !.dests = st.dests]

RECURSIVE Walk(_)
Walk(w) ==
    IF w.tt = <<>> /\ w.ss = <<>> THEN w
    ELSE LET res == IF w.tt # <<>> /\ w.ss # <<>> THEN KeyCmp(Head(w.tt).k, Head(w.ss).k)
                    ELSE IF w.tt # <<>> THEN -1 ELSE 1
         IN
         IF res > 0 THEN                       \* not currently present: splice it over
             Walk([w EXCEPT !.done = Append(@, Head(w.ss)), !.ss = Tail(@), !.modified = TRUE])
         ELSE IF res < 0 THEN                  \* no longer present: revert to default (nothing), node removed
             LET t == Head(w.tt) IN
             IF t.kind = "l" /\ t.val # <<>>
             THEN (* conf_set_string_list_value(node, &def_value): emptied, the child's hook runs, then removed *)
                  LET w1 == [w EXCEPT !.tt = <<[t EXCEPT !.val = <<>>]>> \o Tail(@)]
                      w2 == IF t.hook THEN WithRescan(w1) ELSE w1
                  IN Walk([w2 EXCEPT !.tt = Tail(@), !.modified = TRUE])
             ELSE Walk([w EXCEPT !.tt = Tail(@), !.modified = TRUE])
         ELSE                                   \* present in both: update the value in place
             LET t == Head(w.tt)
                 s == Head(w.ss)
                 changed == IF t.kind = "s" THEN (~t.pstr \/ s.val # t.val)       \* conf_parse_string_value
                            ELSE s.val # t.val                                      \* conf_set_string_list_value
                 t1 == [t EXCEPT !.val = s.val, !.pstr = (t.kind = "s")]
                 w1 == [w EXCEPT !.tt = <<t1>> \o Tail(@)]
                 w2 == IF changed /\ t.hook THEN WithRescan(w1) ELSE w1
             IN Walk([w2 EXCEPT !.done = Append(@, Head(w2.tt)), !.tt = Tail(@), !.ss = Tail(@)])

ConfReplaceLogs(s0, S) ==
    LET w == Walk([done |-> <<>>, tt |-> s0.tree, ss |-> SortedNodes(S),
                   types |-> s0.types, dests |-> s0.dests, modified |-> FALSE])
        f == IF w.modified THEN WithRescan(w) ELSE w            \* if (modified && target_->hook) hook(target_)
    IN [tree |-> f.done \o f.tt, types |-> f.types, dests |-> f.dests]

(* log_vmessage: the type's own vector for sev, then log_default's *)
Written(ty, fac, sev) == (IF fac \in DOMAIN ty THEN ty[fac].logs[sev] ELSE <<>>) \o ty[Star].logs[sev]

---------------------------------------------------------------------------
(* Part 4: the state machine *)

RECURSIVE RegisterAll(_, _, _)
RegisterAll(s0, facs, def) ==
    IF facs = <<>> THEN s0
    ELSE RegisterAll(LogTypeRegister(s0, Head(facs), IF Head(facs) \in DOMAIN def THEN def[Head(facs)] ELSE NoDest),
                     Tail(facs), def)

(* log_init(): core and * registered, initial rescan of the (empty) section; then the start-up registrations *)
InitStateFor(prereg, def) ==
    RegisterAll(LogRescanConf([tree |-> <<>>, types |-> (Core :> EmptyType(NoDest)) @@ (Star :> EmptyType(NoDest)),
                               dests |-> <<>>]),
                SetToSortSeq(prereg, FacLess), def)
InitState == InitStateFor(PreReg, DefTarget)

RenderSection(S) == LET es == SortedNodes(S) IN
                    [i \in DOMAIN es |-> [name |-> Render(es[i].head), kind |-> es[i].kind, dests |-> es[i].val]]

Init == /\ sys = InitState
        /\ cur = {}
        /\ out = <<>>
        /\ hist = <<>>

Reload(S) ==
    /\ sys' = ConfReplaceLogs(sys, S)
    /\ cur' = S
    /\ out' = <<>>
    /\ hist' = Append(hist, [e |-> "load", sec |-> RenderSection(S)])

(* a file without a logs section: conf_replace_value(logs, NULL) reverts every child, which is the  *)
(* same sequence of calls as merging with an empty section                                           *)
ReloadNoSection ==
    /\ sys' = ConfReplaceLogs(sys, {})
    /\ cur' = {}
    /\ out' = <<>>
    /\ hist' = Append(hist, [e |-> "nosec"])

(* a file with a syntax error: conf_read() longjmps before conf_replace_value() *)
ReloadFail ==
    /\ UNCHANGED <<sys, cur>>
    /\ out' = <<>>
    /\ hist' = Append(hist, [e |-> "fail"])

EmitFacs == {Core, Star} \cup PreReg

Emit(fac, sev) ==
    /\ sys' = LogTypeRegister(sys, fac, NoDest)           \* the emitter looks its facility up (or registers it)
    /\ out' = Written(sys'.types, fac, sev)
    /\ UNCHANGED <<cur, hist>>

Next == \/ Len(hist) < MaxReloads /\ \E S \in Sections : Reload(S)
        \/ Len(hist) < MaxReloads /\ ReloadNoSection
        \/ Len(hist) < MaxReloads /\ ReloadFail
        \/ WithEmit /\ \E f \in EmitFacs, s \in Sev : Emit(f, s)

Spec == Init /\ [][Next]_vars

View == <<sys, cur>>

---------------------------------------------------------------------------
(* What TLC checks on B *)

AllFacs == DOMAIN types

TypeOK == /\ \A f \in DOMAIN types : types[f].specified \subseteq Sev
          /\ \A d \in DOMAIN dests : dests[d] \in Int

(* the routing after any reload sequence is the declarative one of the CURRENT section only *)
RoutingIsDeclarative ==
    \A f \in AllFacs, s \in Sev : Range(Written(types, f, s)) = ExpectedB(cur, DefTarget, f, s)

(* without default targets that is exactly the contract's Expected *)
RoutingIsContract ==
    DefTarget = <<>> => \A f \in AllFacs, s \in Sev : Range(Written(types, f, s)) = Expected(cur, f, s)

(* Emit writes what Written says (ties the ghost `out` to the invariant above) *)
EmitWrites == out # <<>> => \E f \in AllFacs, s \in Sev : out = Written(types, f, s)

Refs == UNION {{<<f, s, i>> : i \in DOMAIN types[f].logs[s]} : f \in AllFacs, s \in Sev}
Occurrences(d) == Cardinality({r \in Refs : types[r[1]].logs[r[2]][r[3]] = d})

(* refcnt = references - 1, nothing referenced is closed, nothing unreferenced stays open *)
RefcountsExact ==
    /\ \A f \in AllFacs, s \in Sev : Range(types[f].logs[s]) \subseteq DOMAIN dests
    /\ \A d \in DOMAIN dests : dests[d] >= 0 /\ dests[d] = Occurrences(d) - 1

(* every live node carries its update hook, so a later in-place edit is noticed *)
HooksInstalled == \A i \in DOMAIN tree : tree[i].hook

(* the live nodes are exactly the current section *)
TreeIsSection == {[head |-> tree[i].head, kind |-> tree[i].kind, dests |-> tree[i].val] : i \in DOMAIN tree} = cur

(* text and structure agree on every name of the universe (also in upper case), and the C loop      *)
(* (SevLoop + `continue`) computes the declarative SevSet                                           *)
SyntaxAgrees ==
    \A S \in Sections : \A e \in S :
        /\ ParseName(Render(e.head)) = e.head
        /\ ParseName(UpperSeq(Render(e.head))) = e.head
        /\ LET r == LogParseTypeSevset(e.head) IN (IF r.res = 0 THEN r.bits ELSE {}) = SevSet(e.head)

=============================================================================
