"""C09: drive the real daemon along histories that make it print every kind of message for clients announced from
the whole address domain, under several logs sections and with warning / error producing events; record every stdout
line byte for byte; TLC (spec/WireTrace.tla + IAuthWire.tla + Addr.tla) judges form and addressing."""
import ipaddress
import json
import re
import multiprocessing
from . import core as _core
import os
import signal
import time

from . import daemon as D
from . import tlc as T
from .core import MachineryError

SVCS = [{"name": "a1.svc", "type": "login"}, {"name": "b2.svc", "type": "combined"}, {"name": "c3.svc", "type": "dronecheck"}]
# the second rule has no class entry: its (long) name is the class of the clients it matches
RULES = [{"name": "ra", "account": "?*", "class": "cacct", "trust_username": "yes"},
         {"name": "rm" + "m" * 70, "hostname": "h1*"}, {"name": "rz", "class": "cdef"}]
LOGS = {
    "none": None,
    "all": [("*.*", "file:all.log")],
    "split": [("iauth.*", "file:iauth.log"), ("*.>=warning", "file:warn.log"), ("core.<=info", "file:core.log")],
}
PORTS = [0, 1, 1023, 6667, 32768, 65535]
_BAR = __import__("re").compile(rb"S iauth :\d+-\d+ reqs alloc, \d+ in use")


def gen_addresses(ctx, nc5_from, nc5_count, nc5_step, v4nc):
    cfg = os.path.join(ctx.scratch, "wiregen.cfg")
    with open(cfg, "w") as f:
        f.write("CONSTANTS\n  NC5From = %d\n  NC5Count = %d\n  NC5Step = %d\n  V4NC = %d\nINIT Init\nNEXT Next\n"
                % (nc5_from, nc5_count, nc5_step, v4nc))
    r = ctx.tlc("MCWireGen", cfg, workers=1, timeout=300, heap="2g")
    for line in r.printed:
        s = T.unquote_printed(line)
        if s.startswith("@@G"):
            return json.loads(s[3:])
    raise MachineryError("MCWireGen printed no address list:\n" + r.output[-1500:])


def renderings(a):
    """Textual forms of the 8-group address a that a server may announce."""
    full = ":".join("%x" % g for g in a)
    ip = ipaddress.IPv6Address(full)
    # a parameter that starts with ':' would be a trailing parameter, so (like ircd) a leading "::" is written "0::"
    comp = ip.compressed
    forms = [full, "0" + comp if comp.startswith(":") else comp]
    if a[:5] == [0, 0, 0, 0, 0] and a[5] in (0, 65535):
        quad = "%d.%d.%d.%d" % (a[6] >> 8, a[6] & 255, a[7] >> 8, a[7] & 255)
        forms.append(("0::ffff:" if a[5] else "0::") + quad)
        if a[5] == 65535:
            forms.append(quad)
    out = []
    for f in forms:
        if f not in out:
            out.append(f)
    return out


def client_history(cid, addr_text, port, variant):
    """Events (literal address text) that make the daemon print d, C, M, U, R or D or k and several X lines for cid."""
    tag_serial = None      # filled by the worker
    ev = [{"e": "C", "id": cid, "addr": "T:" + addr_text, "port": port},
          {"e": "N", "id": cid, "host": ["h%x" % cid, 14]} if variant % 3 else {"e": "d", "id": cid},
          {"e": "u", "id": cid, "ident": ["~i%x" % cid, 6]},
          {"e": "n", "id": cid, "nick": ["n%x" % cid, 7]},
          {"e": "U", "id": cid, "user": ["c%x" % cid, 6], "tilde": 0, "real": ["sp%x" % cid, 20]},
          {"e": "P", "id": cid, "shape": "ok", "modes": ["+", "x"], "cred": ["p%x" % cid, 12], "raw": ["P%x" % cid, 0]}]
    rep = lambda svc, kind: {"e": "X", "svc": svc, "tag": "@cur", "kind": kind, "acct": ["ac%x" % cid, 9],
                             "text": ["spt%x" % cid, 30], "trail": ""}
    if variant % 9 == 8:
        # over-long texts: the relayed challenge line ends exactly at / just below / above the formatter's 1024-byte buffer,
        # and far beyond it; whatever the daemon does with the text, what it writes must still be single well-formed lines
        head = len("C %d %s %d :" % (cid, addr_text, port))
        total = (1021, 1022, 1023, 1024, 1025, 1100, 2100)[(variant // 9) % 7]
        long_rep = dict(rep("a1.svc", "MORE"), text=["spl%x" % cid, max(20, total - head)])
        ev += [long_rep, dict(ev[5]), dict(rep("a1.svc", "AGAIN"), text=["spm%x" % cid, max(20, total - head + 1)]),
               rep("b2.svc", "OK"), rep("c3.svc", "OK")]
    elif variant % 4 == 0:
        ev += [rep("a1.svc", "AGAIN"), rep("b2.svc", "OKA"), rep("c3.svc", "NO")]
    elif variant % 4 == 1:
        ev += [rep("a1.svc", "MORE"), dict(ev[5]), rep("a1.svc", "OKA"), rep("b2.svc", "OK"), rep("c3.svc", "OK")]
    elif variant % 4 == 2:
        ev += [rep("b2.svc", "UNL"), rep("a1.svc", "OK"), rep("c3.svc", "OKA")]
    else:
        ev += [{"e": "TO", "id": cid}]
    ev += [{"e": "D", "id": cid}]
    return ev


def _worker(args):
    (root, moddir, daemonpath, workdir, items, trace_path, logs_key) = args

    class B:
        pass
    b = B()
    b.root, b.moddir, b.daemon = root, moddir, daemonpath
    os.makedirs(workdir, exist_ok=True)
    nsteps = nlines = nclient_lines = ncrash = 0
    silent = []
    index = []
    with open(trace_path, "w") as tf:
        def w(rec, key):
            tf.write(json.dumps(rec, separators=(",", ":")) + "\n")
            index.append(key)
        pos = 0
        per = 60
        while pos < len(items):
            chunk = items[pos:pos + per]
            pos += per
            d = D.Daemon(b, workdir, SVCS, timeout="1h", modules=("iauth_xquery", "iauth_class"), rules=RULES,
                         logs=LOGS[logs_key], raw=True, addr_text=lambda name: name[2:] if name.startswith("T:") else D.default_addr_text(name))
            w({"e": "Reset", "banner": [list(l) for l in d.banner_raw]}, None)
            # the shape of the first line of the barrier's report is learned from this process's first barrier (digit runs
            # generalised), so that a change of the statistics text does not matter
            d.raw_step(b"")
            first = next((ln for ln in d.last_raw if ln.startswith(b"S ")), None)
            bar_re = re.compile(re.sub(rb"\\?\d+", rb"\\d+", re.escape(first)) + rb"$") if first else _BAR
            serial = 0
            for (key, hist) in chunk:
                if d.dead:
                    break
                cur = None
                mine = 0
                for e in hist:
                    if e["e"] == "C":
                        serial += 1
                        cur = "%x_%x" % (e["id"], serial)
                    if e["e"] == "X" and e["tag"] == "@cur":
                        e = dict(e, tag=cur)
                    if e["e"] == "SIG":
                        with open(d.conf_path, "w") as f:
                            f.write(e["conf"] if e["conf"] is not None else D.conf_text(b.moddir, SVCS, **d.conf_args))
                        d.signal(signal.SIGUSR1)
                        time.sleep(0.25)
                        lines, n = d.raw_step(b"")
                        rec = ({"e": "S", "ev": {"e": "SIG"}, "raw": [list(l) for l in d.last_raw]} if n is not None
                               else {"e": "Crash", "ev": {"e": "SIG"}})
                    elif e["e"] == "RAW":
                        lines, n = d.raw_step(e["line"].encode() + b"\n")
                        rec = ({"e": "S", "ev": {"e": "RAW"}, "raw": [list(l) for l in d.last_raw]} if n is not None
                               else {"e": "Crash", "ev": {"e": "RAW"}})
                    else:
                        rec = d.step(e)
                        rec.pop("o", None)
                    nsteps += 1
                    # the routing tag of this client, as the daemon itself spells it
                    for ln in d.last_raw:
                        if ln.startswith(b"X ") and "id" in e:
                            wds = ln.split(b" ")
                            if len(wds) > 2 and wds[2].startswith(b"%x_" % e["id"]):
                                cur = wds[2].decode()
                    # the step's own lines / the barrier's statistics block (starts at the last "S iauth :<n>-<m> reqs alloc"
                    # line).  The block's lines are judged for form on every 40th step only (they differ in numbers only), but
                    # its first and last line are always handed to TLC: a message that lost its newline swallows the next line.
                    if "raw" in rec:
                        blk = [k for k, ln in enumerate(d.last_raw) if bar_re.match(ln)]
                        cut = blk[-1] if blk else len(d.last_raw)
                        rec["bar"] = [list(d.last_raw[cut]), list(d.last_raw[-1])] if blk else []
                        if nsteps % 40:
                            rec["raw"] = rec["raw"][:cut]
                    w(rec, key)
                    if rec["e"] == "Crash":
                        ncrash += 1
                        break
                    nlines += len(rec.get("raw", []))
                    k = sum(1 for l in rec.get("raw", []) if l and chr(l[0]) in "oUuNIMCkDRd" and len(l) > 1 and l[1] == 32)
                    nclient_lines += k
                    mine += k
                if not mine and not d.dead:
                    silent.append(key)

            rc, san, ub = d.close(wait=5 if d.dead else 15)
            w({"e": "Eof", "exit": rc if rc is not None else -9, "san": san[:300]}, None)
    with open(trace_path + ".idx", "w") as f:
        json.dump(index, f)
    return {"trace": trace_path, "steps": nsteps, "lines": nlines, "client_lines": nclient_lines, "crashes": ncrash,
            "records": len(index), "silent": silent}


def run(ctx, items_by_logs, nproc=12):
    """items_by_logs: {logs key: [(key, history), ...]}"""
    b = ctx.build
    jobs = []
    for lk, items in items_by_logs.items():
        n = max(1, min(nproc, (len(items) + 59) // 60))
        size = (len(items) + n - 1) // n
        for k in range(n):
            part = items[k * size:(k + 1) * size]      # contiguous: consecutive clients (id re-use) stay on one daemon
            if part:
                jobs.append((b.root, b.moddir, b.daemon, os.path.join(ctx.scratch, "wire-%s-%d" % (lk, k)), part,
                             os.path.join(ctx.scratch, "wire-%s-%d.ndjson" % (lk, k)), lk))
    return _core.pool_map(_worker, jobs, min(nproc, len(jobs)))


def validate(ctx, res):
    r = ctx.tlc("WireTrace", "WireTrace.cfg", workers=1, timeout=1500, env={"TRACE": res["trace"]}, heap="3g")
    if not r.ok or (r.depth != res["records"] + 1 and r.distinct != res["records"] + 1):
        raise MachineryError("WireTrace did not consume %s (%s; depth %d of %d)\n%s"
                             % (res["trace"], r.violated, r.depth, res["records"] + 1, r.output[-1500:]))
    viol, mach = [], []
    for line in r.printed:
        s = T.unquote_printed(line)
        if s.startswith("@@V"):
            viol.append(json.loads(s[3:]))
        elif s.startswith("@@M"):
            mach.append(json.loads(s[3:]))
    return viol, mach
