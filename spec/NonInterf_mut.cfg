CONSTANTS
  Services <- S_q1
  TimeoutOn = TRUE
  Bug <- NoBug
  A = 5
  Others <- O1
  MaxInstA = 2
  MaxInstO = 1
  MaxPw = 1
  OtherFull = FALSE
  EmitMod = 0
  NIBug <- NIBugShare
INIT NIInit
NEXT NINext
VIEW NIView
INVARIANT SameConversation
INVARIANT SilentOthers
INVARIANT SameState
