------------------------------ MODULE ReadLine ------------------------------
(***************************************************************************)
(* The input layer of iauthd-c as a state machine: a peer writes a byte    *)
(* stream, iauth_read() gets it in read() chunks of any size, the peer may *)
(* die after any byte.  The operators (contract A: ADeliver ...;           *)
(* implementation B: BReadLn, BStrtol, BTokLoop, BDrain ...) are defined   *)
(* in ReadLineOps.tla, see the comment there.  The invariants at the end   *)
(* state that B refines A: chunking-invariance, prefix-closure (peer       *)
(* death), no line stuck or lost in the buffer, argv[] stores in bounds,   *)
(* clean end of input.                                                     *)
(***************************************************************************)
EXTENDS ReadLineOps

-----------------------------------------------------------------------------
(* The state machine: a peer writes a byte stream, the daemon read()s it in  *)
(* chunks of any size up to MaxChunk, the peer may die after any byte.       *)
CONSTANTS Streams, MaxChunk

VARIABLES
    rest,     \* bytes the peer has not delivered yet
    seen,     \* ghost: bytes read so far
    buf,      \* iauth_in (the evbuffer)
    dl,       \* ghost: lines handed to the dispatcher so far, [id, argv]
    slots,    \* ghost: argv[] slots written so far
    eof       \* read() returned 0: clean_exit, event_base_loopbreak()

rvars == <<rest, seen, buf, dl, slots, eof>>

RInit == /\ rest \in Streams
         /\ seen = <<>> /\ buf = <<>> /\ dl = <<>> /\ slots = {} /\ eof = FALSE

\* iauth_read(), res > 0
Read(n) ==
    /\ ~eof /\ n >= 1 /\ n <= Len(rest)
    /\ LET chunk == SubSeq(rest, 1, n)
           r == BDrain(buf \o chunk, <<>>, slots)
       IN /\ buf' = (IF "droppartial" \in Bug THEN <<>> ELSE r.buf)
          /\ dl' = dl \o r.dl
          /\ slots' = r.slots
          /\ seen' = seen \o chunk
    /\ rest' = Sub(rest, n + 1, Len(rest))
    /\ UNCHANGED eof

\* iauth_read(), res == 0: end of input, possibly with undelivered bytes still at the dead peer;
\* module_destructor() frees the evbuffer with whatever it holds
Eof ==
    /\ ~eof
    /\ eof' = TRUE
    /\ buf' = <<>>
    /\ dl' = (IF "eoftail" \in Bug /\ buf # <<>> THEN dl \o BDrain(Append(buf, LF), <<>>, {}).dl ELSE dl)
    /\ UNCHANGED <<rest, seen, slots>>

RNext == Eof \/ \E n \in 1..MaxChunk : Read(n)

RSpec == RInit /\ [][RNext]_rvars

\* ---- B refines A -----------------------------------------------------------------------------
\* chunking-invariance and prefix-closure in one: after any sequence of reads, and after end of input at any
\* byte, the dispatcher has seen exactly the contract's lines of the bytes read
DeliveredIsContract == dl = ADeliver(seen)
\* between reads the buffer holds exactly the unterminated tail (no line is stuck in it, none is lost)
BufferIsTail == ~eof => buf = ATail(seen)
\* memory: every argv[] store is inside the array
ArgvInBounds == \A k \in slots : k < ARGV
\* end of input is clean whatever was pending
EofClean == eof => buf = <<>>
=============================================================================
