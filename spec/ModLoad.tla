------------------------------ MODULE ModLoad ------------------------------
(***************************************************************************)
(* C20 -- (B) the module loader of src/module.c transcribed, producing the *)
(* event log the modules' entry points would write, and checked against    *)
(* (A) ModLoadContract for EVERY dependency graph / listing chosen in Init.*)
(*                                                                         *)
(* One action per call / loop iteration of the C code; sub-operators carry *)
(* the names of the C functions they mirror:                               *)
(*                                                                         *)
(*   main()                 phases "load" -> "prepass" -> "walk" ->        *)
(*                          (event loop, SIGHUP) -> "close" -> "exited"    *)
(*   module_load_list()     LoadList (the for loop over the list),         *)
(*                          Prepass (visit numbering of earlier walks),    *)
(*                          WalkNode (rdepends update + top-level dfs)     *)
(*   module_load()          ModuleLoad: "already exists" test, module_get, *)
(*                          dlopen (LOG_FATAL -> _exit(1)), constructor;   *)
(*                          the global loading_module is `loading`, the    *)
(*                          constructors in progress with their saved      *)
(*                          `prior` are `lstack`; the optional             *)
(*                          module_constructor is looked up with dlsym and *)
(*                          skipped when absent, loading_module = prior is *)
(*                          done either way  (Bug = "NoCtorNoRestore": an  *)
(*                          early return without the restore when there is *)
(*                          no constructor)                                *)
(*   module_depends() /     Ctor: one declaration per step, loading the    *)
(*   module_antidepends()   target first when it does not exist yet; the   *)
(*                          edge is recorded for loading_module, whatever  *)
(*                          module's constructor makes the call            *)
(*   module_dfs()           DfsStep with the recursion as `dstack`; the    *)
(*                          visited marks: 0 never, -visit in progress,    *)
(*                          >0 post-init done  (Bug = "D12": the marks as  *)
(*                          they were before commit 47cba46); the optional *)
(*                          module_post_init is looked up with dlsym and   *)
(*                          skipped when absent, the mark is set either    *)
(*                          way  (Bug = "NoPostNoMark": early return 0     *)
(*                          without the mark when there is no post-init)   *)
(*   call_exit_funcs()      module_close_all() is run twice (directly and  *)
(*                          through module_clean)                          *)
(*   module_close_all()     CloseRounds (do/while over the set, `next`     *)
(*                          saved before the removal), CloseLeftovers      *)
(*   set_remove()+          SetRemove: unlink first, then module_cleanup:  *)
(*   module_cleanup()       module_get() of every dependency (which        *)
(*                          RE-CREATES an entry that is already gone),     *)
(*                          const_string_vector_remove of all occurrences, *)
(*                          destructor through dlsym (a NULL handle means  *)
(*                          RTLD_DEFAULT: first still-open module that has *)
(*                          one); a module without module_destructor is    *)
(*                          unlinked from its dependencies' rdepends all   *)
(*                          the same  (Bug = "NoDtorNoUnlink": the unlink  *)
(*                          loop only runs when a destructor was found)    *)
(*                                                                         *)
(* The hook profile (which modules lack module_post_init / lack            *)
(* module_destructor / lack module_constructor; only a module that         *)
(* declares nothing can lack the constructor) is part of the case chosen   *)
(* in Init: Profiles = "full" (every module has all three), "all" (every   *)
(* profile), "good" (every profile for GOOD cases, "full" for the others;  *)
(* Python draws profiles for a sample of those and hands them back through *)
(* a case file), "goodsplit" (as "good", but only the profiles <<P, D, {}>> *)
(* for all sets P, D of modules, and <<{}, {}, X>> and <<X, X, X>> for     *)
(* every non-empty set X of modules that declare nothing: X lack the       *)
(* constructor only / every entry point), "goodpaired" (as "goodsplit",    *)
(* but of the <<P, D, {}>> only <<S, S, {}>> and <<S, complement of S, {}>> *)
(* for every set S of modules).                                            *)
(*                                                                         *)
(* B is deterministic: one behaviour per initial state; the initial states *)
(* are the cases.  Source = "enum": all cases with n <= MaxN modules that  *)
(* are all needed (a module nobody reaches is never touched by the loader, *)
(* so such a case is an order-preserving renaming of a smaller one);       *)
(* Source = "file": the cases of the ndjson file IOEnv.CASES (random       *)
(* graphs on 5-6 modules, replays).                                        *)
(***************************************************************************)
EXTENDS ModLoadContract, TLC, Json, IOUtils

CONSTANTS
    Source,      \* "enum" | "file"
    MaxN,        \* enum: number of modules 1..MaxN
    SelfLoops,   \* enum: may a module name itself in module_depends()
    DepOrders,   \* enum: "asc" (declarations in name order) | "all" (every call order)
    WithMissing, \* enum: also cases with one dependency-free module whose .so does not exist
    WithAnti,    \* enum: also module_antidepends() edges
    Profiles,    \* enum: "full" | "all" | "good" | "goodsplit" | "goodpaired"  (hook profiles, see above)
    Bug          \* "none" | "D12" (module_dfs before commit 47cba46)
                 \* | "NoPostNoMark" | "NoDtorNoUnlink" | "NoCtorNoRestore" (regressions on the paths
                 \*   for absent entry points)

VARIABLES
    cs,        \* the case: [n, deps, anti, backend, list, missing, nopost, nodtor, noctor]  (never changes)
    phase,     \* "load" | "prepass" | "walk" | "close" | "exited"
    mods,      \* names present in the `modules` set (iterated in name order)
    depends, rdepends, handle, visited, backend,    \* struct module fields, by name
    ii,        \* module_load_list: index into the list
    lstack,    \* module_load recursion, one frame per constructor in progress: <<[m, k, prior]>>
               \* (m = the module whose constructor runs, k = its next call, prior = the local `prior`)
    loading,   \* the global loading_module (0 = NULL)
    visit,     \* module_load_list: visit counter
    node,      \* cursor of the set iteration in module_load_list / module_close_all (0 = NULL)
    dstack,    \* module_dfs recursion: <<[m, i]>>
    closing,   \* [call |-> 1 | 2, part |-> "rounds" | "left", progress |-> BOOLEAN]
    log,       \* the observable event log
    status     \* exit status (-1 while the process lives)

vars == <<cs, phase, mods, depends, rdepends, handle, visited, backend, ii, lstack, loading, visit, node,
          dstack, closing, log, status>>

Mods == 1..cs.n

(* ------------------------------ cases ------------------------------ *)

RECURSIVE SortedSeq(_)
SortedSeq(S) == IF S = {} THEN <<>>
                ELSE LET x == CHOOSE y \in S : \A z \in S : y <= z IN <<x>> \o SortedSeq(S \ {x})
RECURSIVE Perms(_)
Perms(S) == IF S = {} THEN {<<>>} ELSE UNION {{<<x>> \o p : p \in Perms(S \ {x})} : x \in S}

AdjSeqs(n)  == IF DepOrders = "all" THEN UNION {Perms(S) : S \in SUBSET (1..n)}
               ELSE {SortedSeq(S) : S \in SUBSET (1..n)}
Listings(n) == UNION {Perms(S) : S \in (SUBSET (1..n)) \ {{}}}
NoAnti(n)   == [m \in 1..n |-> <<>>]

FileCases == ndJsonDeserialize(IOEnv.CASES)
FileCase(r) == [n |-> r.n, deps |-> r.deps, anti |-> (IF "anti" \in DOMAIN r THEN r.anti ELSE NoAnti(r.n)), backend |-> {},
                list |-> r.list, missing |-> Range(r.missing),
                nopost |-> Range(r.nopost), nodtor |-> Range(r.nodtor), noctor |-> Range(r.noctor)]

\* every module is named in the list, pulled in by a dependency, or pulled in by an anti-dependency
AllPulledIn(c) ==
    LET RECURSIVE Cl(_)
        Cl(S) == LET T == S \cup UNION {Succ(c, m) \cup (IF m \in c.missing THEN {} ELSE Range(c.anti[m])) : m \in S}
                 IN IF T = S THEN S ELSE Cl(T)
    IN Cl(Range(c.list)) = 1..c.n

InitCase(c) ==
    /\ cs = c
    /\ phase = "load"
    /\ mods = {}
    /\ depends  = [m \in 1..c.n |-> <<>>]
    /\ rdepends = [m \in 1..c.n |-> <<>>]
    /\ handle   = [m \in 1..c.n |-> FALSE]
    /\ visited  = [m \in 1..c.n |-> 0]
    /\ backend  = [m \in 1..c.n |-> 0]
    /\ ii = 1 /\ lstack = <<>> /\ loading = 0 /\ visit = 0 /\ node = 0 /\ dstack = <<>>
    /\ closing = [call |-> 0, part |-> "none", progress |-> FALSE]
    /\ log = <<>>
    /\ status = -1

\* the graphs on n modules of the enumeration (filtered once per n, not once per listing)
DepGraphs(n)  == {d \in [1..n -> AdjSeqs(n)] : SelfLoops \/ \A m \in 1..n : m \notin Range(d[m])}
AntiGraphs(n, d) ==
    IF WithAnti
    THEN {a \in [1..n -> {SortedSeq(S) : S \in SUBSET (1..n)}] :
             \A m \in 1..n : m \notin Range(a[m]) /\ Range(a[m]) \cap Range(d[m]) = {}}
    ELSE {NoAnti(n)}
MissingChoices(n, d, a) ==
    {{}} \cup (IF WithMissing THEN {{m} : m \in {y \in 1..n : d[y] = <<>> /\ a[y] = <<>>}} ELSE {})
\* the modules that may lack module_constructor: a constructor is the only place to declare anything from
Silent(c) == {m \in (1..c.n) \ c.missing : c.deps[m] = <<>> /\ c.anti[m] = <<>> /\ m \notin c.backend}
\* hook profiles <<nopost, nodtor, noctor>> of the enumeration; a module without a shared object has no profile
ProfileChoices(c) ==
    LET Have == (1..c.n) \ c.missing
        L    == SUBSET Have
        X    == (SUBSET Silent(c)) \ {{}}
        AnyP == L \X L \X (SUBSET Silent(c))
        \* every non-empty set of modules that declare nothing lacking the constructor only / all
        \* three entry points
        CtorSets == {<<{}, {}, x>> : x \in X} \cup {<<x, x, x>> : x \in X}
        \* every set of modules without post-init, each once with the same and once with the
        \* complementary set of modules without destructor (so every module also has each of the
        \* four variants in every case), all with constructors
        Paired == {<<x, x, {}>> : x \in L} \cup {<<x, Have \ x, {}>> : x \in L}
        Full == {<<{}, {}, {}>>}
    IN CASE Profiles = "full" -> Full
         [] Profiles = "all"  -> AnyP
         [] Profiles = "good" -> IF Good(c) THEN AnyP ELSE Full
         [] Profiles = "goodsplit" -> IF Good(c) THEN (L \X L \X {{}}) \cup CtorSets ELSE Full
         [] Profiles = "goodpaired" -> IF Good(c) THEN Paired \cup CtorSets ELSE Full

Init ==
    IF Source = "file"
    THEN \E k \in 1..Len(FileCases) : InitCase(FileCase(FileCases[k]))
    ELSE \E n \in 1..MaxN :
         \E d \in DepGraphs(n) :
         \E a \in AntiGraphs(n, d) :
         \E l \in Listings(n) :
         \E x \in MissingChoices(n, d, a) :
            LET c == [n |-> n, deps |-> d, anti |-> a, backend |-> {}, list |-> l, missing |-> x]
            IN /\ AllPulledIn(c)
               /\ \E p \in ProfileChoices(c) :
                     InitCase([n |-> n, deps |-> d, anti |-> a, backend |-> {}, list |-> l, missing |-> x,
                               nopost |-> p[1], nodtor |-> p[2], noctor |-> p[3]])

(* ------------------------------ helpers ------------------------------ *)

Top(s)        == s[Len(s)]
Pop(s)        == SubSeq(s, 1, Len(s) - 1)
SetTop(s, f)  == [s EXCEPT ![Len(s)] = f]
First(S)      == IF S = {} THEN 0 ELSE CHOOSE y \in S : \A z \in S : y <= z
SetFirst      == First(mods)                                 \* set_first(&modules)
SetNextIn(S, m) == First({y \in S : y > m})                  \* set_next(node), names in order
RemoveAll(s, x) == SelectSeq(s, LAMBDA y : y # x)            \* const_string_vector_remove
Emit(e, m)    == Append(log, Ev(e, m))

\* what the constructor of m declares, in call order
Calls(m) == [i \in 1..Len(cs.deps[m]) |-> [k |-> "dep", t |-> cs.deps[m][i]]]
            \o [i \in 1..Len(cs.anti[m]) |-> [k |-> "anti", t |-> cs.anti[m][i]]]
            \o (IF m \in cs.backend THEN <<[k |-> "backend", t |-> 0]>> ELSE <<>>)

\* log_message(LOG_FATAL, ...): _exit(1), no exit handlers, no destructors
FatalButIi ==
    /\ phase' = "exited" /\ status' = 1
    /\ UNCHANGED <<cs, mods, depends, rdepends, handle, visited, backend, lstack, loading, visit, node,
                   dstack, closing, log>>
Fatal == FatalButIi /\ UNCHANGED ii

\* exit(code): atexit -> call_exit_funcs() -> module_close_all(), first call
Exit(code, newlog) ==
    /\ phase' = "close" /\ status' = code /\ log' = newlog
    /\ closing' = [call |-> 1, part |-> "rounds", progress |-> FALSE]
    /\ node' = SetFirst

(* ------------------------------ module_load ------------------------------ *)

\* module_load(m) for a module that is not in the set: module_get, dlopen, enter the constructor
\* if there is one.
\* (LoadList and Ctor test "already exists" before they come here, as the C code does twice.)
ModuleLoad(m) ==
    IF m \in cs.missing
    THEN FatalButIi                                        \* "Unable to load module"; ii is the caller's
    ELSE /\ mods' = mods \cup {m}                          \* module_get(): fresh zeroed entry
         /\ handle' = [handle EXCEPT ![m] = TRUE]
         /\ IF m \in cs.noctor
            THEN \* prior = loading_module; loading_module = mod; dlsym(handle, "module_constructor")
                 \* is NULL: nothing is called; loading_module = prior; return mod -- one step
                 /\ loading' = IF Bug = "NoCtorNoRestore" THEN m ELSE loading
                 /\ UNCHANGED <<lstack, log>>
            ELSE \* prior = loading_module; loading_module = mod; func(name) is entered
                 /\ lstack' = Append(lstack, [m |-> m, k |-> 1, prior |-> loading])
                 /\ loading' = m
                 /\ log' = Emit("ctor-begin", m)
         /\ UNCHANGED <<cs, phase, depends, rdepends, visited, backend, visit, node, dstack, closing, status>>

\* module_load_list(): for (ii = 0; ii < list->used; ++ii) module_load(list->vec[ii])
LoadList ==
    /\ phase = "load" /\ lstack = <<>>
    /\ IF ii > Len(cs.list)
       THEN /\ phase' = "prepass"
            /\ UNCHANGED <<cs, mods, depends, rdepends, handle, visited, backend, ii, lstack, loading, visit,
                           node, dstack, closing, log, status>>
       ELSE /\ ii' = ii + 1
            /\ IF cs.list[ii] \in mods
               THEN UNCHANGED <<cs, phase, mods, depends, rdepends, handle, visited, backend, lstack, loading,
                                visit, node, dstack, closing, log, status>>
               ELSE ModuleLoad(cs.list[ii])

\* the innermost constructor in progress (that of m): next declaration, or return.  What it declares
\* is recorded for loading_module (= m as long as every module_load() restores it)
Ctor ==
    /\ phase = "load" /\ lstack # <<>>
    /\ LET m == Top(lstack).m
           k == Top(lstack).k
           advance == lstack' = SetTop(lstack, [Top(lstack) EXCEPT !.k = k + 1]) /\ UNCHANGED loading
       IN
       IF k > Len(Calls(m))
       THEN /\ log' = Emit("ctor-end", m)
            /\ lstack' = Pop(lstack)
            /\ loading' = Top(lstack).prior                 \* loading_module = prior
            /\ UNCHANGED <<cs, phase, mods, depends, rdepends, handle, visited, backend, ii, visit,
                           node, dstack, closing, status>>
       ELSE LET call == Calls(m)[k] IN
            CASE call.k = "backend" ->                      \* module_is_backend()
                    /\ backend' = [backend EXCEPT ![loading] = @ + 1]
                    /\ advance
                    /\ UNCHANGED <<cs, phase, mods, depends, rdepends, handle, visited, ii, visit, node,
                                   dstack, closing, log, status>>
              [] call.k # "backend" /\ call.t \notin mods -> \* "If the module is not loaded yet, try to load it."
                    /\ ModuleLoad(call.t) /\ UNCHANGED ii
              [] call.k = "dep" /\ call.t \in mods ->       \* module_depends()
                    /\ depends' = [depends EXCEPT ![loading] = Append(@, call.t)]
                    /\ rdepends' = [rdepends EXCEPT ![call.t] = Append(@, loading)]
                    /\ advance
                    /\ UNCHANGED <<cs, phase, mods, handle, visited, backend, ii, visit, node, dstack,
                                   closing, log, status>>
              [] call.k = "anti" /\ call.t \in mods ->      \* module_antidepends(): the same edge, declared by its target
                    /\ depends' = [depends EXCEPT ![call.t] = Append(@, loading)]
                    /\ rdepends' = IF Bug = "NoAntiMirror" THEN rdepends ELSE [rdepends EXCEPT ![loading] = Append(@, call.t)]
                    /\ advance
                    /\ UNCHANGED <<cs, phase, mods, handle, visited, backend, ii, visit, node,
                                   dstack, closing, log, status>>

(* ------------------------------ module_load_list, second half ------------------------------ *)

\* "Set visit count for previously visited modules (if there were any)."
Prepass ==
    /\ phase = "prepass"
    /\ visited' = [m \in Mods |-> IF m \in mods /\ visited[m] # 0 THEN 1 ELSE visited[m]]
    /\ visit' = IF \E m \in mods : visited[m] # 0 THEN 1 ELSE 0
    /\ node' = SetFirst
    /\ phase' = "walk"
    /\ UNCHANGED <<cs, mods, depends, rdepends, handle, backend, ii, lstack, loading, dstack, closing, log, status>>

\* module_dfs(m, v) called: the entry test.  Gives the new marks and whether a frame is pushed.
DfsEnters(m, v, vis) == IF Bug = "D12" THEN ~(vis[m] # 0 /\ vis[m] < v) ELSE ~(vis[m] > 0)
DfsMark(m, v, vis)   == [vis EXCEPT ![m] = IF Bug = "D12" THEN v ELSE -v]
InProgress(m, v)     == IF Bug = "D12" THEN visited[m] = v ELSE visited[m] = -v

RECURSIVE AppendEach(_, _, _)
\* "Update rdepends list for this module's dependencies."
AppendEach(rd, ds, m) == IF ds = <<>> THEN rd
                         ELSE AppendEach([rd EXCEPT ![Head(ds)] = Append(@, m)], Tail(ds), m)

\* the for loop over the set: skip visited modules, else update rdepends and start a walk
WalkNode ==
    /\ phase = "walk" /\ dstack = <<>>
    /\ IF node = 0
       THEN \* module_load_list() returns 0; main(): signal handlers, event_base_dispatch();
            \* the daemon is running until SIGHUP: break_loop(), return EXIT_SUCCESS
            /\ Exit(0, Emit("running", 0))
            /\ UNCHANGED <<cs, mods, depends, rdepends, handle, visited, backend, ii, lstack, loading, visit, dstack>>
       ELSE IF visited[node] # 0
       THEN /\ node' = SetNextIn(mods, node)
            /\ UNCHANGED <<cs, phase, mods, depends, rdepends, handle, visited, backend, ii, lstack, loading, visit,
                           dstack, closing, log, status>>
       ELSE /\ rdepends' = AppendEach(rdepends, depends[node], node)
            /\ visit' = visit + 1
            /\ visited' = DfsMark(node, visit + 1, visited)        \* entry test passes: visited = 0
            /\ dstack' = <<[m |-> node, i |-> 1]>>
            /\ UNCHANGED <<cs, phase, mods, depends, handle, backend, ii, lstack, loading, node, closing, log, status>>

\* `return res` from the frame on top of dstack (already popped: `rest`), with marks/log as given
DfsReturn(res, rest, vis, lg) ==
    IF rest = <<>>
    THEN \* back in module_load_list
         IF res = 0
         THEN /\ node' = SetNextIn(mods, node) /\ dstack' = rest /\ visited' = vis /\ log' = lg
              /\ UNCHANGED <<cs, phase, mods, depends, rdepends, handle, backend, ii, lstack, loading, visit, closing, status>>
         ELSE \* "if (res) return res;" -> main(): return EXIT_FAILURE -> exit handlers
              /\ Exit(1, lg) /\ dstack' = rest /\ visited' = vis
              /\ UNCHANGED <<cs, mods, depends, rdepends, handle, backend, ii, lstack, loading, visit>>
    ELSE \* back in the caller's for loop
         IF res = -1
         THEN Fatal                                          \* "Module dependency loop: %s -> %s"
         ELSE /\ dstack' = SetTop(rest, [m |-> Top(rest).m, i |-> Top(rest).i + 1])
              /\ visited' = vis /\ log' = lg
              /\ UNCHANGED <<cs, phase, mods, depends, rdepends, handle, backend, ii, lstack, loading, visit, node,
                             closing, status>>

DfsStep ==
    /\ phase = "walk" /\ dstack # <<>>
    /\ LET m == Top(dstack).m
           i == Top(dstack).i
       IN
       IF i <= Len(depends[m])
       THEN LET other == depends[m][i] IN                   \* module_get(): always present here
            IF InProgress(other, visit)
            THEN DfsReturn(-1, Pop(dstack), visited, log)
            ELSE IF DfsEnters(other, visit, visited)
            THEN /\ visited' = DfsMark(other, visit, visited)
                 /\ dstack' = Append(dstack, [m |-> other, i |-> 1])
                 /\ UNCHANGED <<cs, phase, mods, depends, rdepends, handle, backend, ii, lstack, loading, visit, node,
                                closing, log, status>>
            ELSE \* module_dfs(other) returns 0 at once
                 /\ dstack' = SetTop(dstack, [m |-> m, i |-> i + 1])
                 /\ UNCHANGED <<cs, phase, mods, depends, rdepends, handle, visited, backend, ii, lstack, loading, visit,
                                node, closing, log, status>>
       ELSE \* all dependencies done:
            \*   if (module->handle && (func = dlsym(module->handle, "module_post_init"))) func(module);
            \*   module->visited = visit; return 0;
            \* the mark is set whether or not the module has a post-init
            LET found == handle[m] /\ m \notin cs.nopost IN
            DfsReturn(0, Pop(dstack),
                      IF Bug = "D12" \/ (Bug = "NoPostNoMark" /\ ~found) THEN visited
                      ELSE [visited EXCEPT ![m] = visit],
                      IF found THEN Emit("post-init", m) ELSE log)

(* ------------------------------ module_close_all ------------------------------ *)

RECURSIVE CleanupDeps(_, _, _, _)
\* module_cleanup(), the loop over module->depends: st = [mods, rdepends]
CleanupDeps(ms, rd, ds, m) ==
    IF ds = <<>> THEN [mods |-> ms, rdepends |-> rd]
    ELSE LET o == Head(ds) IN
         \* module_get(o) inserts a fresh entry when o is no longer (or not yet again) in the set
         CleanupDeps(ms \cup {o}, [rd EXCEPT ![o] = RemoveAll(@, m)], Tail(ds), m)

\* dlsym(module->handle, "module_destructor"): 0 = NULL, the module has none (func is not called).
\* A NULL handle is RTLD_DEFAULT, which finds the destructor of the first still-open module in
\* dlopen order (= order of the ctor-begin events) that has one.
DtorFound(m) ==
    IF handle[m] THEN (IF m \in cs.nodtor THEN 0 ELSE m)
    ELSE IF Bug = "NoDtorNoUnlink" THEN 0        \* that version asks dlsym only when there is a handle
    ELSE LET open == {i \in 1..Len(log) : /\ log[i].e = "ctor-begin" /\ handle[log[i].m]
                                           /\ log[i].m \notin cs.nodtor}
         IN IF open = {} THEN 0 ELSE log[First(open)].m

\* set_remove(&modules, module, 0): unlink, then module_cleanup(), then free
SetRemove(m) ==
    LET d  == DtorFound(m)
        \* the loop over module->depends runs for every module, with or without a destructor
        st == IF Bug = "NoDtorNoUnlink" /\ d = 0 THEN [mods |-> mods \ {m}, rdepends |-> rdepends]
              ELSE CleanupDeps(mods \ {m}, rdepends, depends[m], m)
    IN /\ mods' = st.mods
       /\ rdepends' = [st.rdepends EXCEPT ![m] = <<>>]     \* freed, or the fresh zeroed entry of the same name
       /\ depends' = [depends EXCEPT ![m] = <<>>]
       /\ handle' = [handle EXCEPT ![m] = FALSE]
       /\ visited' = [visited EXCEPT ![m] = 0]
       /\ backend' = [backend EXCEPT ![m] = 0]
       /\ log' = IF d = 0 THEN log ELSE Emit("dtor", d)

\* do { progress = 0; for (node = set_first(); node; node = next) { next = set_next(node); ... } } while (progress);
CloseRounds ==
    /\ phase = "close" /\ closing.part = "rounds"
    /\ IF node = 0
       THEN /\ closing' = IF closing.progress THEN [closing EXCEPT !.progress = FALSE]
                          ELSE [closing EXCEPT !.part = "left"]
            /\ node' = SetFirst
            /\ UNCHANGED <<cs, phase, mods, depends, rdepends, handle, visited, backend, ii, lstack, loading, visit,
                           dstack, log, status>>
       ELSE LET next == SetNextIn(mods, node) IN
            /\ node' = next
            /\ IF backend[node] > 0 \/ rdepends[node] # <<>>
               THEN UNCHANGED <<cs, phase, mods, depends, rdepends, handle, visited, backend, ii, lstack, loading,
                                visit, dstack, closing, log, status>>
               ELSE /\ SetRemove(node)
                    /\ closing' = [closing EXCEPT !.progress = TRUE]
                    /\ UNCHANGED <<cs, phase, ii, lstack, loading, visit, dstack, status>>

\* "Go through and remove any remaining modules."; then the second call from module_clean(),
\* then assert(set_size(&modules) == 0)
CloseLeftovers ==
    /\ phase = "close" /\ closing.part = "left"
    /\ IF node = 0
       THEN IF closing.call = 1
            THEN /\ closing' = [call |-> 2, part |-> "rounds", progress |-> FALSE]
                 /\ node' = SetFirst
                 /\ UNCHANGED <<cs, phase, mods, depends, rdepends, handle, visited, backend, ii, lstack, loading,
                                visit, dstack, log, status>>
            ELSE /\ phase' = "exited"
                 /\ status' = IF mods = {} THEN status ELSE 134          \* abort() from the assert
                 /\ UNCHANGED <<cs, mods, depends, rdepends, handle, visited, backend, ii, lstack, loading, visit,
                                node, dstack, closing, log>>
       ELSE /\ node' = SetNextIn(mods, node)
            /\ SetRemove(node)
            /\ UNCHANGED <<cs, phase, ii, lstack, loading, visit, dstack, closing, status>>

Done == phase = "exited" /\ UNCHANGED vars

Next == LoadList \/ Ctor \/ Prepass \/ WalkNode \/ DfsStep \/ CloseRounds \/ CloseLeftovers \/ Done

Spec == Init /\ [][Next]_vars

(* ------------------------------ B => A ------------------------------ *)

\* the contract speaks about graphs declared with module_depends() and module_antidepends(); module_is_backend() is
\* outside it
InContract == \A m \in Mods : m \notin cs.backend

AtExit(name) == (phase = "exited" /\ InContract) => Holds(name, cs, log, status)

B_CtorOnce             == AtExit("A_CtorOnce")
B_DepsConstructedFirst == AtExit("A_DepsConstructedFirst")
B_PostInitOnce         == AtExit("A_PostInitOnce")
B_PostInitAfterDeps    == AtExit("A_PostInitAfterDeps")
B_DtorBeforeDeps       == AtExit("A_DtorBeforeDeps")
B_StartsComplete       == AtExit("A_StartsComplete")
B_StopsClean           == AtExit("A_StopsClean")
B_AbortsWithError      == AtExit("A_AbortsWithError")
B_NeverRunsPartial     == AtExit("A_NeverRunsPartial")

\* implementation invariants
TypeOK ==
    /\ phase \in {"load", "prepass", "walk", "close", "exited"}
    /\ mods \subseteq Mods
    /\ \A m \in Mods : Range(depends[m]) \subseteq Mods /\ Range(rdepends[m]) \subseteq Mods
    /\ (status = -1) = (phase \in {"load", "prepass", "walk"})
    /\ loading \in Mods \cup {0}
    /\ lstack # <<>> => loading \in Mods                   \* the asserts in module_depends() etc. never fire
\* loading_module is the module whose constructor is running (NULL outside constructors)
LoadingIsInnermostCtor == loading = IF lstack = <<>> THEN 0 ELSE Top(lstack).m
\* a module's rdepends names exactly the loaded modules whose depends name it (while nothing is torn down)
RdependsMirrorsDepends ==
    (phase \in {"prepass", "walk"} /\ InContract) =>
        \A m \in mods : Range(rdepends[m]) = {x \in mods : m \in Range(depends[x])}
\* the assert in module_clean() never fires
SetEmptyAtExit == phase = "exited" => status # 134
\* in a GOOD case module_cleanup never has to re-create an entry (dependencies outlive dependents)
NoGhostInGoodCase ==
    (phase = "close" /\ InContract /\ Good(cs)) => \A m \in mods : handle[m]

\* module_antidepends() "must be unloaded after it" (README); implied by B_DtorBeforeDeps, stated on its own
AntiUnloadedAfter ==
    (phase = "exited" /\ InContract /\ Good(cs)) =>
        \A p \in Mods : \A q \in Range(cs.anti[p]) :
            \A i \in 1..Len(log) : (log[i] = Ev("dtor", p) /\ HasDtor(cs, q)) => Before(log, "dtor", q, i)

(* ------------------------------ emission of cases + predicted logs ------------------------------ *)

\* one line per finished behaviour: the case and what B says the modules will log
EmitCase ==
    (phase' = "exited" /\ phase # "exited" /\ InContract) =>
        PrintT("@@E" \o ToJson([n |-> cs.n, deps |-> cs.deps, anti |-> cs.anti, list |-> cs.list,
                                 missing |-> SortedSeq(cs.missing), nopost |-> SortedSeq(cs.nopost),
                                 nodtor |-> SortedSeq(cs.nodtor), noctor |-> SortedSeq(cs.noctor),
                                 class |-> Class(cs),
                                 log |-> [i \in 1..Len(log') |-> <<log'[i].e, log'[i].m>>],
                                 status |-> status']))
=============================================================================
