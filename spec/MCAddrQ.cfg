CONSTANTS
  NC = 3
  Bug = {}
INIT Init
NEXT Next
INVARIANTS TypeOK RoundTrip NoLeadColon Fits OwnParser Idempotent PatternOK
