------------------------------- MODULE MCBook -------------------------------
(***************************************************************************)
(* C10, exhaustive part: IAuth.tla (B) x IAuthContract.tla (A) in the      *)
(* bounded environment of MCIAuth.tla, extended with the resource ledger   *)
(* of BookLedger.tla.  The ledger follows the calls the code makes for the *)
(* event and the verdict lines of each step; TLC checks in every reachable *)
(* state that                                                              *)
(*   - the ledger holds exactly the live requests of B (no leak, no double *)
(*     free), with their per-module data and their timers;                 *)
(*   - every timer that can still fire belongs to a request in the table   *)
(*     (so a finished request's timer can never fire);                     *)
(*   - the in-use number (size of the table) is the number of clients the  *)
(*     contract considers live (P10_count is checked on B's own count by   *)
(*     MCIAuth; InUseAgrees ties the ledger's table to both).              *)
(***************************************************************************)
EXTENDS MCIAuth

VARIABLE led

LG == INSTANCE BookLedger

XQueryLoaded == TRUE        \* the exhaustive configurations load iauth_xquery (it allocates one record per client)

BookInit == MCInit /\ led = LG!LedInit

BookNext == /\ MCNext
            /\ led' = LG!LedStep(led, ev', out', TimeoutOn, XQueryLoaded)

\* state identity: the split of the releases into counted (nfree) and uncounted (nrepl) ones is a function of the
\* history only; it is kept out of the state identity (their sum is determined by nalloc and the table)
BookView == <<MCView, [led EXCEPT !.nfree = @ + led.nrepl, !.nrepl = 0]>>

-----------------------------------------------------------------------------
\* ledger = live requests exactly
LedgerExact == /\ LG!LedExact(led)
               /\ DOMAIN led.tab = DOMAIN req
               /\ \A i \in DOMAIN req : led.tab[i] = req[i].serial
LedgerData == LG!LedData(led, XQueryLoaded)
LedgerTimers == LG!LedTimers(led, TimeoutOn)
ArmedOwned == LG!LedArmedOwned(led)
\* B's view of each timer is the ledger's
TimerAgree == \A i \in DOMAIN req :
    LET s == req[i].serial IN
    /\ (req[i].timer = "armed") <=> (s \in led.armed)
    /\ (req[i].timer = "fired") <=> (s \in led.timers \ led.armed)
    /\ (req[i].timer = "none")  <=> (s \notin led.timers)
LedgerCounters == LG!LedCounters(led) /\ led.nalloc = serial
\* reported in use = |table| = |live requests of B| = |clients the contract holds live|
InUseAgrees == /\ LG!InUse(led) = Cardinality(DOMAIN req)
               /\ LG!InUse(led) = Cardinality(DOMAIN cst.cl)
=============================================================================
