\* C20: model mutant on the cases of IOEnv.CASES: module_antidepends() as before the fix (the back-end gets no rdepends entry, so module_close_all() may unload it before its user); TLC must report B_DtorBeforeDeps
SPECIFICATION Spec
CONSTANTS
    Source = "file"
    MaxN = 6
    SelfLoops = TRUE
    DepOrders = "asc"
    WithMissing = TRUE
    WithAnti = FALSE
    Profiles = "full"
    Bug = "NoAntiMirror"
\* (the implementation invariants RdependsMirrorsDepends and NoGhostInGoodCase also fail under this switch, earlier; they are left out so that TLC shows the contract conjunct)
INVARIANTS
    TypeOK LoadingIsInnermostCtor SetEmptyAtExit
    B_CtorOnce B_DepsConstructedFirst B_PostInitOnce B_PostInitAfterDeps B_DtorBeforeDeps
    B_StartsComplete B_StopsClean B_AbortsWithError B_NeverRunsPartial
