\* C20: model mutant on the cases of IOEnv.CASES: module_cleanup() unlinks the module from its dependencies' rdepends only when it found a destructor; TLC must report B_DtorBeforeDeps
SPECIFICATION Spec
CONSTANTS
    Source = "file"
    MaxN = 6
    SelfLoops = TRUE
    DepOrders = "asc"
    WithMissing = TRUE
    WithAnti = FALSE
    Profiles = "full"
    Bug = "NoDtorNoUnlink"
\* (the implementation invariant NoGhostInGoodCase also fails under this switch, earlier; it is left out so that TLC shows the contract conjunct)
INVARIANTS
    TypeOK LoadingIsInnermostCtor RdependsMirrorsDepends SetEmptyAtExit
    B_CtorOnce B_DepsConstructedFirst B_PostInitOnce B_PostInitAfterDeps B_DtorBeforeDeps
    B_StartsComplete B_StopsClean B_AbortsWithError B_NeverRunsPartial
