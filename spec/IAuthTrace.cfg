CONSTANTS
  Services <- TraceServices
  TimeoutOn <- TraceTimeoutOn
  Bug <- TraceBug
INIT TInit
NEXT TNext
