SPECIFICATION TraceSpec
CONSTANTS
    Sections <- TraceNoSections
    PreReg <- TraceNoSections
    DefTarget <- TraceNoDefaults
    Bug <- TraceNoBug
    MaxReloads = 0
    WithEmit = FALSE
INVARIANTS NotStuck Sane_Seq Sane_LoadRc C18_Exactly C18_Attributed C18_Complete B_Written B_Default
