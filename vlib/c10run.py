"""C10 (request bookkeeping balances): pipeline pieces on top of vlib/iauthrun.py and vlib/daemon.py.

   spec/MCBook.tla   (IAuth x IAuthContract x resource ledger, exhaustive)  -> behaviours, one per transition
   spec/BookLong.tla (abstract many-client bookkeeping spec; exhaustive for few ids; TLC -simulate generates
                      long histories, with the hook timeouts or with a clock for real timers)
   -> replay on the real ASan+LSan daemon (statistics line parsed completely, some processes reach end of input
      with requests still in the table), real-timer runs on a wall-clock tick schedule
   -> spec/BookTrace.tla (contract monitor = oracle; implementation-shaped spec and ledger = drift detectors)

The driver renders, schedules, measures time and attributes lines to steps; every judgement is TLC's."""
import json
import multiprocessing
from . import core as _core
import os
import re
import shutil
import signal
import threading
import time
from concurrent.futures import ThreadPoolExecutor

from . import daemon as D
from . import iauthrun as R
from . import tlc as T
from .core import MachineryError

BOOK_INV = ["LedgerExact", "LedgerData", "LedgerTimers", "ArmedOwned", "TimerAgree", "LedgerCounters", "InUseAgrees"]
LONG_INV = BOOK_INV + ["NoReadyLeft", "NoOverdue", "SerialsUnique"]

RELOAD_LOG = "reload.log"
RELOAD_MARK = b"Re-reading config file"
RELOAD_LOGS = [("core.*", "file:" + RELOAD_LOG)]

_STAT = re.compile(rb"S iauth :(\d+)-(\d+) reqs alloc, (\d+) in use; (\d+) data frees")
_CLI = re.compile(rb"S xquery :\d+-\d+ srv alloc, (\d+) clients alloc")


class BookDaemon(D.Daemon):
    """Daemon whose barrier keeps the whole statistics line (allocs, frees, in use, data frees, xquery clients)."""

    last_stats = None

    def raw_step(self, data):
        if self.dead:
            return [], None
        try:
            os.write(self.p.stdin.fileno(), data + b"-1 ? stats2\n")
        except OSError:
            self.dead = True
            return [], None
        lines = []
        st = {}
        inuse = None
        in_stats = False
        while True:
            ln = self._readline(self.step_timeout)
            if ln is None:
                self.dead = True
                return lines, None
            if ln == b"s":
                break
            if ln.startswith(b"S "):
                if not in_stats:
                    in_stats = True
                    m = _STAT.match(ln)
                    if m:
                        st.update(a=int(m.group(1)), f=int(m.group(2)), df=int(m.group(4)))
                        inuse = int(m.group(3))
                else:
                    m = _CLI.match(ln)
                    if m:
                        st["ca"] = int(m.group(1))
                continue
            if in_stats:
                continue
            lines.append(ln)
        self.last_stats = st if len(st) == 4 else None
        return lines, (inuse if inuse is not None else -1)

    def step(self, e, line=None):
        if e.get("e") == "RL":
            return self.reload_step(e)
        rec = D.Daemon.step(self, e, line)
        if rec["e"] == "S" and self.last_stats:
            rec["st"] = self.last_stats
        return rec

    # ---- the operator edits `iauth { timeout }` and reloads (SIGUSR1) while requests are pending ---------------
    def _marks(self):
        try:
            with open(os.path.join(self.workdir, RELOAD_LOG), "rb") as f:
                return f.read().count(RELOAD_MARK)
        except OSError:
            return 0

    def reload_step(self, e, deadline=20.0):
        """Event {"e": "RL", "svcs": <the unchanged service table>, "to": <new timeout text, "" = no timeout line>}: the configuration
        file is rewritten with that timeout only, SIGUSR1, hand-shake on the daemon's log file, barrier.  For the
        specifications this is the contract's RL event with an unchanged service table: nothing may be printed, no
        client is affected, the in-use number stays."""
        lines0, n0 = self.raw_step(b"")         # the signal handler is installed after the banner: the loop must run
        if n0 is None:
            return {"e": "Crash", "ev": e, "partial": [self.parse_line(l) for l in lines0]}
        before = self._marks()
        args = dict(self.conf_args, timeout=(e.get("to") or None))
        with open(self.conf_path, "r+") as f:
            f.write(D.conf_text(self.build.moddir, self.svcs, **args))
            f.truncate()
        self.signal(signal.SIGUSR1)
        t_end = time.time() + deadline
        while self._marks() <= before:
            if self.p.poll() is not None:
                self.dead = True
                return {"e": "Crash", "ev": e, "partial": [self.parse_line(l) for l in lines0]}
            if time.time() > t_end:
                raise MachineryError("reload hand-shake timed out (process alive, no '%s' in %s)"
                                     % (RELOAD_MARK.decode(), RELOAD_LOG))
            time.sleep(0.001)
        lines, n = self.raw_step(b"")
        out = [self.parse_line(l) for l in lines0 + lines]
        if n is None:
            return {"e": "Crash", "ev": e, "partial": out}
        rec = {"e": "S", "ev": e, "o": out, "n": n}
        if self.last_stats:
            rec["st"] = self.last_stats
        return rec


class Slots:
    """Bounds the number of TLC worker threads running at once (the exhaustive runs, generators and validators of one
    check are started from several threads)."""

    def __init__(self, total):
        self.total = total
        self.free = total
        self.cv = threading.Condition()

    def run(self, n, fn, *a, **kw):
        n = min(n, self.total)
        with self.cv:
            while self.free < n:
                self.cv.wait()
            self.free -= n
        try:
            return fn(*a, **kw)
        finally:
            with self.cv:
                self.free += n
                self.cv.notify_all()


SLOTS = Slots(int(os.environ.get("VERIF_C10_SLOTS", "20")))


class _B:
    pass


def _mkbuild(root, moddir, daemonpath):
    b = _B()
    b.root, b.moddir, b.daemon = root, moddir, daemonpath
    return b


def reset_record(svcs, timeout_on, extra=None):
    r = D.reset_record(svcs, timeout_on)
    r["cfg"]["xquery"] = True
    if extra:
        r.update(extra)
    return r


# ---- model runs ---------------------------------------------------------------------------------------
def book_cfg_text(table, **kw):
    t = R.mc_cfg_text(table, **kw)
    if "INIT MCInit\nNEXT MCNext\nVIEW MCView" not in t:
        raise MachineryError("iauthrun.mc_cfg_text no longer has the INIT/NEXT/VIEW block MCBook replaces")
    t = t.replace("INIT MCInit\nNEXT MCNext\nVIEW MCView", "INIT BookInit\nNEXT BookNext\nVIEW BookView")
    return t + "\n".join("INVARIANT " + i for i in BOOK_INV) + "\n"


def book_model_check(ctx, name, table, workers=16, timeout=1500, coverage=False, **kw):
    """Exhaustive TLC run of MCBook (B x A x ledger) with behaviour emission; returns (result, behaviours with outputs)."""
    cfg = os.path.join(ctx.scratch, "book_%s.cfg" % name)
    with open(cfg, "w") as f:
        f.write(book_cfg_text(table, **kw))
    outp = os.path.join(ctx.scratch, "book_%s.out" % name)
    r = SLOTS.run(workers, ctx.tlc, "MCBook", cfg, workers=workers, timeout=timeout, stdout_path=outp, heap="6g",
                  seed=ctx.seed, coverage=coverage)
    if not r.ok:
        raise MachineryError("model MCBook/%s violates %s on the unchanged specification:\n%s"
                             % (name, r.violated, r.violation_text[:3000]))
    beh = []
    with open(outp, errors="replace") as f:
        for line in f:
            if line.startswith('"@@E'):
                beh.append(json.loads(json.loads(line)[3:]))
    os.unlink(outp)
    return r, beh


def long_cfg_text(ids, timeout_on=True, real_time=False, max_serial=0, max_now=0, gen_depth=0, stream=False):
    gen = gen_depth > 0 or stream
    inv = list(LONG_INV) + (["GenEmit"] if gen_depth > 0 else [])
    return ("CONSTANTS\n  Ids = {%s}\n  TimeoutOn = %s\n  RealTime = %s\n  MaxSerial = %d\n  MaxNow = %d\n  GenDepth = %d\n"
            "  Stream = %s\nINIT Init\nNEXT %s\n%s%s\n") % (
        ", ".join(str(i) for i in ids), "TRUE" if timeout_on else "FALSE", "TRUE" if real_time else "FALSE",
        max_serial, max_now, gen_depth, "TRUE" if stream else "FALSE", "GenNext" if gen else "Next",
        "" if gen else "VIEW View\nCONSTRAINT Bounded\n", "\n".join("INVARIANT " + i for i in inv))


def long_model_check(ctx, name, ids, workers=8, timeout=900, **kw):
    cfg = os.path.join(ctx.scratch, "long_%s.cfg" % name)
    with open(cfg, "w") as f:
        f.write(long_cfg_text(ids, **kw))
    r = SLOTS.run(workers, ctx.tlc, "BookLong", cfg, workers=workers, timeout=timeout, heap="5g", capture_printed=False)
    if not r.ok:
        raise MachineryError("model BookLong/%s violates %s on the unchanged specification:\n%s"
                             % (name, r.violated, r.violation_text[:3000]))
    return r


def long_generate(ctx, name, ids, depth, num, real_time=False, timeout_on=True, workers=1, timeout=900, seed=None):
    """TLC -simulate of BookLong!GenNext: `num` histories of `depth` steps (list of lists of {e, pn, pv})."""
    cfg = os.path.join(ctx.scratch, "gen_%s.cfg" % name)
    with open(cfg, "w") as f:
        f.write(long_cfg_text(ids, timeout_on=timeout_on, real_time=real_time, gen_depth=depth))
    outp = os.path.join(ctx.scratch, "gen_%s.out" % name)
    r = SLOTS.run(workers, ctx.tlc, "BookLong", cfg, workers=workers, timeout=timeout, heap="3g", simulate="num=%d" % num,
                  depth=depth + 1, seed=(ctx.seed if seed is None else seed), stdout_path=outp)
    if not r.ok:
        raise MachineryError("generator BookLong/%s violates %s on the unchanged specification:\n%s"
                             % (name, r.violated, r.violation_text[:3000]))
    beh = []
    with open(outp, errors="replace") as f:
        for line in f:
            if line.startswith('"@@E'):
                beh.append(json.loads(json.loads(line)[3:]))
    os.unlink(outp)
    if len(beh) < num:
        raise MachineryError("generator BookLong/%s printed %d of %d histories" % (name, len(beh), num))
    return r, beh[:num]


def long_stream(ctx, name, ids, depth, real_time=False, timeout_on=True, timeout=1500, seed=None):
    """One very long history: BookLong streams one line per step (GenDepth < 0), so no history ghost grows in the state."""
    cfg = os.path.join(ctx.scratch, "gen_%s.cfg" % name)
    with open(cfg, "w") as f:
        f.write(long_cfg_text(ids, timeout_on=timeout_on, real_time=real_time, stream=True))
    outp = os.path.join(ctx.scratch, "gen_%s.out" % name)
    r = SLOTS.run(1, ctx.tlc, "BookLong", cfg, workers=1, timeout=timeout, heap="3g", simulate="num=1", depth=depth + 1,
                  seed=(ctx.seed if seed is None else seed), stdout_path=outp)
    if not r.ok:
        raise MachineryError("generator BookLong/%s violates %s on the unchanged specification:\n%s"
                             % (name, r.violated, r.violation_text[:3000]))
    h = []
    with open(outp, errors="replace") as f:
        for line in f:
            if line.startswith('"@@S'):
                h.append(json.loads(json.loads(line)[3:]))
    os.unlink(outp)
    if len(h) < depth:
        raise MachineryError("generator BookLong/%s streamed %d of %d steps" % (name, len(h), depth))
    return r, [h[:depth]]


# ---- replay with the hook (timeout 1h or none): many behaviours per process ----------------------------
def _hook_worker(args):
    (root, moddir, daemonpath, workdir, svcs, timeout_on, items, trace_path, opts) = args
    b = _mkbuild(root, moddir, daemonpath)
    os.makedirs(workdir, exist_ok=True)
    per_proc = opts.get("per_proc", 50)
    live_every = opts.get("live_every", 1)      # every n-th process reaches EOF with the last behaviour's requests live
    index = []                                  # per trace line: [behaviour index, step index, process number]
    procs = []                                  # per process: behaviour indices replayed in it
    nsteps = ncrash = line_no = 0
    ub = set()
    with open(trace_path, "w") as tf:
        def w(rec, bi, si, pn):
            nonlocal line_no
            tf.write(json.dumps(rec, separators=(",", ":")) + "\n")
            line_no += 1
            index.append([bi, si, pn])
        pos = 0
        while pos < len(items):
            chunk = items[pos:pos + per_proc]
            pn = len(procs)
            procs.append({"bis": [], "live_last": False})
            try:
                os.unlink(os.path.join(workdir, RELOAD_LOG))
            except OSError:
                pass
            d = BookDaemon(b, workdir, svcs, timeout=("1h" if timeout_on else None), modules=("iauth_xquery",),
                           logs=RELOAD_LOGS)
            w(reset_record(svcs, timeout_on), -1, -1, pn)
            serial = 0
            crashed = d.dead
            if crashed:
                w({"e": "Crash", "ev": {"e": "startup"}, "partial": []}, chunk[0][0], -1, pn)
                ncrash += 1
            done = 0
            for off, (bi, events, tail) in enumerate(chunk):
                if crashed:
                    break
                procs[pn]["bis"].append(bi)
                last = off == len(chunk) - 1
                # the last behaviour of (every live_every-th) process is not driven to its end: no probe tail, no
                # withdrawal -> the daemon reaches end of input with that behaviour's requests still in the table
                leave = last and (pn % live_every == 0)
                tm = D.TagMap(serial)
                evs = list(events) + ([] if leave else list(tail) + R._cleanup_events(events))
                procs[pn]["live_last"] = leave
                for si, e in enumerate(evs):
                    e = tm.event(e)
                    pred = e.get("pn")
                    if pred is not None:
                        e = {k: v for k, v in e.items() if k != "pn"}
                    rec = d.step(e)
                    if pred is not None and rec["e"] == "S":
                        rec["pn"] = pred
                    nsteps += 1
                    w(rec, bi, si, pn)
                    if rec["e"] == "Crash":
                        crashed = True
                        ncrash += 1
                        break
                serial += tm.count
                done = off + 1
                if crashed:
                    break
            pos += max(done, 1) if crashed else len(chunk)
            if crashed:
                rc, san, u = d.close(wait=5)
                ub.update(u)
                # the sanitizer text of a crash is kept with the process (the Crash record carries the step)
                procs[pn]["san"] = san[:1500]
                continue
            rc, san, u = d.close()
            ub.update(u)
            w({"e": "Eof", "exit": (rc if rc is not None else -9), "san": san[:1500]}, -1, -1, pn)
    with open(trace_path + ".idx", "w") as f:
        json.dump({"index": index, "procs": procs}, f)
    return {"trace": trace_path, "steps": nsteps, "crashes": ncrash, "ubsan": sorted(ub), "lines": line_no}


def shift_ids(events, k):
    return R.shift_ids(events, k, every=2)


map_ids = R.map_ids


def with_reloads(events, svcs, timeout_on, rng, every):
    """Inserts reloads that change only `iauth { timeout }` (about one per `every` events): to another value and back, to
    none at all and back (adjacent, so that every announcement is made under the original setting), or - with a
    timeout configured, where the hook decides when a timer fires - to another non-zero value that stays."""
    out = []
    orig = "1h" if timeout_on else ""
    cur = orig
    pending_back = False      # the timeout is switched off for a stretch without announcements (timeout configured), or
    #                           on for a stretch with announcements (none configured); switched back at the latest here
    for e in events:
        if pending_back and (e.get("e") == "C" if timeout_on else rng.randrange(12) == 0):
            out.append({"e": "RL", "svcs": svcs, "to": orig})
            cur, pending_back = orig, False
        if not pending_back and not (timeout_on and e.get("e") == "C") and rng.randrange(every * 3) == 0:
            # requests end (and, without a configured timeout, are announced) while the other setting is in force
            cur = "" if timeout_on else "30m"
            out.append({"e": "RL", "svcs": svcs, "to": cur})
            pending_back = True
        elif not pending_back and rng.randrange(every) == 0:
            r = rng.randrange(3)
            seq = ["" if timeout_on else "30m", orig] if r == 0 else ["2h", orig] if r == 1 else \
                (["2h" if cur == "1h" else "1h"] if timeout_on else ["45m", ""])
            for v in seq:
                out.append({"e": "RL", "svcs": svcs, "to": v})
                cur = v
        out.append(e)
    if cur != orig:
        # the daemon process goes on with other histories: they start under the original setting
        out.append({"e": "RL", "svcs": svcs, "to": orig})
    return out


def rt_with_reload(history, svcs, k):
    """Real-timer histories: every third one has, right after its last announcement, a reload that switches the
    timeout off (or to another value).  The requests announced before keep their timers and deadlines (the setting is
    read when a client is announced), so everything after - withdrawals, verdicts, the clock running past the deadlines -
    is judged as before; no client is announced under the new setting."""
    if k % 3 != 1:
        return history
    last = max((i for i, e in enumerate(history) if e.get("e") == "C"), default=None)
    if last is None:
        return history
    rl = {"e": "RL", "svcs": svcs, "to": "" if (k // 3) % 2 == 0 else "7"}
    return history[:last + 1] + [rl] + history[last + 1:]


def hook_replay(ctx, behaviours, svcs, timeout_on=True, nproc=6, tag="h", tails=None, **opts):
    """behaviours: event lists; tails: probe tails (same length) or None.  One trace file per worker."""
    b = ctx.build
    items = [(i, ev, (tails[i] if tails else [])) for i, ev in enumerate(behaviours)]
    nproc = max(1, min(nproc, len(items)))
    jobs = []
    for n in range(nproc):
        wd = os.path.join(ctx.scratch, "%s-w%d" % (tag, n))
        jobs.append((b.root, b.moddir, b.daemon, wd, svcs, timeout_on, items[n::nproc],
                     os.path.join(ctx.scratch, "%s-trace%d.ndjson" % (tag, n)), opts))
    if nproc == 1:
        return [_hook_worker(jobs[0])]
    return _core.pool_map(_hook_worker, jobs, nproc)


# ---- real timers: a history is a list of events and {"e": "Tick", "fire": [ids]} items --------------------
class Timing:
    """Wall-clock schedule: model time k = real window [k*tau, k*tau + w] after the first line; timeout = 2.5 tau."""

    def __init__(self, seconds):
        self.seconds = seconds                 # configured `iauth { timeout <seconds> }`
        self.tau = seconds / 2.5
        # a burst must be sent and acknowledged within this much of its window's start; deadlines fall 0.5 tau after
        # a window's start at the earliest, so 0.2 tau of margin remains on either side
        self.w = 0.3 * self.tau


def _names(m, i, hexid):
    if m.get("k") == "X":
        return m.get("tag", "").startswith(hexid + "_")
    return m.get("id") == i


def rt_run(build, workdir, svcs, timing, history):
    """One timed history on one fresh daemon.  Returns (records, ok, why): ok = False when the wall-clock
    schedule could not be kept (the records are then not evidence of anything)."""
    os.makedirs(workdir, exist_ok=True)
    try:
        os.unlink(os.path.join(workdir, RELOAD_LOG))
    except OSError:
        pass
    d = BookDaemon(build, workdir, svcs, timeout=str(timing.seconds), modules=("iauth_xquery",), logs=RELOAD_LOGS)
    recs = [reset_record(svcs, True, {"rt": timing.seconds})]
    if d.dead:
        recs.append({"e": "Crash", "ev": {"e": "startup"}, "partial": []})
        d.close(wait=5)
        return recs, True, ""
    t0 = None
    k = 0
    ok, why = True, ""
    crashed = False
    first = 1

    def window_check(t_send, t_ack):
        nonlocal ok, why
        if t0 is None:
            return
        lo = t0 + k * timing.tau
        if t_send < lo - 0.002 or t_ack > lo + timing.w:
            ok = False
            why = "step of model time %d sent %+.3f acked %+.3f outside its window of %.3f s" % (
                k, t_send - lo, t_ack - lo, timing.w)

    cur = 0
    for it, item in enumerate(history):
        for r in recs[first:]:
            r.setdefault("it", it - 1)
        first = len(recs)
        cur = it
        if item["e"] == "Tick":
            k += 1
            if t0 is None:
                t0 = time.monotonic() - k * timing.tau
            delay = t0 + k * timing.tau - time.monotonic()
            if delay > 0:
                time.sleep(delay)
            ts = time.monotonic()
            # two barriers: libevent runs the read handler of the first one before the handlers of timers that
            # became due in the same loop iteration; after the second one every due timer has run
            lines1, n1 = d.raw_step(b"")
            lines, n = (d.raw_step(b"") if n1 is not None else ([], None))
            ta = time.monotonic()
            lines = lines1 + lines
            out = [d.parse_line(x) for x in lines]
            if n is None:
                recs.append({"e": "Crash", "ev": {"e": "Tick", "fire": item["fire"]}, "partial": out})
                crashed = True
                break
            window_check(ts, ta)
            rest = out
            for i in item["fire"]:
                mine = [m for m in rest if _names(m, i, "%x" % i)]
                rest = [m for m in rest if not _names(m, i, "%x" % i)]
                recs.append({"e": "S", "ev": {"e": "TO", "id": i, "rt": 1}, "o": mine, "n": -1})
            w = {"e": "W", "o": rest, "n": n, "k": k}
            if d.last_stats:
                w["st"] = d.last_stats
            if "pn" in item:
                w["pn"] = item["pn"]
            recs.append(w)
        else:
            if t0 is None:
                t0 = time.monotonic()
            pred = item.get("pn")
            if pred is not None:
                item = {x: y for x, y in item.items() if x != "pn"}
            ts = time.monotonic()
            rec = d.step(item)
            ta = time.monotonic()
            if pred is not None and rec["e"] == "S":
                rec["pn"] = pred
            recs.append(rec)
            if rec["e"] == "Crash":
                crashed = True
                break
            window_check(ts, ta)
        if not ok:
            break
    for r in recs[first:]:
        r.setdefault("it", cur)
    if crashed or not ok:
        rc, san, ub = d.close(wait=5)
        if crashed:
            recs[-1]["san"] = san[:1500]
        return recs, ok, why
    rc, san, ub = d.close()
    recs.append({"e": "Eof", "exit": (rc if rc is not None else -9), "san": san[:1500]})
    return recs, ok, why


def to_timed(steps, wait_out=True, cleanup=True, late_replace=False, probe_hurry=False):
    """Single-client behaviour of MCBook (list of {e, o, n}: event, predicted output) -> timed history.
    A re-announcement of a live client is preceded by one tick, or with late_replace by two (the replacement then
    happens half a tick before the old instance's deadline), so the two instances have different deadlines;
    TO = ticks up to the current instance's deadline; at the end (optionally) the client is withdrawn and the clock
    runs past every deadline ever set, so that the timer of every finished request had its chance to fire.
    probe_hurry: a client still pending at the end is hurried (data complete, so its queries go out and only they or the
    timer stand between it and the verdict) before the clock runs on: a timer firing for it at the wrong moment, e.g. at
    the deadline of the instance it replaced, then shows as an acceptance in a tick in which nothing is due."""
    out = []
    k = 0
    live = False
    armed = False
    ann = None
    last_ann = None
    cid = None
    for s in steps:
        e = s["e"]
        kind = e["e"]
        if "id" in e:
            if cid is None:
                cid = e["id"]
            elif e["id"] != cid:
                raise ValueError("to_timed: single-client behaviours only")
        if kind == "TO":
            if not (live and armed):
                continue
            while k < ann + 3:
                k += 1
                out.append({"e": "Tick", "fire": [cid] if k == ann + 3 else []})
            armed = False
        else:
            if kind == "C":
                if live:
                    pause = 2 if (late_replace and armed and k == ann) else 1
                    if not armed or k + pause < ann + 3:
                        for _ in range(pause):
                            k += 1
                            out.append({"e": "Tick", "fire": []})
                live, armed, ann, last_ann = True, True, k, k
            elif kind in ("D", "T"):
                if e.get("id") == cid:
                    live = False
            out.append(e)
        for m in s.get("o", []):
            if m.get("k") in ("D", "R", "k") and m.get("id") == cid:
                live = False
    if cleanup and cid is not None:
        out.append({"e": "D", "id": cid})
        live = False
    elif probe_hurry and live:
        out.append({"e": "H", "id": cid})       # may be accepted right away or stay pending: both are fine below
    if wait_out and last_ann is not None:
        while k < last_ann + 3:
            k += 1
            out.append({"e": "Tick", "fire": [cid] if (live and armed and k == ann + 3) else []})
            if live and armed and k == ann + 3:
                armed = False
    return out


def long_to_timed(steps, wait_out=True):
    """History of BookLong with RealTime = TRUE (its Tick events carry their fire lists) -> timed history.  With
    wait_out every client is withdrawn at the end and the clock runs three more ticks: no timer is left that may fire."""
    out = []
    ids = []
    for s in steps:
        e = dict(s["e"])
        if "pn" in s:
            e["pn"] = s["pn"]
        if e["e"] == "C" and e["id"] not in ids:
            ids.append(e["id"])
        out.append(e)
    if wait_out:
        out += [{"e": "D", "id": i} for i in ids]
        out += [{"e": "Tick", "fire": []} for _ in range(3)]
    return out


def rt_replay(ctx, histories, svcs, timing, tag="rt", nthreads=64, retries=2):
    """Run timed histories concurrently (one daemon each, mostly asleep); a history whose schedule could not be kept is
    retried; returns (trace path, lines, index [hi, si], stats)."""
    b = ctx.build
    results = [None] * len(histories)
    late = [0]
    lock = threading.Lock()

    def one(hi):
        for attempt in range(retries + 1):
            wd = os.path.join(ctx.scratch, "%s-%d-%d" % (tag, hi, attempt))
            recs, ok, why = rt_run(b, wd, svcs, timing, histories[hi])
            shutil.rmtree(wd, ignore_errors=True)
            if ok:
                results[hi] = recs
                return
            with lock:
                late[0] += 1
        results[hi] = None

    with ThreadPoolExecutor(max(1, min(nthreads, len(histories)))) as ex:
        list(ex.map(one, range(len(histories))))
    out = {"trace": os.path.join(ctx.scratch, "%s-trace.ndjson" % tag), "late_attempts": late[0], "records": results}
    rt_rewrite(out)
    return out


def rt_rewrite(out):
    """(Re)write the trace file of a real-timer run from out["records"] (None = schedule not kept, left out)."""
    index = []
    n = 0
    with open(out["trace"], "w") as f:
        for hi, recs in enumerate(out["records"]):
            if recs is None:
                continue
            for si, r in enumerate(recs):
                f.write(json.dumps(r, separators=(",", ":")) + "\n")
                index.append([hi, si])
                n += 1
    out["lines"] = n
    out["index"] = index
    out["inconclusive"] = [hi for hi, r in enumerate(out["records"]) if r is None]


# ---- validation ---------------------------------------------------------------------------------------------
def validate(ctx, trace_path, nlines, timeout=1200, heap="3g"):
    """TLC BookTrace on one trace file; returns (violations, drifts of B, of the ledger, of the generator spec)."""
    r = SLOTS.run(1, ctx.tlc, "BookTrace", "BookTrace.cfg", workers=1, timeout=timeout, env={"TRACE": trace_path}, heap=heap)
    if not r.ok:
        raise MachineryError("trace validation run failed (%s):\n%s" % (r.violated, r.violation_text[:3000]))
    if r.depth != nlines + 1 and r.distinct != nlines + 1:
        raise MachineryError("trace %s not consumed: %d lines, TLC depth %d, %d states\n%s"
                             % (trace_path, nlines, r.depth, r.distinct, r.output[-2000:]))
    v, dr, ld, gd = [], [], [], []
    for line in r.printed:
        s = T.unquote_printed(line)
        if s.startswith("@@V"):
            v.append(json.loads(s[3:]))
        elif s.startswith("@@D"):
            dr.append(json.loads(s[3:]))
        elif s.startswith("@@L"):
            ld.append(json.loads(s[3:]))
        elif s.startswith("@@G"):
            gd.append(json.loads(s[3:]))
    return v, dr, ld, gd


def validate_many(ctx, results, nthreads=6):
    """results: [{"trace", "lines"}]; returns per result (violations, B drifts, ledger drifts, generator drifts)."""
    with ThreadPoolExecutor(max(1, nthreads)) as ex:
        return list(ex.map(lambda res: validate(ctx, res["trace"], res["lines"]), results))


def trace_line(path, l):
    return R.trace_line(path, l)


# ---- helpers for reports ------------------------------------------------------------------------------------
def san_kind(text):
    m = re.search(r"ERROR: (AddressSanitizer|LeakSanitizer): ([a-z\-A-Z ]+)", text or "")
    if not m:
        return ""
    what = m.group(2).strip().split(" on ")[0].strip()
    fn = re.findall(r"#\d+ 0x[0-9a-f]+ in (\w+)", text)
    own = [f for f in fn if not f.startswith(("__", "malloc", "calloc", "realloc", "free", "xmalloc", "xfree", "operator"))]
    return "%s %s%s" % (m.group(1), what, (" in " + own[0]) if own else "")


# ---- shrinking and reporting ----------------------------------------------------------------------------------
_TAGX = re.compile(r"^([0-9a-f]+)_([0-9a-f]+)$")


def concretise(events, keep):
    """Sub-history `keep` (sorted indices into events) with the routing tags renumbered to the serials the kept
    announcements get; a reply addressed to an announcement that was dropped is dropped too."""
    ordinal = {}
    n = 0
    for i, e in enumerate(events):
        if e["e"] == "C":
            n += 1
            ordinal[i] = n
    total = n
    newser = {}
    k = 0
    out = []
    for i in keep:
        e = events[i]
        if e["e"] == "C":
            k += 1
            newser[ordinal[i]] = k
        elif e["e"] == "X":
            m = _TAGX.match(e.get("tag", ""))
            if m:
                o = int(m.group(2), 16)
                if o in newser:
                    e = dict(e, tag="%s_%x" % (m.group(1), newser[o]))
                elif 1 <= o <= total:
                    continue
        out.append(e)
    return out


def batch_eval(ctx, candidates, svcs, timeout_on, leave_live, tag="shrink"):
    """Each candidate history on its own fresh daemon, all validated by one TLC run.
    Returns per candidate the set of violated conjuncts (step level and end of input together)."""
    if not candidates:
        return []
    sub = os.path.join(ctx.scratch, "%s-%d" % (tag, int(time.time() * 1e6) % 10**9))
    items = [(i, ev, []) for i, ev in enumerate(candidates)]
    res = _hook_worker((ctx.build.root, ctx.build.moddir, ctx.build.daemon, sub, svcs, timeout_on, items,
                        os.path.join(sub, "t.ndjson"), {"per_proc": 1, "live_every": 1 if leave_live else 10**9}))
    v, dr, ld, gd = validate(ctx, res["trace"], res["lines"])
    with open(res["trace"] + ".idx") as f:
        meta = json.load(f)
    out = [set() for _ in candidates]
    for x in v:
        bi, si, pn = meta["index"][x["l"] - 1]
        ci = bi if bi >= 0 else meta["procs"][pn]["bis"][0]
        out[ci] |= set(x["v"])
    shutil.rmtree(sub, ignore_errors=True)
    return out


def shrink(ctx, events, target, svcs, timeout_on, leave_live, budget=5):
    """Greedy reduction of a failing history: shortest failing prefix, then removal of blocks of events.
    `target`: set of conjuncts; a candidate fails when it violates one of them.  Returns the reduced event list
    (always one that was observed to fail, or the input)."""
    n = len(events)
    if n <= 1:
        return events
    best = list(range(n))
    # prefixes (geometric grid for long histories, every length for short ones)
    lens = sorted(set(range(1, n)) if n <= 48 else set([max(1, int(n * (0.75 ** j))) for j in range(1, 40)]) - {n})
    cands = [concretise(events, list(range(m))) for m in lens]
    outs = batch_eval(ctx, cands, svcs, timeout_on, leave_live)
    for m, o in zip(lens, outs):
        if o & target:
            best = list(range(m))
            break
    rounds = 0
    nblocks = 12
    while rounds < budget and len(best) > 2:
        rounds += 1
        size = max(1, len(best) // nblocks)
        blocks = [best[i:i + size] for i in range(0, len(best), size)]
        cands = []
        for b in blocks:
            bs = set(b)
            cands.append(concretise(events, [i for i in best if i not in bs]))
        outs = batch_eval(ctx, cands, svcs, timeout_on, leave_live)
        removable = [b for b, o in zip(blocks, outs) if o & target]
        if not removable:
            if size == 1:
                break
            nblocks = min(len(best), nblocks * 2)
            continue
        # try to drop all individually removable blocks at once, else only the first
        allrm = set(i for b in removable for i in b)
        joint = [i for i in best if i not in allrm]
        if len(removable) > 1 and joint:
            o = batch_eval(ctx, [concretise(events, joint)], svcs, timeout_on, leave_live)[0]
            if o & target:
                best = joint
                continue
        first = set(removable[0])
        best = [i for i in best if i not in first]
    return concretise(events, best)


def ev_sig(events):
    """Short form of a (possibly timed) history for signatures."""
    parts = []
    for e in events:
        if e["e"] == "Tick":
            parts.append("Tick[%s]" % ",".join(str(i) for i in e.get("fire", [])))
        else:
            parts.append(("%d:" % e["id"] if "id" in e else "") + R.ev_short(e))
    return " ".join(parts)


class Reporter:
    """Turns validation findings into DRIFT / VIOLATION reports under the verdict rules: a violation is reported only
    for this check's own conjuncts and only after the history failed again on a fresh daemon."""

    def __init__(self, ctx, own_hook, own_rt, max_reports=6):
        self.ctx = ctx
        self.own_hook = set(own_hook) | {"crash", "exit", "sanitizer"}
        self.own_rt = set(own_rt) | {"crash", "exit", "sanitizer"}
        self.max_reports = max_reports
        self.nreports = 0
        self.seen = set()
        self.classes = {}           # (conjuncts, sanitizer kind, where) -> number of reports: the same defect shows on
        self.per_class = 2          # hundreds of histories; each report costs re-runs and a reduction
        self.other = {}
        self.ndrift = {"D": 0, "L": 0, "G": 0}

    # -- drift ---------------------------------------------------------------------------------------------
    def drift(self, kind, what, detail):
        if (kind, what) in self.seen:
            return
        self.seen.add((kind, what))
        self.ndrift[kind] += 1
        if self.ndrift[kind] <= 3:
            self.ctx.drift(what, detail)

    def drifts(self, source, res, dr, ld, gd, describe):
        for kind, lst, text in (("D", dr, "implementation-shaped spec IAuth.tla predicted a different step output / in-use number"),
                                ("L", ld, "resource ledger (BookLedger.tla) and the daemon's statistics counters differ"),
                                ("G", gd, "abstract bookkeeping spec BookLong.tla predicted a different in-use number")):
            for x in lst:
                got = trace_line(res["trace"], x["l"])
                self.drift(kind, "%s [%s] at %s" % (text, source, describe(x["l"])),
                           {"observed": {k: got.get(k) for k in ("ev", "o", "n", "st", "pn")} if got else None,
                            "predicted": x.get("want"), "predicted_inuse": x.get("wantn")})

    def _class_full(self, mine, kind, where):
        k = (tuple(sorted(mine)), kind, where)
        return self.classes.get(k, 0) >= self.per_class

    def _class_count(self, mine, kind, where):
        k = (tuple(sorted(mine)), kind, where)
        self.classes[k] = self.classes.get(k, 0) + 1

    def note_other(self, conj):
        for c in conj:
            self.other[c] = self.other.get(c, 0) + 1

    def finish(self):
        for c, n in self.other.items():
            self.ctx.note("conjunct %s (owned by another check) failed on %d steps of this run" % (c, n))
        for k, n in self.ndrift.items():
            if n > 3:
                self.ctx.note("%d further drift reports of kind %s suppressed" % (n - 3, k))

    # -- hook-mode traces -------------------------------------------------------------------------------------
    def hook(self, source, res, vals, behaviours, tails, svcs, timeout_on, table=None):
        v, dr, ld, gd = vals
        with open(res["trace"] + ".idx") as f:
            meta = json.load(f)
        index, procs = meta["index"], meta["procs"]

        def describe(l):
            bi, si, pn = index[l - 1]
            return "step %d of [%s]" % (si, ev_sig((behaviours[bi] + (tails[bi] if tails else []))[:si + 1])[-400:]) if bi >= 0 else "process %d" % pn
        self.drifts(source, res, dr, ld, gd, describe)
        for x in v:
            bi, si, pn = index[x["l"] - 1]
            conj = set(x["v"])
            mine = conj & self.own_hook
            self.note_other(conj - mine)
            if not mine or self.nreports >= self.max_reports:
                continue
            rec = trace_line(res["trace"], x["l"])
            if rec["e"] == "Eof":
                if self._class_full(mine, san_kind(rec.get("san")), "eof"):
                    continue
                self._hook_eof(source, rec, mine, procs[pn], behaviours, tails, svcs, timeout_on, table)
            else:
                if self._class_full(mine, san_kind(procs[pn].get("san", "")) if rec["e"] == "Crash" else "", "step"):
                    continue
                full = behaviours[bi] + ([] if (procs[pn]["live_last"] and procs[pn]["bis"][-1] == bi) else
                                         (tails[bi] if tails else []) + R._cleanup_events(behaviours[bi]))
                upto = full[:si + 1] if si >= 0 else full
                san = procs[pn].get("san", "") if rec["e"] == "Crash" else ""
                self._hook_step(source, upto, mine, rec, san, svcs, timeout_on, table)

    def _again(self, events, target, svcs, timeout_on, leave_live):
        o = batch_eval(self.ctx, [events], svcs, timeout_on, leave_live, tag="again")[0]
        return o & target

    def _hook_step(self, source, upto, mine, rec, san, svcs, timeout_on, table):
        ctx = self.ctx
        key = (tuple(sorted(mine)), ev_sig(upto)[-300:])
        if key in self.seen:
            return
        self.seen.add(key)
        # from here on the history is self-contained: nothing is appended to it (no implicit withdrawal)
        still = self._again(upto, mine, svcs, timeout_on, True)
        self._class_count(mine, san_kind(san), "step")      # every investigation counts
        if not still:
            ctx.note("violation of %s did not repeat on a fresh daemon: [%s] (not reported)" % (sorted(mine), ev_sig(upto)[-300:]))
            return
        small = shrink(ctx, upto, still, svcs, timeout_on, True)
        conj = "+".join(sorted(still))
        kind = san_kind(san)
        sig = "%s%s: %s" % (conj, (" (" + kind + ")") if kind else "", ev_sig(small))
        self.nreports += 1
        ctx.violation("contract conjunct(s) %s violated by the real daemon on history [%s] (%s; reduced from %d events)"
                      % (sorted(still), ev_sig(small), source, len(upto)), conj, sig,
                      {"kind": "c10-hook", "table": table, "svcs": svcs, "timeout_on": timeout_on, "events": small,
                       "leave_live": True, "observed": rec, "sanitizer": san[:1500]})

    def _hook_eof(self, source, rec, mine, proc, behaviours, tails, svcs, timeout_on, table):
        """End of input was not clean for one process: find a behaviour of that process that fails on its own.  All
        candidate histories are self-contained (the withdrawals the replay appends are written out; nothing is added)."""
        ctx = self.ctx
        bis = proc["bis"]
        culprit = None
        # 1. the behaviour that was left unfinished at end of input
        if proc["live_last"] and bis:
            ev = behaviours[bis[-1]]
            if self._again(ev, mine, svcs, timeout_on, True):
                culprit = ev
        # 2. each behaviour of the process on its own (driven to its end)
        if culprit is None:
            cands = [behaviours[b] + (tails[b] if tails else []) + R._cleanup_events(behaviours[b]) for b in bis[:48]]
            outs = batch_eval(ctx, cands, svcs, timeout_on, True, tag="eof")
            for c, o in zip(cands, outs):
                if o & mine:
                    if self._again(c, mine, svcs, timeout_on, True):
                        culprit = c
                        break
        if culprit is None:
            self._class_count(mine, san_kind(rec.get("san")), "eof")
            ctx.note("end-of-input finding %s of one process (%d behaviours, %s) did not repeat on fresh daemons (not reported)"
                     % (sorted(mine), len(bis), san_kind(rec.get("san"))))
            return
        small = shrink(ctx, culprit, mine, svcs, timeout_on, True)
        conj = "+".join(sorted(mine))
        kind = san_kind(rec.get("san"))
        self._class_count(mine, kind, "eof")        # every investigation counts, also one that finds a known history
        key = (tuple(sorted(mine)), ev_sig(small)[-300:])
        if key in self.seen:
            return
        self.seen.add(key)
        sig = "%s%s at end of input after: %s" % (conj, (" (" + kind + ")") if kind else "", ev_sig(small))
        self.nreports += 1
        ctx.violation("end of input after history [%s]: exit status %s, sanitizer report: %s (%s)"
                      % (ev_sig(small), rec.get("exit"), kind or "none", source), conj, sig,
                      {"kind": "c10-hook", "table": table, "svcs": svcs, "timeout_on": timeout_on, "events": small,
                       "leave_live": True, "observed": rec, "sanitizer": (rec.get("san") or "")[:1500]})

    # -- real-timer traces --------------------------------------------------------------------------------------
    def rt(self, source, out, vals, histories, svcs, timing):
        ctx = self.ctx
        v, dr, ld, gd = vals
        index = out["index"]
        drifted = {}
        for lst in (dr, ld, gd):
            for x in lst:
                hi, si = index[x["l"] - 1]
                drifted[hi] = min(drifted.get(hi, 10**9), si)

        def describe(l):
            hi, si = index[l - 1]
            return "record %d of timed history [%s]" % (si, ev_sig(histories[hi])[-400:])
        self.drifts(source, out, dr, ld, gd, describe)
        for x in v:
            hi, si = index[x["l"] - 1]
            conj = set(x["v"])
            mine = conj & self.own_rt
            self.note_other(conj - mine)
            if not mine or self.nreports >= self.max_reports:
                continue
            rec = out["records"][hi][si]
            if self._class_full(mine, san_kind(rec.get("san", "")), "rt"):
                continue
            if drifted.get(hi, 10**9) < si and not (mine & {"crash", "exit", "sanitizer"}):
                ctx.note("finding %s after a drift in the same real-timer history: the schedule came from a model that does "
                         "not match the code here (reported as drift only)" % sorted(mine))
                continue
            key = (tuple(sorted(mine)), ev_sig(histories[hi])[-300:])
            if key in self.seen:
                continue
            self.seen.add(key)
            self._class_count(mine, san_kind(rec.get("san", "")), "rt")     # every investigation counts
            # the history up to the item whose record failed (everything when it is the end of input)
            hist = histories[hi] if rec["e"] == "Eof" else histories[hi][:rec.get("it", len(histories[hi])) + 1]
            # must repeat twice on fresh daemons (timing-dependent)
            reps = 0
            for attempt in range(2):
                o2 = rt_replay(ctx, [hist], svcs, timing, tag="rtagain%d" % attempt, nthreads=1)
                if o2["inconclusive"]:
                    break
                v2, _, _, _ = validate(ctx, o2["trace"], o2["lines"])
                if any(set(y["v"]) & mine for y in v2):
                    reps += 1
            if reps < 2:
                ctx.note("real-timer finding %s did not repeat twice on fresh daemons: [%s] (not reported)"
                         % (sorted(mine), ev_sig(hist)[-300:]))
                continue
            conj_s = "+".join(sorted(mine))
            kind = san_kind(rec.get("san", ""))
            sig = "%s%s real timers: %s" % (conj_s, (" (" + kind + ")") if kind else "", ev_sig(hist))
            self.nreports += 1
            ctx.violation("real timers (timeout %d s, tick %.2f s): contract conjunct(s) %s violated at record %d of timed "
                          "history [%s] (%s)" % (timing.seconds, timing.tau, sorted(mine), si, ev_sig(hist), source),
                          conj_s, sig,
                          {"kind": "c10-rt", "svcs": svcs, "seconds": timing.seconds, "history": hist,
                           "failing_record": si, "observed": rec})
