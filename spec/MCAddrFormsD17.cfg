CONSTANTS
  EMIT = FALSE
  NFAM = 18
  Bug = {"D17"}
INIT Init
NEXT Next
INVARIANTS Emit DocSane DenotesNet RejectNotPlain AlgoDoc AlgoPlain
