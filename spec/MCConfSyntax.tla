---------------------------- MODULE MCConfSyntax ----------------------------
(***************************************************************************)
(* Model checking of ConfSyntax: for every tree of the bound and every     *)
(* layout of the chosen set,                                               *)
(*     Meaning(Parse(Render(t, l))) = Meaning(t)                           *)
(* i.e. the documented grammar is unambiguous on the generated renderings  *)
(* and the renderer only produces files the independent reader accepts;    *)
(* plus the typed-value operators against the examples of the test suite.  *)
(* With EMIT = 1 every case is printed as a line  "@@E{json}"  (tree,      *)
(* tape, bytes): these are the inputs replayed on the real parser.         *)
(*                                                                         *)
(* Parameters come from the environment (defaults in brackets):            *)
(*   MODE   cyc: every shape x every cyclic tape of length TAPELEN over    *)
(*               0..TAPEMAX-1                                              *)
(*          rnd: every shape x NTAPES pseudo-random tapes of length 64     *)
(*          big: NBIG pseudo-random larger shapes (<= 3 entries per object,*)
(*               depth <= 2), NTAPES tapes each                            *)
(*   TOTAL  [2]  bound on the number of entries of a shape (cyc, rnd)      *)
(*   NAMES  [2]  number of distinct names in a shape                       *)
(*   ITEMS  [2]  largest list length                                       *)
(*          typed: NBIG cases of typed settings (two files each)            *)
(*   SEED [1], NTAPES [1], TAPELEN [3], TAPEMAX [6], NBIG [100], EMIT [0]  *)
(***************************************************************************)
EXTENDS ConfSyntax, IOUtils, Json

Env(name, default) == IF name \in DOMAIN IOEnv THEN atoi(IOEnv[name]) ELSE default
EnvS(name, default) == IF name \in DOMAIN IOEnv THEN IOEnv[name] ELSE default

Mode    == EnvS("MODE", "cyc")
Total   == Env("TOTAL", 2)
NNames  == Env("NAMES", 2)
MaxIt   == Env("ITEMS", 2)
Seed    == Env("SEED", 1)
NTapes  == Env("NTAPES", 1)
TapeLen == Env("TAPELEN", 3)
TapeMax == Env("TAPEMAX", 6)
NBig    == Env("NBIG", 100)
EmitOn  == Env("EMIT", 0) = 1

VARIABLE c       \* ph = 0: start; ph = 1: block blk of the cases; ph = 2: a case [t |-> tree, l |-> tape, b |-> bytes, r |-> what the reader makes of them]

NBlocks == 64    \* the cases are split into blocks so that TLC's workers share the work

Shapes == ShapeSeqs(Total, 2, 3, 0..(NNames - 1), MaxIt) \ {<<>>}

RECURSIVE ShapeHash(_, _)
ShapeHash(es, h) ==
    IF es = <<>> THEN h
    ELSE LET e == Head(es)
             code == CASE e.k = "s" -> 1 [] e.k = "p" -> 2 [] e.k = "l" -> 3 + e.c [] e.k = "o" -> 9
             h1 == (h * 31 + code * 5 + e.n) % 65537
             h2 == IF e.k = "o" THEN ShapeHash(e.ents, (h1 * 7 + 3) % 65537) ELSE h1
         IN ShapeHash(Tail(es), h2)

Mix(a, b) == ((a % 65537) * 251 + (b % 65537) * 7 + 13) % 65537

CaseT(id, k, t, l, typed) ==
    LET b == Render(t, l) IN [ph |-> 2, blk |-> 0, id |-> id, k |-> k, t |-> t, l |-> l, b |-> b, r |-> ParseBytes(b), typed |-> typed]
Case(t, l) == CaseT(0, 0, t, l, <<>>)

ShapesOf(blk) == { sh \in Shapes : ShapeHash(sh, 17) % NBlocks = blk - 1 }
CasesCyc(blk) ==
    { Case(Fill(sh, tp[1], tp[TapeLen] + 3 * tp[1]), tp) : sh \in ShapesOf(blk), tp \in [1..TapeLen -> 0..(TapeMax - 1)] }
CasesRnd(blk) ==
    { LET x == Mix(Mix(Seed, j), ShapeHash(sh, 17))
      IN Case(Fill(sh, x % 8, x % 16), LcgTape(x, 64)) : sh \in ShapesOf(blk), j \in 1..NTapes }
CasesBig(blk) ==
    { LET x == Mix(Mix(Seed, 7919), j)
          sh == RandShape(LcgTape(x, 48))
      IN Case(Fill(sh, x % 8, (x \div 8) % 16), LcgTape(Mix(x, 1), 64))
        : j \in { jj \in 1..(NBig * NTapes) : jj % NBlocks = blk - 1 } }

(* Typed settings: an object "typed" with the entries b (boolean), i (integer), f (float), iv (interval)
   and vol (volume), as two files per case: k = 0 gives every setting a value of its type, k = 1 gives
   each either another value or a text that is no value of the type (BadPool).                         *)
TypedObj == <<116,121,112,101,100>>                       \* "typed"
TypedName == << <<98>>, <<105>>, <<102>>, <<105,118>>, <<118,111,108>> >>      \* b i f iv vol
TypedComps(r, o) ==      \* r: pseudo-random numbers 0..719; o: offset into r
    LET at(i) == r[o + i]
        yv == at(5) % 61   dv == at(6) % 400   hv == at(7) % 100   mv == at(8) % 100   sv == at(9) % 100
        ibits == at(10) % 32
        iform == at(11) % 3
        iunits == << <<yv,121,1>>, <<dv,100,1>>, <<hv,104,1>>, <<mv,109,1>>, <<sv,115,1>> >>
        ipick == { i \in 1..5 : (ibits \div (2 ^ (i - 1))) % 2 = 1 }
        isel == IF ipick = {} THEN << <<sv,115,1>> >>
                ELSE [i \in 1..Cardinality(ipick) |-> iunits[CHOOSE j \in ipick : Cardinality({jj \in ipick : jj < j}) = i - 1]]
        gv == at(12) % 2   mgv == at(13) % 1024   kv == at(14) % 1024   bv == at(15) % 1000
        up == IF at(16) % 2 = 0 THEN 0 ELSE 32
        vbits == at(17) % 16
        vunits == << <<gv, 71 + up>>, <<mgv, 77 + up>>, <<kv, 75 + up>>, <<bv, IF at(18) % 2 = 0 THEN 0 ELSE 66 + up>> >>
        vpick == { i \in 1..4 : (vbits \div (2 ^ (i - 1))) % 2 = 1 }
        vsel == IF vpick = {} THEN << <<bv, 0>> >>
                ELSE [i \in 1..Cardinality(vpick) |-> vunits[CHOOSE j \in vpick : Cardinality({jj \in vpick : jj < j}) = i - 1]]
        (* a bare number may only come last *)
        vfix == IF \E i \in 1..(Len(vsel) - 1) : vsel[i][2] = 0
                THEN [i \in DOMAIN vsel |-> IF i < Len(vsel) /\ vsel[i][2] = 0 THEN <<vsel[i][1], 66>> ELSE vsel[i]]
                ELSE vsel
    IN << << <<(at(1) % 10) + 1>> >>,
          << <<IF at(2) % 8 = 0 THEN 2147483647 ELSE at(3) * 720 + at(4)>> >>,
          << <<at(3), (at(4) % 5) + 1>> >>,
          IF iform = 0 THEN isel
          ELSE IF iform = 1 THEN << <<yv,121,1>>, <<dv,100,1>>, <<hv,58,2>>, <<mv,58,2>>, <<sv,0,2>> >>
          ELSE << <<hv,104,1>>, <<mv,109,1>>, <<sv,0,1>> >>,
          vfix >>

TypedTree(vals) ==       \* vals[st]: the text of setting st
    << [n |-> TypedObj, k |-> "o", ents |-> [st \in 1..5 |-> [n |-> TypedName[st], k |-> "s", v |-> vals[st]]]] >>

CasesTyped(blk) ==
    UNION { LET x == Mix(Mix(Seed, 104729), j)
                r == LcgTape(x, 48)
                c0 == TypedComps(r, 0)
                c1 == TypedComps(r, 20)
                bad == [st \in 1..5 |-> (r[41] \div (2 ^ (st - 1))) % 2 = 1 \/ r[41] % 32 = 0]
                bi == [st \in 1..5 |-> (r[41 + st] % Len(BadPool[st])) + 1]
                \* every second case: the interval and the volume of the first file are wide values (good = 2: components wc
                \* with digit-sequence counts, see ConfSyntax!WidePool)
                wide == [st \in 1..5 |-> st \in {4, 5} /\ j % 2 = 0]
                wc == [st \in 1..5 |-> IF wide[st] THEN WidePool[st - 3][(r[43 + st] % Len(WidePool[st - 3])) + 1] ELSE <<>>]
                ann0 == [st \in 1..5 |-> IF wide[st]
                                         THEN [p |-> <<TypedObj>>, n |-> TypedName[st], st |-> st, good |-> 2, c |-> <<>>, bi |-> 0, wc |-> wc[st]]
                                         ELSE [p |-> <<TypedObj>>, n |-> TypedName[st], st |-> st, good |-> 1, c |-> c0[st], bi |-> 0, wc |-> <<>>]]
                ann1 == [st \in 1..5 |-> IF bad[st]
                                         THEN [p |-> <<TypedObj>>, n |-> TypedName[st], st |-> st, good |-> 0, c |-> <<>>, bi |-> bi[st], wc |-> <<>>]
                                         ELSE [p |-> <<TypedObj>>, n |-> TypedName[st], st |-> st, good |-> 1, c |-> c1[st], bi |-> 0, wc |-> <<>>]]
                t0 == TypedTree([st \in 1..5 |-> IF wide[st] THEN WideText(wc[st]) ELSE TypedText(st, c0[st])])
                t1 == TypedTree([st \in 1..5 |-> IF bad[st] THEN BadPool[st][bi[st]] ELSE TypedText(st, c1[st])])
            IN { CaseT(j, 0, t0, LcgTape(Mix(x, 1), 64), ann0), CaseT(j, 1, t1, LcgTape(Mix(x, 2), 64), ann1) }
          : j \in { jj \in 1..NBig : jj % NBlocks = blk - 1 } }

(* Long files: NBig files of 33 .. 160 top-level entries (objects of one or two entries, strings, lists; names wrap
   around the pool, so objects of the same name merge and later strings override), each in its own layout or in one style throughout. *)
WideShape(n, x) ==
    [i \in 1..n |->
        LET kind == (x + i * 7) % 5
        IN IF kind \in {0, 1, 2}
           THEN [n |-> i % 8, k |-> "o",
                 ents |-> IF kind = 0 THEN << [n |-> (i \div 8) % 8, k |-> "s"] >>
                          ELSE << [n |-> (i \div 8) % 8, k |-> "s"], [n |-> (i \div 3) % 8, k |-> IF kind = 1 THEN "s" ELSE "p"] >>]
           ELSE IF kind = 3 THEN [n |-> (i + 3) % 8, k |-> "s"]
           ELSE [n |-> (i + 5) % 8, k |-> "l", c |-> i % 4]]
CasesWide(blk) ==
    { LET x == Mix(Mix(Seed, 15485863), j)
          n == <<33, 40, 64, 100, 160>>[(j % 5) + 1]
          \* every second file is written in one style throughout (the same choice at every decision point)
          tape == IF j % 2 = 0 THEN LcgTape(Mix(x, 1), 64) ELSE [i \in 1..4 |-> (j \div 2) % 24]
      IN Case(Fill(WideShape(n, x), x % 8, (x \div 8) % 16), tape)
        : j \in { jj \in 1..NBig : jj % NBlocks = blk - 1 } }

Cases(blk) == CASE Mode = "cyc" -> CasesCyc(blk) [] Mode = "rnd" -> CasesRnd(blk) [] Mode = "big" -> CasesBig(blk)
                [] Mode = "typed" -> CasesTyped(blk) [] Mode = "wide" -> CasesWide(blk)

Marker(ph, blk) == [ph |-> ph, blk |-> blk, id |-> 0, k |-> 0, t |-> <<>>, l |-> <<>>, b |-> <<>>, r |-> <<>>, typed |-> <<>>]
Init == c = Marker(0, 0)
Block == c.ph = 0 /\ \E blk \in 1..NBlocks : c' = Marker(1, blk)
Gen == c.ph = 1 /\ c' \in Cases(c.blk)
Next == Block \/ Gen
Spec == Init /\ [][Next]_c

IsCase == c.ph = 2
TreeOK == IsCase => IsEnts(c.t, 2) /\ c.t # <<>>
BytesOK == IsCase => IsStr(c.b) /\ Len(c.b) > 0
Accepted == IsCase => c.r.ok
RoundTrip == IsCase /\ c.r.ok => Meaning(c.r.ents) = Meaning(c.t)
(* stronger than needed for C16, true of this renderer: the reader recovers the very entry sequence *)
SameEntries == IsCase /\ c.r.ok => c.r.ents = c.t

(* the typed annotations agree with the trees they annotate *)
TypedOK ==
    IsCase => \A x \in DOMAIN c.typed :
        LET ty == c.typed[x]
            key == <<<<FoldStr(TypedObj)>>, FoldStr(ty.n), "s">>
            m == Meaning(c.t)
        IN /\ key \in DOMAIN m
           /\ IF ty.good = 2 THEN m[key] = WideText(ty.wc) /\ InLang(ty.st, m[key]) /\ WideDenote(ty.st, m[key]) = WideValue(ty.st, ty.wc)
                              /\ DLe(WideValue(ty.st, ty.wc), UIntMax)
              ELSE IF ty.good = 1 THEN m[key] = TypedText(ty.st, ty.c) /\ InLang(ty.st, m[key]) /\ Denote(ty.st, m[key]) = TypedValue(ty.st, ty.c)
                              /\ TypedValue(ty.st, ty.c) >= 0
              ELSE m[key] = BadPool[ty.st][ty.bi] /\ ~InLang(ty.st, m[key])

Emit == IsCase /\ EmitOn => PrintT("@@E" \o ToJson([id |-> c.id, k |-> c.k, t |-> c.t, l |-> c.l, b |-> c.b, typed |-> c.typed]))

(* The typed-value operators against the constants of tests/unit-tests.conf and tests/test_config.c *)
TypedExamples ==
    /\ TypedText(4, << <<1,121,1>>, <<2,100,1>>, <<3,58,2>>, <<4,58,2>>, <<5,0,2>> >>)
         = <<49,121,50,100,48,51,58,48,52,58,48,53>>                          \* "1y2d03:04:05"
    /\ TypedValue(4, << <<1,121,1>>, <<2,100,1>>, <<3,58,2>>, <<4,58,2>>, <<5,0,2>> >>) = 31719845
    /\ Denote(4, <<49,121,50,100,48,51,58,48,52,58,48,53>>) = 31719845
    /\ TypedText(4, << <<2,104,1>>, <<3,109,1>>, <<4,115,1>> >>) = <<50,104,51,109,52,115>>   \* "2h3m4s"
    /\ TypedValue(4, << <<2,104,1>>, <<3,109,1>>, <<4,115,1>> >>) = (2 * 60 + 3) * 60 + 4
    /\ Denote(4, <<50,104,51,109,52,115>>) = 7384
    /\ ~InLang(4, <<49,50,51,122>>)                                           \* "123z"
    /\ ~InLang(4, <<49,58,50,58,51,58>>)                                      \* "1:2:3:"
    /\ TypedText(5, << <<1,71>>, <<2,77>>, <<3,75>>, <<4,0>> >>) = <<49,71,50,77,51,75,52>>   \* "1G2M3K4"
    /\ TypedValue(5, << <<1,71>>, <<2,77>>, <<3,75>>, <<4,0>> >>) = 1073741824 + 2 * 1048576 + 3 * 1024 + 4
    /\ Denote(5, <<49,71,50,77,51,75,52>>) = 1075842052
    /\ TypedValue(5, << <<5,66>> >>) = 5 /\ TypedText(5, << <<5,66>> >>) = <<53,66>>          \* "5B"
    /\ TypedValue(2, << <<321>> >>) = 321 /\ TypedText(2, << <<321>> >>) = <<51,50,49>>
    /\ TypedValue(3, << <<8,1>> >>) = 8000 /\ TypedText(3, << <<8,1>> >>) = <<56,46,48>>      \* "8.0"
    /\ Denote(3, <<56,46,48>>) = 8000
    /\ TypedValue(1, << <<7>> >>) = 1 /\ TypedValue(1, << <<2>> >>) = 0                       \* true, false
    /\ ~InLang(1, <<112,105,122,122,97>>)                                     \* "pizza"
    /\ \A st \in 1..5 : \A i \in DOMAIN BadPool[st] : ~InLang(st, BadPool[st][i])
    \* digit arithmetic against TLC's own integers where they suffice, and against known wide values
    /\ \A a \in {0, 7, 99, 1024, 46340} : \A b \in {0, 1, 9, 10, 999, 46340} :
          DAdd(Dec10(a), Dec10(b)) = Dec10(a + b) /\ DMul(Dec10(a), Dec10(b)) = Dec10(a * b)
    /\ DLe(Dec10(9), Dec10(10)) /\ ~DLe(Dec10(10), Dec10(9)) /\ DLe(UIntMax, UIntMax) /\ ~DLe(DAdd(UIntMax, <<49>>), UIntMax)
    /\ WideValue(4, << <<Dec10(136),121>> >>) = <<52,50,56,56,56,57,54,48,48,48>>                 \* 136y = 4288896000
    /\ WideValue(5, << <<Dec10(3),71>> >>) = <<51,50,50,49,50,50,53,52,55,50>>                    \* 3G = 3221225472
    /\ WideValue(5, << <<Dec10(4095),77>> >>) = <<52,50,57,51,57,49,56,55,50,48>>                 \* 4095M = 4293918720
    /\ WideValue(4, WidePool[1][2]) = UIntMax /\ WideValue(4, WidePool[1][4]) = UIntMax /\ WideValue(4, WidePool[1][6]) = UIntMax
    /\ WideValue(5, WidePool[2][3]) = UIntMax /\ WideValue(5, WidePool[2][8]) = UIntMax
    /\ WideValue(4, WidePool[1][11]) = <<50,49,52,55,52,56,51,54,52,56>>                          \* 2^31
    /\ WideValue(5, WidePool[2][10]) = <<50,49,52,55,52,56,51,54,52,56>> /\ WideValue(5, WidePool[2][11]) = <<50,49,52,55,52,56,51,54,52,56>>
    /\ \A k \in 1..2 : \A i \in DOMAIN WidePool[k] :
          /\ InLang(k + 3, WideText(WidePool[k][i]))
          /\ WideDenote(k + 3, WideText(WidePool[k][i])) = WideValue(k + 3, WidePool[k][i])
          /\ DLe(WideValue(k + 3, WidePool[k][i]), UIntMax)

(* a family of typed values: text is in the language and the two evaluations agree *)
TypedFamily ==
    /\ \A w \in DOMAIN BoolWords : InLang(1, TypedText(1, << <<w>> >>)) /\ Denote(1, TypedText(1, << <<w>> >>)) = TypedValue(1, << <<w>> >>)
    /\ \A n \in {0, 1, 9, 10, 321, 65535, 2147483647} : InLang(2, TypedText(2, << <<n>> >>)) /\ Denote(2, TypedText(2, << <<n>> >>)) = n
    /\ \A ip \in {0, 8, 123} : \A f \in DOMAIN FracText :
          InLang(3, TypedText(3, << <<ip, f>> >>)) /\ Denote(3, TypedText(3, << <<ip, f>> >>)) = TypedValue(3, << <<ip, f>> >>)
    /\ \A y \in {0, 1, 60} : \A d \in {0, 2, 400} : \A h \in {0, 3, 25} : \A m \in {0, 4, 61} : \A s \in {0, 5, 99} :
          LET units == << <<y,121,1>>, <<d,100,1>>, <<h,104,1>>, <<m,109,1>>, <<s,115,1>> >>
              colon == << <<y,121,1>>, <<d,100,1>>, <<h,58,2>>, <<m,58,2>>, <<s,0,2>> >>
              bare  == << <<h,104,1>>, <<m,109,1>>, <<s,0,1>> >>
          IN \A cc \in {units, colon, bare} :
                /\ InLang(4, TypedText(4, cc))
                /\ Denote(4, TypedText(4, cc)) = TypedValue(4, cc)
                /\ TypedValue(4, units) = ((((y * 365 + d) * 24 + h) * 60) + m) * 60 + s
    /\ \A g \in {0, 1} : \A m \in {0, 2, 1023} : \A k \in {0, 3, 1023} : \A b \in {0, 4, 999} : \A up \in {0, 32} :
          LET cc == << <<g, 71 + up>>, <<m, 77 + up>>, <<k, 75 + up>>, <<b, 0>> >>
              cb == << <<g, 71 + up>>, <<m, 77 + up>>, <<k, 75 + up>>, <<b, 66 + up>> >>
          IN \A x \in {cc, cb} :
                /\ InLang(5, TypedText(5, x))
                /\ Denote(5, TypedText(5, x)) = TypedValue(5, x)
                /\ TypedValue(5, x) = ((g * 1024 + m) * 1024 + k) * 1024 + b

ASSUME TypedExamples
ASSUME TypedFamily
=============================================================================
