---------------------------- MODULE MCAddrForms ----------------------------
(***************************************************************************)
(* C13 (ii) on the model, and generation of the mask-form texts.            *)
(*                                                                         *)
(* Every MaskForm instance (all families of Addr!FormAt) is rendered; TLC   *)
(* checks that the rendering is consistent with the independent reader      *)
(* (the address part of an accepted form denotes the documented network,    *)
(* rejected forms are not plain addresses) and that the transcribed parser  *)
(* (PtonAlgo) yields the documented (length, bits, network) - or 0 for the  *)
(* documented rejections.  With EMIT = TRUE each leaf prints its text so    *)
(* that the harness parses exactly these strings with the real irc_pton.    *)
(***************************************************************************)
EXTENDS Addr, TLC, Json

CONSTANTS EMIT,      \* print the texts
          NFAM       \* cover the first NFAM families of Addr!Families (2 = the plain addresses only)

VARIABLE c          \* [lo, hi] range of global form indices (16-way split tree)

Offsets == [k \in 1..(Len(Families) + 1) |->
              LET RECURSIVE Sum(_)
                  Sum(j) == IF j = 0 THEN 0 ELSE Sum(j - 1) + FamSize(Families[j])
              IN  Sum(k - 1)]
FormTotal == Offsets[Len(Families) + 1]
FormIdx(G) == LET k == CHOOSE j \in 1..Len(Families) : Offsets[j] <= G /\ G < Offsets[j + 1]
              IN  << Families[k], G - Offsets[k] >>

Init == c = [lo |-> 0, hi |-> Offsets[NFAM + 1] - 1]

Split16 == \E k \in 0..15 :
              LET s  == c.hi - c.lo + 1
                  a  == c.lo + (k * s) \div 16
                  b  == c.lo + ((k + 1) * s) \div 16 - 1
              IN  /\ b >= a
                  /\ c' = [lo |-> a, hi |-> b]

Next == c.hi > c.lo /\ Split16

Leaf == c.lo = c.hi
FI   == FormIdx(c.lo)
F    == FormAt(FI[1], FI[2])
S    == Render(F)
D    == Doc(F)

(* the part of the text before "/n" *)
AddrPart(s) == LET p == {i \in 1..Len(s) : s[i] = Slash}
               IN  IF p = {} THEN s ELSE SubSeq(s, 1, (CHOOSE i \in p : \A j \in p : i <= j) - 1)

Emit == Leaf /\ EMIT => PrintT("@@F" \o ToJson([fam |-> FI[1], i |-> FI[2], s |-> S]))

DocSane == Leaf => /\ D.bits \in 0..128
                   /\ IsAddr(D.net)
                   /\ Len(S) > 0
(* full-address kinds: the text before the mask denotes the documented network *)
DenotesNet == Leaf /\ F.k \in {"p6", "c6", "p4", "c4"} => Denote(AddrPart(S)) = D.net
(* rejected texts are not plain addresses either *)
RejectNotPlain == Leaf /\ ~D.ok => Denote(S) = Bad
(* the transcribed parser gives the documented results (bits given, no trailing text allowed) *)
AlgoDoc == Leaf => LET r == PtonAlgo(S, TRUE, FALSE)
                   IN  /\ ~r.ub
                       /\ IF D.ok THEN r.ret = Len(S) /\ r.bits = D.bits /\ PrefixEq(r.addr, D.net, D.bits)
                          ELSE r.ret = 0
AlgoPlain == Leaf /\ F.k \in {"p6", "p4"} => LET r == PtonAlgo(S, FALSE, FALSE) IN r.ret = Len(S) /\ r.addr = D.net
=============================================================================
