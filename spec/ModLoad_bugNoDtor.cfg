\* C20: model mutant, found by TLC itself among all cases and hook profiles on <= 3 modules: module_cleanup() unlinks the module from its dependencies' rdepends only when it found a destructor; TLC must report B_DtorBeforeDeps
SPECIFICATION Spec
CONSTANTS
    Source = "enum"
    MaxN = 3
    SelfLoops = FALSE
    DepOrders = "asc"
    WithMissing = FALSE
    WithAnti = FALSE
    Profiles = "all"
    Bug = "NoDtorNoUnlink"
\* (the implementation invariant NoGhostInGoodCase also fails under this switch, earlier; it is left out so that TLC shows the contract conjunct)
INVARIANTS
    TypeOK LoadingIsInnermostCtor RdependsMirrorsDepends SetEmptyAtExit
    B_CtorOnce B_DepsConstructedFirst B_PostInitOnce B_PostInitAfterDeps B_DtorBeforeDeps
    B_StartsComplete B_StopsClean B_AbortsWithError B_NeverRunsPartial
