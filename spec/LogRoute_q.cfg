SPECIFICATION Spec
VIEW View
CONSTANTS
    Sections <- QSections
    PreReg <- PreModx
    DefTarget <- NoDefaults
    Bug <- NoBug
    MaxReloads = 3
    SampleK = 1
INVARIANTS TypeOK RoutingIsDeclarative RoutingIsContract EmitWrites RefcountsExact HooksInstalled TreeIsSection SyntaxAgrees
ACTION_CONSTRAINT EmitBehaviour
