\* every (old, new) pair of sections over rule names {a, B2, b}; class present/absent, at most one criterion (account or
\* ident glob), no trust_username: 343 sections, 117 649 pairs
CONSTANTS
  CBug <- Bug_none
  RBug <- RB_none
  Names <- N_3
  AcctP <- Acct_1
  AddrP <- OnlyNone
  UserP <- User_1
  HostP <- OnlyNone
  OkP <- OnlyNone
  ClassP <- Class_1
  TrustP <- OnlyFalse
  MaxRules = 3
  MaxCrit = 1
  Svcs <- S_ld
  MaxRl = 1
  CAcct <- CAcct_2
  CAddr <- CAddr_1
  CIdent <- CIdent_2
  CHost <- CHost_1
  CUser <- CUser_1
  LoginSt <- Login_2
  DroneSt <- Drone_1
INIT XInit
NEXT XNext
INVARIANT VecFresh
INVARIANT TreeFresh
INVARIANT AllHooked
INVARIANT ProbeFresh
