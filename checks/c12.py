"""C12  Address text round-trips for every address.

Spec: spec/Addr.tla (Canon, Denote = independent reader; NtopAlgo / PtonAlgo = transcriptions of
irc_ntop / irc_pton), spec/MCAddr.tla (TLC: for every group-class pattern, IPv4 shape and class
boundary value, Denote(NtopAlgo(a)) = Canon(a), no leading ':', length <= 39, the model parser
reads the text back, printing again is idempotent), spec/MCAddrForms.tla (plain-address texts).
Bind: harness/h_addr.c enumerates the same domains on the real code (plus seeded random
addresses, all short strings over the address alphabet and the TLC-rendered plain-address texts);
TLC validates every trace line against Addr.tla (spec/AddrTrace.tla) and re-computes every case
from its index, so the pattern set in the trace is checked to be the full domain.
"""
import concurrent.futures
import json

from vlib import addrlib, core

LEVEL = "model_checking"
TITLE = "address text round-trips for every address"

OWN = "C12_"


def _model_mutants(ctx):
    """Anti-vacuity on the model: each defect switch must make TLC report the expected invariant."""
    cases = [("MCAddrD5.cfg", "RoundTrip", "D5"), ("MCAddrD16.cfg", "RoundTrip", "D16"), ("MCAddrNZ.cfg", "NoLeadColon", "NOZERO")]

    def one(c):
        return c, ctx.tlc("MCAddr", c[0], workers=2, timeout=300, heap="1g")
    with concurrent.futures.ThreadPoolExecutor(max_workers=3) as ex:
        for (cfg, inv, name), r in ex.map(one, cases):
            if r.violated != inv:
                raise core.MachineryError("model with defect %s re-introduced: expected TLC to report %s, got %r" % (name, inv, r.violated))
    ctx.cov["model_defect_switches_detected"] = [c[2] for c in cases]


def _plain_forms(ctx):
    """TLC renders the plain-address MaskForm instances (families p6, p4); returns 'lines' input for h_addr."""
    r = ctx.tlc("MCAddrForms", "MCAddrFormsEmitPlain.cfg", workers=4, timeout=600, heap="2g")
    if r.violated:
        raise core.MachineryError("MCAddrForms (plain) violated %s on the model:\n%s" % (r.violated, r.violation_text[:1500]))
    ctx.model_checked(r)
    rows = [json.loads(addrlib._tlc.unquote_printed(l)[3:]) for l in r.printed if l.startswith('"@@F')]
    rows.sort(key=lambda d: (addrlib.FAMILIES.index(d["fam"]), d["i"]))
    return ["form %s %d %s" % (d["fam"], d["i"], " ".join(map(str, d["s"]))) for d in rows]


def run(ctx):
    quick = ctx.tier == "quick"
    nc = 4 if quick else 5
    run = addrlib.Runner(ctx, OWN)          # builds the harness from the working tree

    _model_mutants(ctx)
    r = ctx.tlc("MCAddr", "MCAddrQ.cfg" if quick else "MCAddrT.cfg", workers=16, timeout=900, heap="6g", coverage=False)
    if r.violated:
        raise core.MachineryError("MCAddr: invariant %s violated on the model (spec and transcription disagree):\n%s"
                                  % (r.violated, r.violation_text[:2000]))
    ctx.model_checked(r)
    ctx.cov["model_patterns"] = nc ** 8
    forms = _plain_forms(ctx)

    jobs = []
    kpat = 4 if quick else 12
    for k in range(kpat):
        lo, hi = (k * nc ** 8) // kpat, ((k + 1) * nc ** 8) // kpat - 1
        jobs.append(addrlib.Job("pat%d" % k, ["pat", nc, lo, hi], {"DOM": "pat", "NC": nc, "CHUNK": k, "NCHUNK": kpat}))
    nv4 = 6 * (4 if nc <= 3 else 9) ** 4
    kv4 = 2
    for k in range(kv4):
        lo, hi = (k * nv4) // kv4, ((k + 1) * nv4) // kv4 - 1
        jobs.append(addrlib.Job("v4-%d" % k, ["v4", nc, lo, hi], {"DOM": "v4", "NC": nc, "CHUNK": k, "NCHUNK": kv4}))
    jobs.append(addrlib.Job("edge", ["edge"], {"DOM": "edge"}))
    nrnd, krnd = (2000, 1) if quick else (100000, 4)
    for k in range(krnd):
        jobs.append(addrlib.Job("rnd%d" % k, ["rnd", ctx.seed * 1000 + k, nrnd // krnd], {"DOM": "rnd", "COUNT": nrnd // krnd}))
    # idempotence over accepted plain address strings: all short strings, and the rendered plain forms
    maxlen, kstr = (4, 1) if quick else (5, 2)
    alpha = addrlib.ALPHABETS["A10"]
    total = addrlib.str_count(len(alpha), maxlen)
    for k in range(kstr):
        lo, hi = (k * total) // kstr, ((k + 1) * total) // kstr - 1
        jobs.append(addrlib.Job("str%d" % k, ["strs", alpha, maxlen, lo, hi],
                                {"DOM": "str", "ALPHA": "A10", "MAXLEN": maxlen, "CHUNK": k, "NCHUNK": kstr}))
    jobs.append(addrlib.Job("plainforms", ["lines"], {"DOM": "form", "NCHUNK": 0, "CHUNK": 0, "COUNT": len(forms) - 1}, stdin=forms))

    results = run.run_all(jobs, workers=14)
    run.process(results)
    run.check_tiling(results, "pat", nc ** 8)
    run.check_tiling(results, "v4-", nv4)
    run.check_tiling(results, "str", total)
    ctx.cov["exhaustive"] = True
    ctx.cov["rule"] = ("distinct addresses whose printed text uses '::' compression or dotted-quad form, plus distinct "
                       "strings accepted by a parser, among the cases run on the real code")
    ctx.cov["domains"] = {"patterns": nc ** 8, "digit_classes": nc, "ipv4_shapes": nv4, "boundary": 128, "random": nrnd,
                          "strings_up_to_len": maxlen, "plain_forms": len(forms)}
    ctx.assumptions.append("the printer branches only on zero / digit count of each group and on the IPv4 macro, so one "
                           "representative value per digit class and position (plus class boundaries and random values) drives every path")
    ctx.assumptions.append("IPv4-compatible = first 96 bits zero and upper half of the embedded IPv4 address non-zero "
                           "(the irc_inaddr_is_ipv4 macro's notion); ::, ::1 and ::0.0.x.y are plain IPv6 addresses")
    ctx.assumptions.append("standard library parser = inet_pton(AF_INET6) for texts with ':', inet_pton(AF_INET) mapped to ::ffff:a.b.c.d otherwise")
    run.finish()


def replay(ctx, body):
    addrlib.replay_job(ctx, OWN, body)
