"""C01 One verdict per announced client, then silence."""
from vlib import iauthrun as R

LEVEL = "model_checking"
TITLE = "one verdict per announced client, then silence"
OWN = {"P01_once"}


def plans(ctx):
    if ctx.tier == "quick":
        # re-announcement of live ids, D/T after a verdict, replies (stale tags) after a verdict, junk
        return [R.Plan("qr", "S_q1", emit_mod=100, max_inst=2, max_pw=1, stray=1, junk=True)]
    return [R.Plan("qr", "S_q1", emit_mod=12, max_inst=2, max_pw=1, stray=2, junk=True),
            R.Plan("qr3", "S_t1d", emit_mod=20, max_inst=3, max_pw=1, stray=1),
            R.Plan("t1c", "S_t1c", emit_mod=12, max_inst=1, max_pw=2),
            R.Plan("two", "S_t1d", emit_mod=40, ids="Ids2", max_inst=1, max_pw=1),
            R.Plan("sim", "S_t1a", simulate="num=400", depth=60, workers=8, rich=True, ids="Ids2", max_inst=8,
                   max_pw=3, stray=1, junk=True)]


def run(ctx):
    ctx.cov["rule"] = ("behaviours of the exhaustively explored composition B x A (ids re-announced while live, "
                       "disconnect / registered after the verdict, stale-tag replies), sampled 1/emit_mod, replayed on the "
                       "real daemon, every output line attributed to its step; TLC evaluates P01_once on the real trace: "
                       "<=1 verdict and <=1 soft-done per instance, nothing (client line or X line with its tag) names a "
                       "client after its verdict / D / T, verdicts only for live ids; distinct = distinct event sequences")
    ctx.assumptions += ["output is attributed to steps by the `-1 ? stats2` barrier (the daemon is single-threaded and "
                        "flushes every line)"]
    R.standard(ctx, plans(ctx), OWN, need=("accept_D", "accept_R", "kill", "softdone", "replies"))


def replay(ctx, body):
    R.replay_file(ctx, body, OWN)
