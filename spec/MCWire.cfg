CONSTANT NField = 120
INIT Init
NEXT Next
INVARIANT GeneratedAccepted
INVARIANT CorruptedRejected
INVARIANT AddressedRight
