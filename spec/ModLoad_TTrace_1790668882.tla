---- MODULE ModLoad_TTrace_1790668882 ----
EXTENDS Sequences, TLCExt, Toolbox, ModLoad, Naturals, TLC

_expression ==
    LET ModLoad_TEExpression == INSTANCE ModLoad_TEExpression
    IN ModLoad_TEExpression!expression
----

_trace ==
    LET ModLoad_TETrace == INSTANCE ModLoad_TETrace
    IN ModLoad_TETrace!trace
----

_inv ==
    ~(
        TLCGet("level") = Len(_TETrace)
        /\
        phase = ("exited")
        /\
        ii = (2)
        /\
        mods = ({})
        /\
        log = (<<[m |-> 3, e |-> "ctor-begin"], [m |-> 2, e |-> "ctor-begin"], [m |-> 1, e |-> "ctor-begin"], [m |-> 1, e |-> "ctor-end"], [m |-> 2, e |-> "ctor-end"], [m |-> 3, e |-> "ctor-end"], [m |-> 3, e |-> "post-init"], [m |-> 2, e |-> "post-init"], [m |-> 1, e |-> "post-init"], [m |-> 0, e |-> "running"]>>)
        /\
        depends = (<<<<>>, <<>>, <<>>>>)
        /\
        lstack = (<<>>)
        /\
        handle = (<<FALSE, FALSE, FALSE>>)
        /\
        dstack = (<<>>)
        /\
        loading = (0)
        /\
        cs = ([backend |-> {}, n |-> 3, deps |-> <<<<3>>, <<>>, <<>>>>, anti |-> <<<<>>, <<1>>, <<2>>>>, list |-> <<3>>, missing |-> {}, nopost |-> {}, nodtor |-> {1, 2, 3}, noctor |-> {}])
        /\
        node = (0)
        /\
        closing = ([call |-> 2, part |-> "left", progress |-> FALSE])
        /\
        visited = (<<0, 0, 0>>)
        /\
        backend = (<<0, 0, 0>>)
        /\
        visit = (1)
        /\
        rdepends = (<<<<>>, <<>>, <<>>>>)
        /\
        status = (0)
    )
----

_init ==
    /\ phase = _TETrace[1].phase
    /\ node = _TETrace[1].node
    /\ rdepends = _TETrace[1].rdepends
    /\ lstack = _TETrace[1].lstack
    /\ loading = _TETrace[1].loading
    /\ dstack = _TETrace[1].dstack
    /\ log = _TETrace[1].log
    /\ mods = _TETrace[1].mods
    /\ depends = _TETrace[1].depends
    /\ cs = _TETrace[1].cs
    /\ closing = _TETrace[1].closing
    /\ backend = _TETrace[1].backend
    /\ handle = _TETrace[1].handle
    /\ ii = _TETrace[1].ii
    /\ visited = _TETrace[1].visited
    /\ visit = _TETrace[1].visit
    /\ status = _TETrace[1].status
----

_next ==
    /\ \E i,j \in DOMAIN _TETrace:
        /\ \/ /\ j = i + 1
              /\ i = TLCGet("level")
        /\ phase  = _TETrace[i].phase
        /\ phase' = _TETrace[j].phase
        /\ node  = _TETrace[i].node
        /\ node' = _TETrace[j].node
        /\ rdepends  = _TETrace[i].rdepends
        /\ rdepends' = _TETrace[j].rdepends
        /\ lstack  = _TETrace[i].lstack
        /\ lstack' = _TETrace[j].lstack
        /\ loading  = _TETrace[i].loading
        /\ loading' = _TETrace[j].loading
        /\ dstack  = _TETrace[i].dstack
        /\ dstack' = _TETrace[j].dstack
        /\ log  = _TETrace[i].log
        /\ log' = _TETrace[j].log
        /\ mods  = _TETrace[i].mods
        /\ mods' = _TETrace[j].mods
        /\ depends  = _TETrace[i].depends
        /\ depends' = _TETrace[j].depends
        /\ cs  = _TETrace[i].cs
        /\ cs' = _TETrace[j].cs
        /\ closing  = _TETrace[i].closing
        /\ closing' = _TETrace[j].closing
        /\ backend  = _TETrace[i].backend
        /\ backend' = _TETrace[j].backend
        /\ handle  = _TETrace[i].handle
        /\ handle' = _TETrace[j].handle
        /\ ii  = _TETrace[i].ii
        /\ ii' = _TETrace[j].ii
        /\ visited  = _TETrace[i].visited
        /\ visited' = _TETrace[j].visited
        /\ visit  = _TETrace[i].visit
        /\ visit' = _TETrace[j].visit
        /\ status  = _TETrace[i].status
        /\ status' = _TETrace[j].status

\* Uncomment the ASSUME below to write the states of the error trace
\* to the given file in Json format. Note that you can pass any tuple
\* to `JsonSerialize`. For example, a sub-sequence of _TETrace.
    \* ASSUME
    \*     LET J == INSTANCE Json
    \*         IN J!JsonSerialize("ModLoad_TTrace_1790668882.json", _TETrace)

=============================================================================

 Note that you can extract this module `ModLoad_TEExpression`
  to a dedicated file to reuse `expression` (the module in the 
  dedicated `ModLoad_TEExpression.tla` file takes precedence 
  over the module `ModLoad_TEExpression` below).

---- MODULE ModLoad_TEExpression ----
EXTENDS Sequences, TLCExt, Toolbox, ModLoad, Naturals, TLC

expression == 
    [
        \* To hide variables of the `ModLoad` spec from the error trace,
        \* remove the variables below.  The trace will be written in the order
        \* of the fields of this record.
        phase |-> phase
        ,node |-> node
        ,rdepends |-> rdepends
        ,lstack |-> lstack
        ,loading |-> loading
        ,dstack |-> dstack
        ,log |-> log
        ,mods |-> mods
        ,depends |-> depends
        ,cs |-> cs
        ,closing |-> closing
        ,backend |-> backend
        ,handle |-> handle
        ,ii |-> ii
        ,visited |-> visited
        ,visit |-> visit
        ,status |-> status
        
        \* Put additional constant-, state-, and action-level expressions here:
        \* ,_stateNumber |-> _TEPosition
        \* ,_phaseUnchanged |-> phase = phase'
        
        \* Format the `phase` variable as Json value.
        \* ,_phaseJson |->
        \*     LET J == INSTANCE Json
        \*     IN J!ToJson(phase)
        
        \* Lastly, you may build expressions over arbitrary sets of states by
        \* leveraging the _TETrace operator.  For example, this is how to
        \* count the number of times a spec variable changed up to the current
        \* state in the trace.
        \* ,_phaseModCount |->
        \*     LET F[s \in DOMAIN _TETrace] ==
        \*         IF s = 1 THEN 0
        \*         ELSE IF _TETrace[s].phase # _TETrace[s-1].phase
        \*             THEN 1 + F[s-1] ELSE F[s-1]
        \*     IN F[_TEPosition - 1]
    ]

=============================================================================



Parsing and semantic processing can take forever if the trace below is long.
 In this case, it is advised to uncomment the module below to deserialize the
 trace from a generated binary file.

\*
\*---- MODULE ModLoad_TETrace ----
\*EXTENDS IOUtils, ModLoad, TLC
\*
\*trace == IODeserialize("ModLoad_TTrace_1790668882.bin", TRUE)
\*
\*=============================================================================
\*

---- MODULE ModLoad_TETrace ----
EXTENDS ModLoad, TLC

trace == 
    <<
    ([phase |-> "load",ii |-> 1,mods |-> {},log |-> <<>>,depends |-> <<<<>>, <<>>, <<>>>>,lstack |-> <<>>,handle |-> <<FALSE, FALSE, FALSE>>,dstack |-> <<>>,loading |-> 0,cs |-> [backend |-> {}, n |-> 3, deps |-> <<<<3>>, <<>>, <<>>>>, anti |-> <<<<>>, <<1>>, <<2>>>>, list |-> <<3>>, missing |-> {}, nopost |-> {}, nodtor |-> {1, 2, 3}, noctor |-> {}],node |-> 0,closing |-> [call |-> 0, part |-> "none", progress |-> FALSE],visited |-> <<0, 0, 0>>,backend |-> <<0, 0, 0>>,visit |-> 0,rdepends |-> <<<<>>, <<>>, <<>>>>,status |-> -1]),
    ([phase |-> "load",ii |-> 2,mods |-> {3},log |-> <<[m |-> 3, e |-> "ctor-begin"]>>,depends |-> <<<<>>, <<>>, <<>>>>,lstack |-> <<[m |-> 3, k |-> 1, prior |-> 0]>>,handle |-> <<FALSE, FALSE, TRUE>>,dstack |-> <<>>,loading |-> 3,cs |-> [backend |-> {}, n |-> 3, deps |-> <<<<3>>, <<>>, <<>>>>, anti |-> <<<<>>, <<1>>, <<2>>>>, list |-> <<3>>, missing |-> {}, nopost |-> {}, nodtor |-> {1, 2, 3}, noctor |-> {}],node |-> 0,closing |-> [call |-> 0, part |-> "none", progress |-> FALSE],visited |-> <<0, 0, 0>>,backend |-> <<0, 0, 0>>,visit |-> 0,rdepends |-> <<<<>>, <<>>, <<>>>>,status |-> -1]),
    ([phase |-> "load",ii |-> 2,mods |-> {2, 3},log |-> <<[m |-> 3, e |-> "ctor-begin"], [m |-> 2, e |-> "ctor-begin"]>>,depends |-> <<<<>>, <<>>, <<>>>>,lstack |-> <<[m |-> 3, k |-> 1, prior |-> 0], [m |-> 2, k |-> 1, prior |-> 3]>>,handle |-> <<FALSE, TRUE, TRUE>>,dstack |-> <<>>,loading |-> 2,cs |-> [backend |-> {}, n |-> 3, deps |-> <<<<3>>, <<>>, <<>>>>, anti |-> <<<<>>, <<1>>, <<2>>>>, list |-> <<3>>, missing |-> {}, nopost |-> {}, nodtor |-> {1, 2, 3}, noctor |-> {}],node |-> 0,closing |-> [call |-> 0, part |-> "none", progress |-> FALSE],visited |-> <<0, 0, 0>>,backend |-> <<0, 0, 0>>,visit |-> 0,rdepends |-> <<<<>>, <<>>, <<>>>>,status |-> -1]),
    ([phase |-> "load",ii |-> 2,mods |-> {1, 2, 3},log |-> <<[m |-> 3, e |-> "ctor-begin"], [m |-> 2, e |-> "ctor-begin"], [m |-> 1, e |-> "ctor-begin"]>>,depends |-> <<<<>>, <<>>, <<>>>>,lstack |-> <<[m |-> 3, k |-> 1, prior |-> 0], [m |-> 2, k |-> 1, prior |-> 3], [m |-> 1, k |-> 1, prior |-> 2]>>,handle |-> <<TRUE, TRUE, TRUE>>,dstack |-> <<>>,loading |-> 1,cs |-> [backend |-> {}, n |-> 3, deps |-> <<<<3>>, <<>>, <<>>>>, anti |-> <<<<>>, <<1>>, <<2>>>>, list |-> <<3>>, missing |-> {}, nopost |-> {}, nodtor |-> {1, 2, 3}, noctor |-> {}],node |-> 0,closing |-> [call |-> 0, part |-> "none", progress |-> FALSE],visited |-> <<0, 0, 0>>,backend |-> <<0, 0, 0>>,visit |-> 0,rdepends |-> <<<<>>, <<>>, <<>>>>,status |-> -1]),
    ([phase |-> "load",ii |-> 2,mods |-> {1, 2, 3},log |-> <<[m |-> 3, e |-> "ctor-begin"], [m |-> 2, e |-> "ctor-begin"], [m |-> 1, e |-> "ctor-begin"]>>,depends |-> <<<<3>>, <<>>, <<>>>>,lstack |-> <<[m |-> 3, k |-> 1, prior |-> 0], [m |-> 2, k |-> 1, prior |-> 3], [m |-> 1, k |-> 2, prior |-> 2]>>,handle |-> <<TRUE, TRUE, TRUE>>,dstack |-> <<>>,loading |-> 1,cs |-> [backend |-> {}, n |-> 3, deps |-> <<<<3>>, <<>>, <<>>>>, anti |-> <<<<>>, <<1>>, <<2>>>>, list |-> <<3>>, missing |-> {}, nopost |-> {}, nodtor |-> {1, 2, 3}, noctor |-> {}],node |-> 0,closing |-> [call |-> 0, part |-> "none", progress |-> FALSE],visited |-> <<0, 0, 0>>,backend |-> <<0, 0, 0>>,visit |-> 0,rdepends |-> <<<<>>, <<>>, <<1>>>>,status |-> -1]),
    ([phase |-> "load",ii |-> 2,mods |-> {1, 2, 3},log |-> <<[m |-> 3, e |-> "ctor-begin"], [m |-> 2, e |-> "ctor-begin"], [m |-> 1, e |-> "ctor-begin"], [m |-> 1, e |-> "ctor-end"]>>,depends |-> <<<<3>>, <<>>, <<>>>>,lstack |-> <<[m |-> 3, k |-> 1, prior |-> 0], [m |-> 2, k |-> 1, prior |-> 3]>>,handle |-> <<TRUE, TRUE, TRUE>>,dstack |-> <<>>,loading |-> 2,cs |-> [backend |-> {}, n |-> 3, deps |-> <<<<3>>, <<>>, <<>>>>, anti |-> <<<<>>, <<1>>, <<2>>>>, list |-> <<3>>, missing |-> {}, nopost |-> {}, nodtor |-> {1, 2, 3}, noctor |-> {}],node |-> 0,closing |-> [call |-> 0, part |-> "none", progress |-> FALSE],visited |-> <<0, 0, 0>>,backend |-> <<0, 0, 0>>,visit |-> 0,rdepends |-> <<<<>>, <<>>, <<1>>>>,status |-> -1]),
    ([phase |-> "load",ii |-> 2,mods |-> {1, 2, 3},log |-> <<[m |-> 3, e |-> "ctor-begin"], [m |-> 2, e |-> "ctor-begin"], [m |-> 1, e |-> "ctor-begin"], [m |-> 1, e |-> "ctor-end"]>>,depends |-> <<<<3, 2>>, <<>>, <<>>>>,lstack |-> <<[m |-> 3, k |-> 1, prior |-> 0], [m |-> 2, k |-> 2, prior |-> 3]>>,handle |-> <<TRUE, TRUE, TRUE>>,dstack |-> <<>>,loading |-> 2,cs |-> [backend |-> {}, n |-> 3, deps |-> <<<<3>>, <<>>, <<>>>>, anti |-> <<<<>>, <<1>>, <<2>>>>, list |-> <<3>>, missing |-> {}, nopost |-> {}, nodtor |-> {1, 2, 3}, noctor |-> {}],node |-> 0,closing |-> [call |-> 0, part |-> "none", progress |-> FALSE],visited |-> <<0, 0, 0>>,backend |-> <<0, 0, 0>>,visit |-> 0,rdepends |-> <<<<>>, <<1>>, <<1>>>>,status |-> -1]),
    ([phase |-> "load",ii |-> 2,mods |-> {1, 2, 3},log |-> <<[m |-> 3, e |-> "ctor-begin"], [m |-> 2, e |-> "ctor-begin"], [m |-> 1, e |-> "ctor-begin"], [m |-> 1, e |-> "ctor-end"], [m |-> 2, e |-> "ctor-end"]>>,depends |-> <<<<3, 2>>, <<>>, <<>>>>,lstack |-> <<[m |-> 3, k |-> 1, prior |-> 0]>>,handle |-> <<TRUE, TRUE, TRUE>>,dstack |-> <<>>,loading |-> 3,cs |-> [backend |-> {}, n |-> 3, deps |-> <<<<3>>, <<>>, <<>>>>, anti |-> <<<<>>, <<1>>, <<2>>>>, list |-> <<3>>, missing |-> {}, nopost |-> {}, nodtor |-> {1, 2, 3}, noctor |-> {}],node |-> 0,closing |-> [call |-> 0, part |-> "none", progress |-> FALSE],visited |-> <<0, 0, 0>>,backend |-> <<0, 0, 0>>,visit |-> 0,rdepends |-> <<<<>>, <<1>>, <<1>>>>,status |-> -1]),
    ([phase |-> "load",ii |-> 2,mods |-> {1, 2, 3},log |-> <<[m |-> 3, e |-> "ctor-begin"], [m |-> 2, e |-> "ctor-begin"], [m |-> 1, e |-> "ctor-begin"], [m |-> 1, e |-> "ctor-end"], [m |-> 2, e |-> "ctor-end"]>>,depends |-> <<<<3, 2>>, <<3>>, <<>>>>,lstack |-> <<[m |-> 3, k |-> 2, prior |-> 0]>>,handle |-> <<TRUE, TRUE, TRUE>>,dstack |-> <<>>,loading |-> 3,cs |-> [backend |-> {}, n |-> 3, deps |-> <<<<3>>, <<>>, <<>>>>, anti |-> <<<<>>, <<1>>, <<2>>>>, list |-> <<3>>, missing |-> {}, nopost |-> {}, nodtor |-> {1, 2, 3}, noctor |-> {}],node |-> 0,closing |-> [call |-> 0, part |-> "none", progress |-> FALSE],visited |-> <<0, 0, 0>>,backend |-> <<0, 0, 0>>,visit |-> 0,rdepends |-> <<<<>>, <<1>>, <<1, 2>>>>,status |-> -1]),
    ([phase |-> "load",ii |-> 2,mods |-> {1, 2, 3},log |-> <<[m |-> 3, e |-> "ctor-begin"], [m |-> 2, e |-> "ctor-begin"], [m |-> 1, e |-> "ctor-begin"], [m |-> 1, e |-> "ctor-end"], [m |-> 2, e |-> "ctor-end"], [m |-> 3, e |-> "ctor-end"]>>,depends |-> <<<<3, 2>>, <<3>>, <<>>>>,lstack |-> <<>>,handle |-> <<TRUE, TRUE, TRUE>>,dstack |-> <<>>,loading |-> 0,cs |-> [backend |-> {}, n |-> 3, deps |-> <<<<3>>, <<>>, <<>>>>, anti |-> <<<<>>, <<1>>, <<2>>>>, list |-> <<3>>, missing |-> {}, nopost |-> {}, nodtor |-> {1, 2, 3}, noctor |-> {}],node |-> 0,closing |-> [call |-> 0, part |-> "none", progress |-> FALSE],visited |-> <<0, 0, 0>>,backend |-> <<0, 0, 0>>,visit |-> 0,rdepends |-> <<<<>>, <<1>>, <<1, 2>>>>,status |-> -1]),
    ([phase |-> "prepass",ii |-> 2,mods |-> {1, 2, 3},log |-> <<[m |-> 3, e |-> "ctor-begin"], [m |-> 2, e |-> "ctor-begin"], [m |-> 1, e |-> "ctor-begin"], [m |-> 1, e |-> "ctor-end"], [m |-> 2, e |-> "ctor-end"], [m |-> 3, e |-> "ctor-end"]>>,depends |-> <<<<3, 2>>, <<3>>, <<>>>>,lstack |-> <<>>,handle |-> <<TRUE, TRUE, TRUE>>,dstack |-> <<>>,loading |-> 0,cs |-> [backend |-> {}, n |-> 3, deps |-> <<<<3>>, <<>>, <<>>>>, anti |-> <<<<>>, <<1>>, <<2>>>>, list |-> <<3>>, missing |-> {}, nopost |-> {}, nodtor |-> {1, 2, 3}, noctor |-> {}],node |-> 0,closing |-> [call |-> 0, part |-> "none", progress |-> FALSE],visited |-> <<0, 0, 0>>,backend |-> <<0, 0, 0>>,visit |-> 0,rdepends |-> <<<<>>, <<1>>, <<1, 2>>>>,status |-> -1]),
    ([phase |-> "walk",ii |-> 2,mods |-> {1, 2, 3},log |-> <<[m |-> 3, e |-> "ctor-begin"], [m |-> 2, e |-> "ctor-begin"], [m |-> 1, e |-> "ctor-begin"], [m |-> 1, e |-> "ctor-end"], [m |-> 2, e |-> "ctor-end"], [m |-> 3, e |-> "ctor-end"]>>,depends |-> <<<<3, 2>>, <<3>>, <<>>>>,lstack |-> <<>>,handle |-> <<TRUE, TRUE, TRUE>>,dstack |-> <<>>,loading |-> 0,cs |-> [backend |-> {}, n |-> 3, deps |-> <<<<3>>, <<>>, <<>>>>, anti |-> <<<<>>, <<1>>, <<2>>>>, list |-> <<3>>, missing |-> {}, nopost |-> {}, nodtor |-> {1, 2, 3}, noctor |-> {}],node |-> 1,closing |-> [call |-> 0, part |-> "none", progress |-> FALSE],visited |-> <<0, 0, 0>>,backend |-> <<0, 0, 0>>,visit |-> 0,rdepends |-> <<<<>>, <<1>>, <<1, 2>>>>,status |-> -1]),
    ([phase |-> "walk",ii |-> 2,mods |-> {1, 2, 3},log |-> <<[m |-> 3, e |-> "ctor-begin"], [m |-> 2, e |-> "ctor-begin"], [m |-> 1, e |-> "ctor-begin"], [m |-> 1, e |-> "ctor-end"], [m |-> 2, e |-> "ctor-end"], [m |-> 3, e |-> "ctor-end"]>>,depends |-> <<<<3, 2>>, <<3>>, <<>>>>,lstack |-> <<>>,handle |-> <<TRUE, TRUE, TRUE>>,dstack |-> <<[m |-> 1, i |-> 1]>>,loading |-> 0,cs |-> [backend |-> {}, n |-> 3, deps |-> <<<<3>>, <<>>, <<>>>>, anti |-> <<<<>>, <<1>>, <<2>>>>, list |-> <<3>>, missing |-> {}, nopost |-> {}, nodtor |-> {1, 2, 3}, noctor |-> {}],node |-> 1,closing |-> [call |-> 0, part |-> "none", progress |-> FALSE],visited |-> <<-1, 0, 0>>,backend |-> <<0, 0, 0>>,visit |-> 1,rdepends |-> <<<<>>, <<1, 1>>, <<1, 2, 1>>>>,status |-> -1]),
    ([phase |-> "walk",ii |-> 2,mods |-> {1, 2, 3},log |-> <<[m |-> 3, e |-> "ctor-begin"], [m |-> 2, e |-> "ctor-begin"], [m |-> 1, e |-> "ctor-begin"], [m |-> 1, e |-> "ctor-end"], [m |-> 2, e |-> "ctor-end"], [m |-> 3, e |-> "ctor-end"]>>,depends |-> <<<<3, 2>>, <<3>>, <<>>>>,lstack |-> <<>>,handle |-> <<TRUE, TRUE, TRUE>>,dstack |-> <<[m |-> 1, i |-> 1], [m |-> 3, i |-> 1]>>,loading |-> 0,cs |-> [backend |-> {}, n |-> 3, deps |-> <<<<3>>, <<>>, <<>>>>, anti |-> <<<<>>, <<1>>, <<2>>>>, list |-> <<3>>, missing |-> {}, nopost |-> {}, nodtor |-> {1, 2, 3}, noctor |-> {}],node |-> 1,closing |-> [call |-> 0, part |-> "none", progress |-> FALSE],visited |-> <<-1, 0, -1>>,backend |-> <<0, 0, 0>>,visit |-> 1,rdepends |-> <<<<>>, <<1, 1>>, <<1, 2, 1>>>>,status |-> -1]),
    ([phase |-> "walk",ii |-> 2,mods |-> {1, 2, 3},log |-> <<[m |-> 3, e |-> "ctor-begin"], [m |-> 2, e |-> "ctor-begin"], [m |-> 1, e |-> "ctor-begin"], [m |-> 1, e |-> "ctor-end"], [m |-> 2, e |-> "ctor-end"], [m |-> 3, e |-> "ctor-end"], [m |-> 3, e |-> "post-init"]>>,depends |-> <<<<3, 2>>, <<3>>, <<>>>>,lstack |-> <<>>,handle |-> <<TRUE, TRUE, TRUE>>,dstack |-> <<[m |-> 1, i |-> 2]>>,loading |-> 0,cs |-> [backend |-> {}, n |-> 3, deps |-> <<<<3>>, <<>>, <<>>>>, anti |-> <<<<>>, <<1>>, <<2>>>>, list |-> <<3>>, missing |-> {}, nopost |-> {}, nodtor |-> {1, 2, 3}, noctor |-> {}],node |-> 1,closing |-> [call |-> 0, part |-> "none", progress |-> FALSE],visited |-> <<-1, 0, 1>>,backend |-> <<0, 0, 0>>,visit |-> 1,rdepends |-> <<<<>>, <<1, 1>>, <<1, 2, 1>>>>,status |-> -1]),
    ([phase |-> "walk",ii |-> 2,mods |-> {1, 2, 3},log |-> <<[m |-> 3, e |-> "ctor-begin"], [m |-> 2, e |-> "ctor-begin"], [m |-> 1, e |-> "ctor-begin"], [m |-> 1, e |-> "ctor-end"], [m |-> 2, e |-> "ctor-end"], [m |-> 3, e |-> "ctor-end"], [m |-> 3, e |-> "post-init"]>>,depends |-> <<<<3, 2>>, <<3>>, <<>>>>,lstack |-> <<>>,handle |-> <<TRUE, TRUE, TRUE>>,dstack |-> <<[m |-> 1, i |-> 2], [m |-> 2, i |-> 1]>>,loading |-> 0,cs |-> [backend |-> {}, n |-> 3, deps |-> <<<<3>>, <<>>, <<>>>>, anti |-> <<<<>>, <<1>>, <<2>>>>, list |-> <<3>>, missing |-> {}, nopost |-> {}, nodtor |-> {1, 2, 3}, noctor |-> {}],node |-> 1,closing |-> [call |-> 0, part |-> "none", progress |-> FALSE],visited |-> <<-1, -1, 1>>,backend |-> <<0, 0, 0>>,visit |-> 1,rdepends |-> <<<<>>, <<1, 1>>, <<1, 2, 1>>>>,status |-> -1]),
    ([phase |-> "walk",ii |-> 2,mods |-> {1, 2, 3},log |-> <<[m |-> 3, e |-> "ctor-begin"], [m |-> 2, e |-> "ctor-begin"], [m |-> 1, e |-> "ctor-begin"], [m |-> 1, e |-> "ctor-end"], [m |-> 2, e |-> "ctor-end"], [m |-> 3, e |-> "ctor-end"], [m |-> 3, e |-> "post-init"]>>,depends |-> <<<<3, 2>>, <<3>>, <<>>>>,lstack |-> <<>>,handle |-> <<TRUE, TRUE, TRUE>>,dstack |-> <<[m |-> 1, i |-> 2], [m |-> 2, i |-> 2]>>,loading |-> 0,cs |-> [backend |-> {}, n |-> 3, deps |-> <<<<3>>, <<>>, <<>>>>, anti |-> <<<<>>, <<1>>, <<2>>>>, list |-> <<3>>, missing |-> {}, nopost |-> {}, nodtor |-> {1, 2, 3}, noctor |-> {}],node |-> 1,closing |-> [call |-> 0, part |-> "none", progress |-> FALSE],visited |-> <<-1, -1, 1>>,backend |-> <<0, 0, 0>>,visit |-> 1,rdepends |-> <<<<>>, <<1, 1>>, <<1, 2, 1>>>>,status |-> -1]),
    ([phase |-> "walk",ii |-> 2,mods |-> {1, 2, 3},log |-> <<[m |-> 3, e |-> "ctor-begin"], [m |-> 2, e |-> "ctor-begin"], [m |-> 1, e |-> "ctor-begin"], [m |-> 1, e |-> "ctor-end"], [m |-> 2, e |-> "ctor-end"], [m |-> 3, e |-> "ctor-end"], [m |-> 3, e |-> "post-init"], [m |-> 2, e |-> "post-init"]>>,depends |-> <<<<3, 2>>, <<3>>, <<>>>>,lstack |-> <<>>,handle |-> <<TRUE, TRUE, TRUE>>,dstack |-> <<[m |-> 1, i |-> 3]>>,loading |-> 0,cs |-> [backend |-> {}, n |-> 3, deps |-> <<<<3>>, <<>>, <<>>>>, anti |-> <<<<>>, <<1>>, <<2>>>>, list |-> <<3>>, missing |-> {}, nopost |-> {}, nodtor |-> {1, 2, 3}, noctor |-> {}],node |-> 1,closing |-> [call |-> 0, part |-> "none", progress |-> FALSE],visited |-> <<-1, 1, 1>>,backend |-> <<0, 0, 0>>,visit |-> 1,rdepends |-> <<<<>>, <<1, 1>>, <<1, 2, 1>>>>,status |-> -1]),
    ([phase |-> "walk",ii |-> 2,mods |-> {1, 2, 3},log |-> <<[m |-> 3, e |-> "ctor-begin"], [m |-> 2, e |-> "ctor-begin"], [m |-> 1, e |-> "ctor-begin"], [m |-> 1, e |-> "ctor-end"], [m |-> 2, e |-> "ctor-end"], [m |-> 3, e |-> "ctor-end"], [m |-> 3, e |-> "post-init"], [m |-> 2, e |-> "post-init"], [m |-> 1, e |-> "post-init"]>>,depends |-> <<<<3, 2>>, <<3>>, <<>>>>,lstack |-> <<>>,handle |-> <<TRUE, TRUE, TRUE>>,dstack |-> <<>>,loading |-> 0,cs |-> [backend |-> {}, n |-> 3, deps |-> <<<<3>>, <<>>, <<>>>>, anti |-> <<<<>>, <<1>>, <<2>>>>, list |-> <<3>>, missing |-> {}, nopost |-> {}, nodtor |-> {1, 2, 3}, noctor |-> {}],node |-> 2,closing |-> [call |-> 0, part |-> "none", progress |-> FALSE],visited |-> <<1, 1, 1>>,backend |-> <<0, 0, 0>>,visit |-> 1,rdepends |-> <<<<>>, <<1, 1>>, <<1, 2, 1>>>>,status |-> -1]),
    ([phase |-> "walk",ii |-> 2,mods |-> {1, 2, 3},log |-> <<[m |-> 3, e |-> "ctor-begin"], [m |-> 2, e |-> "ctor-begin"], [m |-> 1, e |-> "ctor-begin"], [m |-> 1, e |-> "ctor-end"], [m |-> 2, e |-> "ctor-end"], [m |-> 3, e |-> "ctor-end"], [m |-> 3, e |-> "post-init"], [m |-> 2, e |-> "post-init"], [m |-> 1, e |-> "post-init"]>>,depends |-> <<<<3, 2>>, <<3>>, <<>>>>,lstack |-> <<>>,handle |-> <<TRUE, TRUE, TRUE>>,dstack |-> <<>>,loading |-> 0,cs |-> [backend |-> {}, n |-> 3, deps |-> <<<<3>>, <<>>, <<>>>>, anti |-> <<<<>>, <<1>>, <<2>>>>, list |-> <<3>>, missing |-> {}, nopost |-> {}, nodtor |-> {1, 2, 3}, noctor |-> {}],node |-> 3,closing |-> [call |-> 0, part |-> "none", progress |-> FALSE],visited |-> <<1, 1, 1>>,backend |-> <<0, 0, 0>>,visit |-> 1,rdepends |-> <<<<>>, <<1, 1>>, <<1, 2, 1>>>>,status |-> -1]),
    ([phase |-> "walk",ii |-> 2,mods |-> {1, 2, 3},log |-> <<[m |-> 3, e |-> "ctor-begin"], [m |-> 2, e |-> "ctor-begin"], [m |-> 1, e |-> "ctor-begin"], [m |-> 1, e |-> "ctor-end"], [m |-> 2, e |-> "ctor-end"], [m |-> 3, e |-> "ctor-end"], [m |-> 3, e |-> "post-init"], [m |-> 2, e |-> "post-init"], [m |-> 1, e |-> "post-init"]>>,depends |-> <<<<3, 2>>, <<3>>, <<>>>>,lstack |-> <<>>,handle |-> <<TRUE, TRUE, TRUE>>,dstack |-> <<>>,loading |-> 0,cs |-> [backend |-> {}, n |-> 3, deps |-> <<<<3>>, <<>>, <<>>>>, anti |-> <<<<>>, <<1>>, <<2>>>>, list |-> <<3>>, missing |-> {}, nopost |-> {}, nodtor |-> {1, 2, 3}, noctor |-> {}],node |-> 0,closing |-> [call |-> 0, part |-> "none", progress |-> FALSE],visited |-> <<1, 1, 1>>,backend |-> <<0, 0, 0>>,visit |-> 1,rdepends |-> <<<<>>, <<1, 1>>, <<1, 2, 1>>>>,status |-> -1]),
    ([phase |-> "close",ii |-> 2,mods |-> {1, 2, 3},log |-> <<[m |-> 3, e |-> "ctor-begin"], [m |-> 2, e |-> "ctor-begin"], [m |-> 1, e |-> "ctor-begin"], [m |-> 1, e |-> "ctor-end"], [m |-> 2, e |-> "ctor-end"], [m |-> 3, e |-> "ctor-end"], [m |-> 3, e |-> "post-init"], [m |-> 2, e |-> "post-init"], [m |-> 1, e |-> "post-init"], [m |-> 0, e |-> "running"]>>,depends |-> <<<<3, 2>>, <<3>>, <<>>>>,lstack |-> <<>>,handle |-> <<TRUE, TRUE, TRUE>>,dstack |-> <<>>,loading |-> 0,cs |-> [backend |-> {}, n |-> 3, deps |-> <<<<3>>, <<>>, <<>>>>, anti |-> <<<<>>, <<1>>, <<2>>>>, list |-> <<3>>, missing |-> {}, nopost |-> {}, nodtor |-> {1, 2, 3}, noctor |-> {}],node |-> 1,closing |-> [call |-> 1, part |-> "rounds", progress |-> FALSE],visited |-> <<1, 1, 1>>,backend |-> <<0, 0, 0>>,visit |-> 1,rdepends |-> <<<<>>, <<1, 1>>, <<1, 2, 1>>>>,status |-> 0]),
    ([phase |-> "close",ii |-> 2,mods |-> {2, 3},log |-> <<[m |-> 3, e |-> "ctor-begin"], [m |-> 2, e |-> "ctor-begin"], [m |-> 1, e |-> "ctor-begin"], [m |-> 1, e |-> "ctor-end"], [m |-> 2, e |-> "ctor-end"], [m |-> 3, e |-> "ctor-end"], [m |-> 3, e |-> "post-init"], [m |-> 2, e |-> "post-init"], [m |-> 1, e |-> "post-init"], [m |-> 0, e |-> "running"]>>,depends |-> <<<<>>, <<3>>, <<>>>>,lstack |-> <<>>,handle |-> <<FALSE, TRUE, TRUE>>,dstack |-> <<>>,loading |-> 0,cs |-> [backend |-> {}, n |-> 3, deps |-> <<<<3>>, <<>>, <<>>>>, anti |-> <<<<>>, <<1>>, <<2>>>>, list |-> <<3>>, missing |-> {}, nopost |-> {}, nodtor |-> {1, 2, 3}, noctor |-> {}],node |-> 2,closing |-> [call |-> 1, part |-> "rounds", progress |-> TRUE],visited |-> <<0, 1, 1>>,backend |-> <<0, 0, 0>>,visit |-> 1,rdepends |-> <<<<>>, <<>>, <<2>>>>,status |-> 0]),
    ([phase |-> "close",ii |-> 2,mods |-> {3},log |-> <<[m |-> 3, e |-> "ctor-begin"], [m |-> 2, e |-> "ctor-begin"], [m |-> 1, e |-> "ctor-begin"], [m |-> 1, e |-> "ctor-end"], [m |-> 2, e |-> "ctor-end"], [m |-> 3, e |-> "ctor-end"], [m |-> 3, e |-> "post-init"], [m |-> 2, e |-> "post-init"], [m |-> 1, e |-> "post-init"], [m |-> 0, e |-> "running"]>>,depends |-> <<<<>>, <<>>, <<>>>>,lstack |-> <<>>,handle |-> <<FALSE, FALSE, TRUE>>,dstack |-> <<>>,loading |-> 0,cs |-> [backend |-> {}, n |-> 3, deps |-> <<<<3>>, <<>>, <<>>>>, anti |-> <<<<>>, <<1>>, <<2>>>>, list |-> <<3>>, missing |-> {}, nopost |-> {}, nodtor |-> {1, 2, 3}, noctor |-> {}],node |-> 3,closing |-> [call |-> 1, part |-> "rounds", progress |-> TRUE],visited |-> <<0, 0, 1>>,backend |-> <<0, 0, 0>>,visit |-> 1,rdepends |-> <<<<>>, <<>>, <<>>>>,status |-> 0]),
    ([phase |-> "close",ii |-> 2,mods |-> {},log |-> <<[m |-> 3, e |-> "ctor-begin"], [m |-> 2, e |-> "ctor-begin"], [m |-> 1, e |-> "ctor-begin"], [m |-> 1, e |-> "ctor-end"], [m |-> 2, e |-> "ctor-end"], [m |-> 3, e |-> "ctor-end"], [m |-> 3, e |-> "post-init"], [m |-> 2, e |-> "post-init"], [m |-> 1, e |-> "post-init"], [m |-> 0, e |-> "running"]>>,depends |-> <<<<>>, <<>>, <<>>>>,lstack |-> <<>>,handle |-> <<FALSE, FALSE, FALSE>>,dstack |-> <<>>,loading |-> 0,cs |-> [backend |-> {}, n |-> 3, deps |-> <<<<3>>, <<>>, <<>>>>, anti |-> <<<<>>, <<1>>, <<2>>>>, list |-> <<3>>, missing |-> {}, nopost |-> {}, nodtor |-> {1, 2, 3}, noctor |-> {}],node |-> 0,closing |-> [call |-> 1, part |-> "rounds", progress |-> TRUE],visited |-> <<0, 0, 0>>,backend |-> <<0, 0, 0>>,visit |-> 1,rdepends |-> <<<<>>, <<>>, <<>>>>,status |-> 0]),
    ([phase |-> "close",ii |-> 2,mods |-> {},log |-> <<[m |-> 3, e |-> "ctor-begin"], [m |-> 2, e |-> "ctor-begin"], [m |-> 1, e |-> "ctor-begin"], [m |-> 1, e |-> "ctor-end"], [m |-> 2, e |-> "ctor-end"], [m |-> 3, e |-> "ctor-end"], [m |-> 3, e |-> "post-init"], [m |-> 2, e |-> "post-init"], [m |-> 1, e |-> "post-init"], [m |-> 0, e |-> "running"]>>,depends |-> <<<<>>, <<>>, <<>>>>,lstack |-> <<>>,handle |-> <<FALSE, FALSE, FALSE>>,dstack |-> <<>>,loading |-> 0,cs |-> [backend |-> {}, n |-> 3, deps |-> <<<<3>>, <<>>, <<>>>>, anti |-> <<<<>>, <<1>>, <<2>>>>, list |-> <<3>>, missing |-> {}, nopost |-> {}, nodtor |-> {1, 2, 3}, noctor |-> {}],node |-> 0,closing |-> [call |-> 1, part |-> "rounds", progress |-> FALSE],visited |-> <<0, 0, 0>>,backend |-> <<0, 0, 0>>,visit |-> 1,rdepends |-> <<<<>>, <<>>, <<>>>>,status |-> 0]),
    ([phase |-> "close",ii |-> 2,mods |-> {},log |-> <<[m |-> 3, e |-> "ctor-begin"], [m |-> 2, e |-> "ctor-begin"], [m |-> 1, e |-> "ctor-begin"], [m |-> 1, e |-> "ctor-end"], [m |-> 2, e |-> "ctor-end"], [m |-> 3, e |-> "ctor-end"], [m |-> 3, e |-> "post-init"], [m |-> 2, e |-> "post-init"], [m |-> 1, e |-> "post-init"], [m |-> 0, e |-> "running"]>>,depends |-> <<<<>>, <<>>, <<>>>>,lstack |-> <<>>,handle |-> <<FALSE, FALSE, FALSE>>,dstack |-> <<>>,loading |-> 0,cs |-> [backend |-> {}, n |-> 3, deps |-> <<<<3>>, <<>>, <<>>>>, anti |-> <<<<>>, <<1>>, <<2>>>>, list |-> <<3>>, missing |-> {}, nopost |-> {}, nodtor |-> {1, 2, 3}, noctor |-> {}],node |-> 0,closing |-> [call |-> 1, part |-> "left", progress |-> FALSE],visited |-> <<0, 0, 0>>,backend |-> <<0, 0, 0>>,visit |-> 1,rdepends |-> <<<<>>, <<>>, <<>>>>,status |-> 0]),
    ([phase |-> "close",ii |-> 2,mods |-> {},log |-> <<[m |-> 3, e |-> "ctor-begin"], [m |-> 2, e |-> "ctor-begin"], [m |-> 1, e |-> "ctor-begin"], [m |-> 1, e |-> "ctor-end"], [m |-> 2, e |-> "ctor-end"], [m |-> 3, e |-> "ctor-end"], [m |-> 3, e |-> "post-init"], [m |-> 2, e |-> "post-init"], [m |-> 1, e |-> "post-init"], [m |-> 0, e |-> "running"]>>,depends |-> <<<<>>, <<>>, <<>>>>,lstack |-> <<>>,handle |-> <<FALSE, FALSE, FALSE>>,dstack |-> <<>>,loading |-> 0,cs |-> [backend |-> {}, n |-> 3, deps |-> <<<<3>>, <<>>, <<>>>>, anti |-> <<<<>>, <<1>>, <<2>>>>, list |-> <<3>>, missing |-> {}, nopost |-> {}, nodtor |-> {1, 2, 3}, noctor |-> {}],node |-> 0,closing |-> [call |-> 2, part |-> "rounds", progress |-> FALSE],visited |-> <<0, 0, 0>>,backend |-> <<0, 0, 0>>,visit |-> 1,rdepends |-> <<<<>>, <<>>, <<>>>>,status |-> 0]),
    ([phase |-> "close",ii |-> 2,mods |-> {},log |-> <<[m |-> 3, e |-> "ctor-begin"], [m |-> 2, e |-> "ctor-begin"], [m |-> 1, e |-> "ctor-begin"], [m |-> 1, e |-> "ctor-end"], [m |-> 2, e |-> "ctor-end"], [m |-> 3, e |-> "ctor-end"], [m |-> 3, e |-> "post-init"], [m |-> 2, e |-> "post-init"], [m |-> 1, e |-> "post-init"], [m |-> 0, e |-> "running"]>>,depends |-> <<<<>>, <<>>, <<>>>>,lstack |-> <<>>,handle |-> <<FALSE, FALSE, FALSE>>,dstack |-> <<>>,loading |-> 0,cs |-> [backend |-> {}, n |-> 3, deps |-> <<<<3>>, <<>>, <<>>>>, anti |-> <<<<>>, <<1>>, <<2>>>>, list |-> <<3>>, missing |-> {}, nopost |-> {}, nodtor |-> {1, 2, 3}, noctor |-> {}],node |-> 0,closing |-> [call |-> 2, part |-> "left", progress |-> FALSE],visited |-> <<0, 0, 0>>,backend |-> <<0, 0, 0>>,visit |-> 1,rdepends |-> <<<<>>, <<>>, <<>>>>,status |-> 0]),
    ([phase |-> "exited",ii |-> 2,mods |-> {},log |-> <<[m |-> 3, e |-> "ctor-begin"], [m |-> 2, e |-> "ctor-begin"], [m |-> 1, e |-> "ctor-begin"], [m |-> 1, e |-> "ctor-end"], [m |-> 2, e |-> "ctor-end"], [m |-> 3, e |-> "ctor-end"], [m |-> 3, e |-> "post-init"], [m |-> 2, e |-> "post-init"], [m |-> 1, e |-> "post-init"], [m |-> 0, e |-> "running"]>>,depends |-> <<<<>>, <<>>, <<>>>>,lstack |-> <<>>,handle |-> <<FALSE, FALSE, FALSE>>,dstack |-> <<>>,loading |-> 0,cs |-> [backend |-> {}, n |-> 3, deps |-> <<<<3>>, <<>>, <<>>>>, anti |-> <<<<>>, <<1>>, <<2>>>>, list |-> <<3>>, missing |-> {}, nopost |-> {}, nodtor |-> {1, 2, 3}, noctor |-> {}],node |-> 0,closing |-> [call |-> 2, part |-> "left", progress |-> FALSE],visited |-> <<0, 0, 0>>,backend |-> <<0, 0, 0>>,visit |-> 1,rdepends |-> <<<<>>, <<>>, <<>>>>,status |-> 0])
    >>
----


=============================================================================

---- CONFIG ModLoad_TTrace_1790668882 ----
CONSTANTS
    Source = "enum"
    MaxN = 3
    SelfLoops = FALSE
    DepOrders = "asc"
    WithMissing = FALSE
    WithAnti = TRUE
    Profiles = "goodpaired"
    Bug = "none"

INVARIANT
    _inv

CHECK_DEADLOCK
    \* CHECK_DEADLOCK off because of PROPERTY or INVARIANT above.
    FALSE

INIT
    _init

NEXT
    _next

CONSTANT
    _TETrace <- _trace

ALIAS
    _expression
=============================================================================
\* Generated on Tue Sep 29 08:02:01 UTC 2026