CONSTANTS
  NC = 2
  Bug = {"D5"}
INIT Init
NEXT Next
INVARIANTS TypeOK RoundTrip NoLeadColon Fits OwnParser Idempotent PatternOK
