SPECIFICATION MCSpec
CONSTANTS Keys = {1, 2, 3, 4}
  StaleMode = "all"
  BugStaleLinks = FALSE
VIEW View
INVARIANTS TypeOK SearchTreeOrder TreeIsAllNodes ListIsInOrder CountOK InsertIgnoresStale
PROPERTY RefinesDirected
