INIT DInit
NEXT DNext
