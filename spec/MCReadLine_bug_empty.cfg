CONSTANTS
  ARGV = 2
  Bug <- BugEmptyBreak
  Alphabet <- Sigma7
  MaxLen = 3
  MaxChunk = 3
  Streams <- AllStreams
INIT RInit
NEXT RNext
INVARIANT DeliveredIsContract
INVARIANT BufferIsTail
INVARIANT ArgvInBounds
INVARIANT EofClean
