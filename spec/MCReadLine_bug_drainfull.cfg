CONSTANTS
  ARGV = 2
  Bug <- BugDrainFull
  Alphabet <- Sigma7
  MaxLen = 4
  MaxChunk = 2
  Streams <- AllStreams
  LiveIds <- Live05
INIT RInit
NEXT RNext
INVARIANT NoLineWaiting
INVARIANT EofClean
