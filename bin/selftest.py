#!/usr/bin/env python3
"""Binding self-test (DESIGN.md section 7): applies code mutants to a scratch COPY of /repo and runs the
checks against it (VERIF_REPO).  Every mutant must yield a VIOLATION for the listed property; the unmutated
tree must yield none.   usage: bin/selftest.py [-k substring] [--tier quick] [--list]"""
import argparse
import os
import shutil
import subprocess
import sys
import tempfile
import time

VERIF = os.path.dirname(os.path.dirname(os.path.abspath(__file__)))
ROOT = os.path.join(os.environ.get("VERIF_SCRATCH", "/var/tmp"), "iauthd-verif")

# (name, property, file, old, new)   -- or (name, property, "revert", commit-subject-substring)
MUTANTS = []


def M(name, prop, path, old, new):
    MUTANTS.append(dict(name=name, prop=prop, path=path, old=old, new=new))


def REVERT(name, prop, subject):
    MUTANTS.append(dict(name=name, prop=prop, revert=subject))


exec(open(os.path.join(VERIF, "bin", "selftest_mutants.py")).read())


def make_copy(m):
    os.makedirs(ROOT, exist_ok=True)
    d = tempfile.mkdtemp(prefix="st-", dir=ROOT)
    subprocess.run(["rsync", "-a", "--exclude", ".git", "--exclude", "*.o", "--exclude", "*.lo", "--exclude", ".libs",
                    "/repo/", d + "/"], check=True)
    if "revert" in m:
        log = subprocess.run(["git", "-C", "/repo", "log", "--format=%H %s"], stdout=subprocess.PIPE, text=True).stdout
        commit = [l.split()[0] for l in log.splitlines() if m["revert"] in l]
        assert len(commit) == 1, (m["revert"], commit)
        diff = subprocess.run(["git", "-C", "/repo", "show", commit[0]], stdout=subprocess.PIPE, text=True).stdout
        subprocess.run(["patch", "-R", "-p1", "-s"], input=diff, text=True, cwd=d, check=True)
    else:
        p = os.path.join(d, m["path"])
        s = open(p).read()
        assert s.count(m["old"]) == 1, (m["name"], s.count(m["old"]))
        open(p, "w").write(s.replace(m["old"], m["new"]))
    return d


def main():
    ap = argparse.ArgumentParser()
    ap.add_argument("-k", default="")
    ap.add_argument("--tier", default="quick")
    ap.add_argument("--list", action="store_true")
    ap.add_argument("--props", default="")
    a = ap.parse_args()
    rows = []
    for m in MUTANTS:
        if a.k and a.k not in m["name"] and a.k != m["prop"]:
            continue
        if a.list:
            print(m["prop"], m["name"])
            continue
        d = make_copy(m)
        props = a.props.split(",") if a.props else [m["prop"]]
        try:
            for prop in props:
                t = time.time()
                env = dict(os.environ, VERIF_REPO=d, VERIF_MUTANT="1")
                p = subprocess.run([os.path.join(VERIF, "bin", "vcheck"), prop, "--tier", a.tier], env=env,
                                   stdout=subprocess.PIPE, stderr=subprocess.STDOUT, text=True)
                viol = [l for l in p.stdout.splitlines() if l.startswith("VIOLATION")]
                status = "CAUGHT" if (p.returncode == 1 and viol) else ("MISSED" if p.returncode == 0 else "ERROR rc=%d" % p.returncode)
                rows.append((m["name"], prop, status, len(viol), time.time() - t))
                print("%-44s %-4s %-12s %2d violations %5.0fs" % rows[-1], flush=True)
                if status.startswith("ERROR"):
                    print(p.stdout[-1500:])
        finally:
            shutil.rmtree(d, ignore_errors=True)
    missed = [r for r in rows if r[2] != "CAUGHT"]
    print("\n%d mutant runs, %d caught, %d not caught" % (len(rows), len(rows) - len(missed), len(missed)))
    return 1 if missed else 0


if __name__ == "__main__":
    sys.exit(main())
