CONSTANTS
  EMIT = FALSE
  NFAM = 18
  Bug = {"NO96"}
INIT Init
NEXT Next
INVARIANTS Emit DocSane DenotesNet RejectNotPlain AlgoDoc AlgoPlain
