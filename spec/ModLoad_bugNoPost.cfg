\* C20: model mutant, found by TLC itself among all cases and hook profiles on <= 3 modules: module_dfs() returns early, without the visited mark, for a module without module_post_init; TLC must report B_StartsComplete
SPECIFICATION Spec
CONSTANTS
    Source = "enum"
    MaxN = 3
    SelfLoops = FALSE
    DepOrders = "asc"
    WithMissing = FALSE
    WithAnti = FALSE
    Profiles = "all"
    Bug = "NoPostNoMark"
INVARIANTS
    TypeOK LoadingIsInnermostCtor RdependsMirrorsDepends SetEmptyAtExit NoGhostInGoodCase
    B_CtorOnce B_DepsConstructedFirst B_PostInitOnce B_PostInitAfterDeps B_DtorBeforeDeps
    B_StartsComplete B_StopsClean B_AbortsWithError B_NeverRunsPartial
