CONSTANTS
  NC = 2
  Bug = {"D16"}
INIT Init
NEXT Next
INVARIANTS TypeOK RoundTrip NoLeadColon Fits OwnParser Idempotent PatternOK
