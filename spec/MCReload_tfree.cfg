\* thorough: every pair over two names x {login, dronecheck, bogus, absent}; FREE probe environment (every order of the data
\* items, well- and ill-shaped passwords, every reply kind, timeout, disconnect)
\* (checks/c17.py writes the same text with its own EmitMod / KeepOld)
CONSTANTS
  Services <- NoServices
  TimeoutOn = TRUE
  Bug <- NoBug
  MaxInst = 1
  MaxPw = 1
  EmitMod = 0
  NameOrder <- Names2
  RBug <- RB_none
  TypeWords <- Words3
  MaxRl = 1
  PreOn = FALSE
  Free = TRUE
  KeepOld = FALSE
INIT RInit
NEXT RNext
VIEW RView
ACTION_CONSTRAINT REmit
INVARIANT ProbeEq
INVARIANT ProbeLive
INVARIANT SlotsRefine
INVARIANT FreshWhenIdle
INVARIANT SlotsSane
INVARIANT TreeFollows
INVARIANT AbstractAgrees
INVARIANT FreshIsFresh
INVARIANT P01_once
INVARIANT P02_gate
INVARIANT P03_prompt
INVARIANT P04_stray
INVARIANT P05_content
INVARIANT P06_queries
INVARIANT P07_scope
INVARIANT P09_wire
INVARIANT P10_count
INVARIANT P17_config
INVARIANT HoldsSane
INVARIANT SerialsUnique
INVARIANT RefsCover
INVARIANT NoReadyLeft
