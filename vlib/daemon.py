"""Driver for the real iauthd-c daemon: renders spec events to IAuth input lines, feeds them
one step at a time (barrier = `-1 ? stats2`), parses what the daemon printed into the message
records of DESIGN.md Appendix B, and writes ndjson traces for spec/IAuthTrace.tla.

The driver makes no judgement about the properties: it only renders, parses and resolves
texts back to the references it sent (purely syntactic projections)."""
import json
import os
import re
import select
import signal
import subprocess
import time

UNLINKED_NOTICE = "The login server is currently disconnected.  Please excuse the inconvenience."
FILL = "abcdefghijklmnopqrstuvwxyz0123456789"


def mk_text(ref, n):
    """Deterministic text of exactly n characters for reference `ref`.
    refs starting with 'p' (credentials) contain exactly one space (account SP password);
    refs starting with 'sp' contain spaces and punctuation (real names, reply texts)."""
    if n <= 0:
        return ""
    base = ref + "."
    s = base
    k = 0
    while len(s) < n:
        s += FILL[(k * 7 + len(ref)) % len(FILL)]
        k += 1
    s = s[:n]
    if ref.startswith("as") and n >= len(ref) + 8:
        # account word with a ':stamp' suffix (name:timestamp:serial), no spaces
        s = list(s)
        s[n - 7] = ":"
        s[n - 3] = ":"
        for i in range(n - 6, n):
            if s[i] != ":":
                s[i] = "0123456789"[(i * 3 + len(ref)) % 10]
        s = "".join(s)
    elif ref.startswith("p") and n >= len(ref) + 3:
        i = len(ref) + 1
        s = s[:i] + " " + s[i + 1:]
    elif ref.startswith("sp") and n >= len(ref) + 4:
        s = list(s)
        # spaces and punctuation, and '%' followed by a letter or digit (a text that is ever used as a printf format shows)
        for i in range(len(ref) + 2, n - 1, 5):
            s[i] = " ,;!%"[(i // 5) % 5]
        s = "".join(s)
    return s


class Resolver:
    """Maps observed texts back to <<ref, len>> (exact match, else longest registered text of which
    the observed one is a proper prefix = a cut)."""

    def __init__(self):
        self.exact = {}
        self.texts = []
        self.raws = {}

    def add(self, ref, n):
        t = mk_text(ref, n)
        if t not in self.exact:
            self.exact[t] = ref
            self.texts.append((t, ref))
        return t

    def add_raw(self, text, ref):
        self.raws[text] = ref

    def resolve(self, s):
        if s == "":
            return ["", 0]
        r = self.exact.get(s)
        if r is not None:
            return [r, len(s)]
        for t, ref in self.texts:
            if t.startswith(s):
                return [ref, len(s)]
        return ["?", len(s)]

    def resolve_raw(self, s):
        """Whole password arguments (forwarded verbatim as MORE): <<ref, 0>> on an exact match."""
        r = self.raws.get(s)
        if r is not None:
            return [r, 0]
        for t, ref in self.raws.items():
            if t.startswith(s):
                return [ref, len(s)]
        return ["?", len(s)]


def default_addr_text(name):
    """Address text announced for address name `name` (spec events carry names)."""
    if name.startswith("A"):
        try:
            n = int(name[1:], 16)
            return "10.%d.%d.%d" % ((n >> 16) & 255, (n >> 8) & 255, n & 255)
        except ValueError:
            pass
    if name.startswith("T:"):       # literal text
        return name[2:]
    return "192.0.2.1"


def conf_text(moddir, svcs, timeout="1h", modules=("iauth_xquery",), rules=None, logs=None, extra=""):
    """Configuration file text, one entry per line (layout-independent of the parser fixes)."""
    if len(svcs) == 1 and svcs[0]["type"] == "@noxquery":
        # marker table: iauth_xquery is not loaded; the core module (and iauth_class, if asked for) only
        svcs = []
        modules = tuple(m for m in modules if m != "iauth_xquery") or ("iauth",)
        if "iauth_class" in modules:
            raise ValueError("iauth_class depends on iauth_xquery: it cannot be loaded without it")
        noxq = True
    else:
        noxq = False
    lines = ["core {", '  library_path ( "%s" )' % moddir, "  modules ( %s )" % ", ".join(modules), "}"]
    if timeout:
        lines += ["iauth {", "  timeout %s" % timeout, "}"]
    if not noxq:
        lines += ["iauth_xquery {"]
        for s in svcs:
            lines.append('  "%s" "%s"' % (s["name"], s["type"]))
        lines += ["}"]
    if rules is not None:
        lines += ["iauth_class {"]
        for r in rules:
            lines.append('  "%s" {' % r["name"])
            for k in ("class", "account", "address", "username", "hostname", "xreply_ok", "trust_username"):
                if k in r and r[k] is not None:
                    lines.append('    %s "%s"' % (k, r[k]))
            lines.append("  }")
        lines += ["}"]
    if logs:
        lines += ["logs {"]
        for k, v in logs:
            lines.append('  "%s" "%s"' % (k, v))
        lines += ["}"]
    if extra:
        lines.append(extra)
    return "\n".join(lines) + "\n"


_INT = re.compile(r"^-?\d+$")


class Daemon:
    """One daemon process, stepped line by line."""

    def __init__(self, build, workdir, svcs, timeout="1h", modules=("iauth_xquery",), rules=None, logs=None,
                 step_timeout=20.0, conf_extra="", addr_text=default_addr_text, debug=False, raw=False):
        self.build = build
        self.workdir = workdir
        self.svcs = svcs
        self.res = Resolver()
        self.raw = raw                # C09: records also carry every stdout line of the step, byte for byte
        self.last_raw = []
        self.addr_text = addr_text
        self.step_timeout = step_timeout
        self.conf_path = os.path.join(workdir, "d.conf")
        self.conf_args = dict(timeout=timeout, modules=modules, rules=rules, logs=logs, extra=conf_extra)
        with open(self.conf_path, "w") as f:
            f.write(conf_text(build.moddir, svcs, **self.conf_args))
        self.errpath = os.path.join(workdir, "stderr.%d" % id(self))
        self.errf = open(self.errpath, "wb")
        env = dict(os.environ)
        env["ASAN_OPTIONS"] = "detect_leaks=1:exitcode=97:allocator_may_return_null=1"
        env["UBSAN_OPTIONS"] = "print_stacktrace=0"
        env["LSAN_OPTIONS"] = "exitcode=98"
        args = [build.daemon, "-n", "-f", self.conf_path]
        if debug:
            args.insert(1, "-d")
        self.p = subprocess.Popen(args, stdin=subprocess.PIPE, stdout=subprocess.PIPE, stderr=self.errf,
                                  cwd=workdir, env=env, bufsize=0)
        self.buf = b""
        self.dead = False
        self.banner = []
        self.banner_raw = []
        # read the start-up banner up to the policy line; without iauth_xquery no module declares a policy and no "O" line
        # is written, so the end of the banner is found with a barrier
        noxq = len(svcs) == 1 and svcs[0]["type"] == "@noxquery"
        while True:
            ln = self._readline(self.step_timeout)
            if ln is None:
                self.dead = True
                break
            self.banner_raw.append(ln)
            if ln.startswith(b"O "):
                break
            if noxq and ln.startswith(b"V "):
                lines, n = self.raw_step(b"")
                self.banner_raw += lines
                if n is None:
                    self.dead = True
                break

    # ---- low level ----------------------------------------------------------------------------
    def _readline(self, timeout):
        deadline = time.time() + timeout
        while b"\n" not in self.buf:
            rem = deadline - time.time()
            if rem <= 0:
                return None
            r, _, _ = select.select([self.p.stdout], [], [], rem)
            if not r:
                return None
            chunk = os.read(self.p.stdout.fileno(), 65536)
            if not chunk:
                return None
            self.buf += chunk
        i = self.buf.index(b"\n")
        ln, self.buf = self.buf[:i], self.buf[i + 1:]
        return ln

    def raw_step(self, data):
        """Send bytes (one or more complete lines) then the barrier; return (lines, inuse) or (lines, None)
        if the daemon died / hung before the barrier completed."""
        if self.dead:
            return [], None
        try:
            os.write(self.p.stdin.fileno(), data + b"-1 ? stats2\n")
        except OSError:
            self.dead = True
            return [], None
        lines = []
        inuse = None
        in_stats = False
        self.last_raw = []
        while True:
            ln = self._readline(self.step_timeout)
            if ln is None:
                self.dead = True
                return lines, None
            self.last_raw.append(ln)
            if ln == b"s":
                break
            if ln.startswith(b"S "):
                if not in_stats:
                    in_stats = True
                    m = re.match(rb"S iauth :\d+-\d+ reqs alloc, (\d+) in use;", ln)
                    if m:
                        inuse = int(m.group(1))
                continue
            if in_stats:
                continue
            lines.append(ln)
        return lines, (inuse if inuse is not None else -1)

    def barrier(self):
        return self.raw_step(b"")

    def signal(self, sig):
        self.p.send_signal(sig)

    def close(self, wait=15.0):
        """EOF on stdin; returns (exit status or None if it had to be killed, sanitizer text, ubsan notes)."""
        try:
            self.p.stdin.close()
        except OSError:
            pass
        try:
            rc = self.p.wait(timeout=wait)
        except subprocess.TimeoutExpired:
            self.p.kill()
            self.p.wait()
            rc = None
        self.errf.close()
        with open(self.errpath, "rb") as f:
            err = f.read().decode(errors="replace")
        try:
            os.unlink(self.errpath)
        except OSError:
            pass
        san = ""
        m = re.search(r"(ERROR: (AddressSanitizer|LeakSanitizer)[^\n]*)", err)
        if m:
            i = err.find(m.group(1))
            san = err[i:i + 1500]
        ub = sorted(set(re.findall(r"runtime error: [^\n]*", err)))
        return rc, san, ub

    def kill(self):
        try:
            self.p.kill()
            self.p.wait()
        except Exception:
            pass
        try:
            self.errf.close()
            os.unlink(self.errpath)
        except Exception:
            pass

    # ---- rendering events ------------------------------------------------------------------------
    def render(self, e):
        k = e["e"]
        i = e.get("id")
        R = self.res
        if k == "C":
            return "%d C %s %d 10.9.8.7 6667" % (i, self.addr_text(e["addr"]), e["port"])
        if k == "N":
            return "%d N %s" % (i, R.add(*e["host"]))
        if k == "d":
            return "%d d" % i
        if k == "u":
            return "%d u %s" % (i, R.add(*e["ident"]))
        if k == "u0":
            return "%d u" % i
        if k == "n":
            return "%d n %s" % (i, R.add(*e["nick"]))
        if k == "U":
            return "%d U %s :%s" % (i, R.add(*e["user"]), R.add(*e["real"]))
        if k == "H":
            return "%d H Others" % i
        if k == "P":
            sh = e["shape"]
            if sh == "ok":
                arg = "".join(e["modes"]) + " " + R.add(*e["cred"])
            elif sh == "nomode":
                arg = "plain " + R.add(*e["cred"])
            elif sh == "nosp":
                arg = "+x!"
            elif sh == "nosep":
                arg = "+x justoneword"
            else:
                raise ValueError(sh)
            R.add_raw(arg, e["raw"][0])
            return "%d P :%s" % (i, arg)
        if k in ("D", "T"):
            return "%d %s" % (i, k)
        if k == "TO":
            return "%d ! timeout" % i
        if k == "X":
            kind = e["kind"]
            if kind == "UNL":
                return "-1 x %s %s :Server not online" % (e["svc"], e["tag"])
            if kind == "OK":
                rep = "OK"
            elif kind == "OKA":
                rep = "OK " + R.add(*e["acct"]) + e.get("trail", "")
            elif kind == "OKE":
                rep = "OK "
            elif kind in ("NO", "AGAIN", "MORE"):
                rep = kind + " " + R.add(*e["text"])
            elif kind == "JUNK":
                rep = "HELLO there"
            else:
                raise ValueError(kind)
            return "-1 X %s %s :%s" % (e["svc"], e["tag"], rep)
        if k == "J":
            sh = e["shape"]
            if sh == "m1":
                return "-1 %s foo" % e["cmd"]
            if sh == "Ushort":
                return "%d U name" % i
            f = e["form"]
            return {"idonly": "%d" % i, "blank": "   ", "nopar": "%d N" % i, "noparP": "%d P" % i,
                    "noparn": "%d n" % i, "unkcmd": "%d Z foo bar" % i, "shortC": "%d C 1.2.3.4" % i,
                    "shortX": "-1 X a1.svc", "shortx": "-1 x a1.svc %x_1" % i, "unkid": "%d N host.example" % (i + 1000),
                    "info": "-1 ? bogus", "infoshort": "-1 ?", "Eline": "%d E type :info text" % i,
                    "Mline": "-1 M some.server 100",
                    "many": "%d Z a b c d e f g h i j k l m n o p q r s t" % (i + 1000),
                    "long": "%d Z %s" % (i + 1000, "y" * 5000)}[f]
        if k == "QC":
            return "-1 ? config"
        if k == "B":
            # e.n short-lived other clients, in one write: announce + withdraw, ids from e.id0 upwards
            return "\n".join("%d C 10.250.%d.%d 4000 10.9.8.7 6667\n%d D" % (e["id0"] + (j % 1000), (j >> 8) & 255, j & 255,
                                                                          e["id0"] + (j % 1000)) for j in range(e["n"]))
        raise ValueError("cannot render event %r" % (e,))

    # ---- parsing output -----------------------------------------------------------------------------
    def parse_line(self, raw):
        try:
            ln = raw.decode("ascii")
        except UnicodeDecodeError:
            return {"k": "BAD", "raw": list(raw[:200])}
        bad = {"k": "BAD", "raw": [ord(c) for c in ln[:200]]}
        R = self.res
        if ln.startswith("> :"):
            return {"k": ">", "text": ln[3:]}
        if ln == "a":
            return {"k": "a"}
        w = ln.split(" ")
        k = w[0]
        if k == "X":
            if len(w) < 4 or not w[3].startswith(":"):
                return bad
            svc, tag = w[1], w[2]
            q = ln.split(" :", 1)[1]
            qw = q.split(" ")
            m = {"k": "X", "svc": svc, "tag": tag, "q": qw[0]}
            if qw[0] == "CHECK":
                head, sep, real = q.partition(" :")
                hw = head.split(" ")
                if not sep or len(hw) != 5:
                    return bad
                m.update(nick=R.resolve(hw[1]), user=self._user(hw[2]), atext=hw[3], host=self._host(hw[4], hw[3]),
                         real=R.resolve(real))
            elif qw[0] == "LOGIN":
                m.update(cred=R.resolve(q[6:]))
            elif qw[0] == "LOGIN2":
                if len(qw) < 5:
                    return bad
                m.update(atext=qw[1], host=self._host(qw[2], qw[1]), user=self._user(qw[3]),
                         cred=R.resolve(" ".join(qw[4:])))
            elif qw[0] == "MORE":
                m.update(raw=R.resolve_raw(q[5:]))
            else:
                m.update(text=q[:80])       # a query of an unknown kind (the contract has no rule that allows it)
            return m
        if k == "A":
            # A <module> :<text>
            if len(w) < 3 or not w[2].startswith(":"):
                return bad
            txt = ln.split(" :", 1)[1]
            if w[1] == "xquery" and len(txt) > 1 and txt[0] in " -" and " " in txt[1:]:
                name, typ = txt[1:].split(" ", 1)
                return {"k": "A", "mod": "xquery", "conf": txt[0] == " ", "name": name, "type": typ}
            return {"k": "A", "mod": w[1], "text": txt}
        if k in ("D", "R", "k", "d", "C", "M", "U", "N", "I", "o", "u"):
            if len(w) < 4 or not _INT.match(w[1]) or not _INT.match(w[3]):
                return bad
            m = {"k": k, "id": int(w[1]), "atext": w[2], "port": int(w[3])}
            rest = w[4:]
            if k == "D":
                if len(rest) > 1:
                    return bad
                m["cls"] = rest[0] if rest else ""
            elif k == "R":
                if not 1 <= len(rest) <= 2:
                    return bad
                m["acct"] = R.resolve(rest[0])
                m["cls"] = rest[1] if len(rest) > 1 else ""
            elif k == "d":
                if rest:
                    return bad
            elif k in ("k", "C"):
                if not rest or not rest[0].startswith(":"):
                    return bad
                txt = ln.split(" :", 1)[1]
                m["text"] = ["@unlinked", 0] if (k == "C" and txt == UNLINKED_NOTICE) else R.resolve(txt)
            elif k == "M":
                if not rest or not rest[0].startswith(":"):
                    return bad
                m["modes"] = ln.split(" :", 1)[1]
            else:
                if len(rest) != 1:
                    return bad
                m["name"] = R.resolve(rest[0])
            return m
        return bad

    def _user(self, s):
        if s == "":
            return [0, "", 0]
        r = self.res.resolve(s)
        if r[0] != "?":
            return [0, r[0], r[1]]
        if s.startswith("~"):
            r = self.res.resolve(s[1:])
            return [1, r[0], r[1]]
        return [0, "?", len(s)]

    def _host(self, s, atext):
        if s == atext:
            return ["@addr", 0]
        return self.res.resolve(s)

    # ---- one step ------------------------------------------------------------------------------------
    def step(self, e, line=None):
        """Feed event e; returns a trace record."""
        data = (line if line is not None else self.render(e))
        if isinstance(data, str):
            data = data.encode()
        lines, n = self.raw_step(data + b"\n")
        out = [self.parse_line(l) for l in lines]
        if n is None:
            return {"e": "Crash", "ev": e, "partial": out}
        rec = {"e": "S", "ev": e, "o": out, "n": n}
        if self.raw:
            rec["raw"] = [list(l) for l in self.last_raw]
            if e.get("e") == "C":
                rec["ev"] = dict(e, sent=[ord(c) for c in self.addr_text(e["addr"])])
        return rec


def reset_record(svcs, timeout_on, extra=None, cls=None):
    r = {"e": "Reset", "cfg": {"svcs": svcs, "timeout": bool(timeout_on)}}
    if cls:
        r["cfg"]["cls"] = cls
    if extra:
        r.update(extra)
    return r


_TAG = re.compile(r"^([0-9a-f]+)_([0-9a-f]+)$")


class TagResolver:
    """Routing tags of a model behaviour -> tags of the running daemon, and the instance the environment means.

    A model behaviour is generated from the model's initial state, so its tag "<id>_<s>" names the client announced by
    the behaviour's s-th C line.  The real tag of that instance is taken from the X lines the daemon itself printed for it
    (first one seen); only if none was printed yet it is predicted as "<id>_<offset + s>".  Every rewritten reply also
    gets ti / tn = the client id and the announcement number (per daemon process) of the instance it is meant for, so
    that the contract can tell a reply meant for a departed instance from one meant for the current one even if the
    daemon re-used the tag text.  Purely syntactic bookkeeping; no judgement."""

    def __init__(self, offset, gens):
        self.offset = offset          # C lines seen by this daemon process before the behaviour
        self.gens = gens              # id -> announcements so far in this process (shared across behaviours)
        self.count = 0
        self.inst = []                # s-1 -> (id, gen)
        self.real = {}                # (id, gen) -> tag printed by the daemon
        self.cur = {}                 # id -> gen of its latest announcement

    def event(self, e):
        if e["e"] == "C":
            self.count += 1
            g = self.gens.get(e["id"], 0) + 1
            self.gens[e["id"]] = g
            self.inst.append((e["id"], g))
            self.cur[e["id"]] = g
            return e
        if e["e"] == "B":
            self.count += e["n"]
            self.inst += [(-1, 0)] * e["n"]
            return e
        if e["e"] != "X":
            return e
        m = _TAG.match(e["tag"])
        if not m:
            return e
        i, sr = int(m.group(1), 16), int(m.group(2), 16)
        if not (1 <= sr <= len(self.inst)) or self.inst[sr - 1][0] != i:
            return e
        e = dict(e)
        g = self.inst[sr - 1][1]
        e["tag"] = self.real.get((i, g), "%x_%x" % (i, sr + self.offset))
        e["ti"], e["tn"] = i, g
        return e

    def observe(self, e, rec):
        """Learn real tags from the X lines of a step about client e.id."""
        i = e.get("id")
        if i is None or rec.get("e") != "S" or i not in self.cur:
            return
        key = (i, self.cur[i])
        if key in self.real:
            return
        for m in rec["o"]:
            if m.get("k") == "X":
                t = _TAG.match(m.get("tag", ""))
                if t and int(t.group(1), 16) == i:
                    self.real[key] = m["tag"]
                    return


class TagMap:
    """Rewrites the routing tags of a model behaviour (generated from the model's initial state, serial 0)
    to the serials of a longer-running daemon: real serial = offset + model serial."""

    def __init__(self, offset):
        self.offset = offset
        self.count = 0

    def event(self, e):
        if e["e"] == "C":
            self.count += 1
        if e["e"] == "X" and self.offset:
            m = _TAG.match(e["tag"])
            if m:
                e = dict(e)
                e["tag"] = "%s_%x" % (m.group(1), int(m.group(2), 16) + self.offset)
        return e
