SPECIFICATION MCSpec
CONSTANTS Keys = {1, 2, 3}
  StaleMode = "all"
  BugStaleLinks = TRUE
VIEW View
INVARIANTS TypeOK SearchTreeOrder TreeIsAllNodes ListIsInOrder CountOK
PROPERTY Refines
