CONSTANTS
  ARGV = 2
  Bug <- BugArgvLe
  Alphabet <- Sigma4
  MaxLen = 6
  MaxChunk = 6
  Streams <- AllStreams
INIT RInit
NEXT RNext
INVARIANT DeliveredIsContract
INVARIANT BufferIsTail
INVARIANT ArgvInBounds
INVARIANT EofClean
