INIT TInit
NEXT TNext
