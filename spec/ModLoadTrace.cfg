\* C20 oracle: every line of IOEnv.TRACE (one start of the real daemon) against the contract.
\* Run with deadlock checking ON: a malformed line is not consumed and shows up as a deadlock.
SPECIFICATION TraceSpec
INVARIANTS
    A_CtorOnce_ A_DepsConstructedFirst_ A_PostInitOnce_ A_PostInitAfterDeps_ A_DtorBeforeDeps_
    A_StartsComplete_ A_StopsClean_ A_AbortsWithError_ A_NeverRunsPartial_
POSTCONDITION AllJudged
