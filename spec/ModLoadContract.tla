-------------------------- MODULE ModLoadContract --------------------------
(***************************************************************************)
(* C20 -- (A) the ordering contract of module load / post-init / unload,   *)
(* stated over what can be observed from outside the loader:               *)
(*                                                                         *)
(*   * the case:  n modules named 1..n (name order = numeric order),       *)
(*     deps[m]  = the modules m's constructor declares with                *)
(*                module_depends(), in call order,                         *)
(*     list     = the `modules` list of the configuration, in order,       *)
(*     missing  = modules for which no shared object exists,               *)
(*     nopost   = modules whose shared object has no module_post_init,     *)
(*     nodtor   = modules whose shared object has no module_destructor,    *)
(*     noctor   = modules whose shared object has no module_constructor    *)
(*                (all three entry points are optional; "hook profile";    *)
(*                a module without a constructor cannot call               *)
(*                module_depends(): deps[m] = <<>> for every m in noctor); *)
(*   * the event log written by the modules' own entry points              *)
(*     (ctor-begin / ctor-end / post-init / dtor, with the module), plus   *)
(*     "running" = the process was observed inside main()'s event loop;    *)
(*   * the exit status of the process.                                     *)
(*                                                                         *)
(* Pure operators, no variables: ModLoad.tla evaluates them on the log the *)
(* implementation-shaped model (B) produces, ModLoadTrace.tla evaluates    *)
(* them on the log the real daemon produced.  Every conjunct is tagged     *)
(* with the sentence of property C20 it encodes.                           *)
(*                                                                         *)
(* Reading of the property (reported for DESIGN.md section 9):             *)
(*  - "declared dependencies" = module_depends(), and the same edge       *)
(*    declared from its other end with module_antidepends() (README: the   *)
(*    caller "is a back-end provider for some other module, and must be    *)
(*    unloaded after it"; module.h: "treated as a dependency of that       *)
(*    module").  The construction-order sentence is about module_depends() *)
(*    edges, and exempts a dependency whose own constructor encloses the   *)
(*    module's (a provider that loads its consumer from inside its own     *)
(*    constructor cannot be fully constructed first: Encloses);            *)
(*    module_is_backend() is outside the contract and never generated.     *)
(*  - All ordering sentences are scoped by "for every acyclic dependency   *)
(*    graph", so they are required of GOOD cases only (needed part of the  *)
(*    graph acyclic, every needed module loadable).                        *)
(*  - "A genuine dependency cycle or an unloadable module aborts start-up  *)
(*    with an error instead of running partially initialised" (BAD case)   *)
(*    is read as: the process ends by itself with a non-zero exit status   *)
(*    and is never observed in the event loop.  Post-inits of modules off  *)
(*    the cycle that ran before the loop was detected, destructors run or  *)
(*    not run on the way out, and the wording of the message are left      *)
(*    open (the code post-inits finished dependencies before it meets the  *)
(*    cycle, and LOG_FATAL leaves through _exit()).                        *)
(*  - A GOOD case must start: it reaches the event loop with every needed  *)
(*    module constructed and post-initialised exactly once, and after the  *)
(*    clean-stop signal runs every destructor exactly once and exits 0.    *)
(*    (D12 -- a diamond refused as a "loop" -- is a violation of this.)    *)
(*  - Optional entry points.  module_post_init and module_destructor are   *)
(*    optional.  "its post-init runs exactly once" and "its destructor     *)
(*    runs" are required of the modules that HAVE the entry point; a       *)
(*    module without it contributes no event.  The ORDER sentences relate  *)
(*    the events that exist: they are stated over the transitive closure   *)
(*    of the FULL dependency relation (DependsOnPlus), restricted          *)
(*    afterwards to the modules that have the entry point.  So if a        *)
(*    depends on b depends on c and b has no destructor, a's destructor    *)
(*    must still run before c's; the same for post-init in the other       *)
(*    direction.  The structural sentences do not depend on the profile:   *)
(*    every needed module is constructed once, dependencies first, and a   *)
(*    module that is merely reachable along two paths -- with or without   *)
(*    hooks -- is no cycle: the case is GOOD and must start.               *)
(*  - module_constructor is optional too.  A module without it (a plain    *)
(*    library of helper functions; it can declare no dependencies, so it   *)
(*    is a leaf of the graph) writes no ctor-begin / ctor-end.  "Each      *)
(*    module is constructed once" and "its dependencies are fully          *)
(*    constructed before it finishes constructing" relate the constructor  *)
(*    events that exist: a constructor-less dependency counts as           *)
(*    constructed once the loader has loaded it, which no entry point of   *)
(*    it can witness, so the contract places no constructor requirement on *)
(*    it.  Everything else applies to it as to any other module: it is     *)
(*    needed when named or pulled in, it is no cycle, its post-init and    *)
(*    its destructor (if it has them) are owed exactly once and in order,  *)
(*    and the modules that depend on it are owed theirs.                   *)
(***************************************************************************)
EXTENDS Naturals, Integers, Sequences, FiniteSets

Range(s) == {s[i] : i \in 1..Len(s)}

(* ---------------- the graph side ---------------- *)

\* Dependencies are declared from either end: module_depends(d) in the constructor of m ("m depends on d": c.deps[m]),
\* or module_antidepends(q) in the constructor of a back-end p ("p is a back-end provider for q and must be unloaded
\* after it", README; "treated as a dependency of that module", module.h: q depends on p; c.anti[p], optional field).
\* edges out of a module that cannot be loaded are never declared
AntiSeq(c, p) == IF "anti" \in DOMAIN c THEN c.anti[p] ELSE <<>>
Decl(c, m) == IF m \in c.missing THEN {} ELSE Range(c.deps[m])
\* loading m makes the loader load these too
Pull(c, m) == IF m \in c.missing THEN {} ELSE Range(c.deps[m]) \cup Range(AntiSeq(c, m))

RECURSIVE PullClosure(_, _)
PullClosure(c, S) == LET T == S \cup UNION {Pull(c, m) : m \in S}
                     IN  IF T = S THEN S ELSE PullClosure(c, T)

\* modules named in the configuration or pulled in by others
Needed(c) == PullClosure(c, Range(c.list))

\* what m depends on: what it names itself, and the loaded back-ends that name it
Succ(c, m) == Decl(c, m) \cup {p \in Needed(c) \ c.missing : m \in Range(AntiSeq(c, p))}

RECURSIVE Closure(_, _)
Closure(c, S) == LET T == S \cup UNION {Succ(c, m) : m \in S}
                 IN  IF T = S THEN S ELSE Closure(c, T)


\* everything m depends on, directly or not (m itself only if it lies on a cycle)
DependsOnPlus(c, m) == Closure(c, Succ(c, m))

Cyclic(c)     == \E m \in Needed(c) : m \in DependsOnPlus(c, m)
Unloadable(c) == Needed(c) \cap c.missing # {}
Good(c)       == ~Cyclic(c) /\ ~Unloadable(c)

\* the hook profile: which modules have the optional entry points
HasPost(c, m) == m \notin c.nopost
HasDtor(c, m) == m \notin c.nodtor
HasCtor(c, m) == m \notin c.noctor
\* everything m depends on, directly or through ANY modules, that has the entry point itself
PostDepsOf(c, m) == {d \in DependsOnPlus(c, m) : HasPost(c, d)}
DtorDepsOf(c, m) == {d \in DependsOnPlus(c, m) : HasDtor(c, d)}

(* ---------------- the log side ---------------- *)

Ev(e, m)       == [e |-> e, m |-> m]
Pos(log, e, m) == {i \in 1..Len(log) : log[i] = Ev(e, m)}
Count(log, e, m) == Cardinality(Pos(log, e, m))
Before(log, e, m, i) == \E j \in 1..(i - 1) : log[j] = Ev(e, m)
IsRunning(log) == \E i \in 1..Len(log) : log[i].e = "running"

Kinds == {"ctor-begin", "ctor-end", "post-init", "dtor", "running"}

\* shape of one observed case (machinery, not property)
WellFormed(c, log, status) ==
    /\ c.n \in 1..8
    /\ DOMAIN c.deps = 1..c.n
    /\ \A m \in 1..c.n : Range(c.deps[m]) \subseteq 1..c.n
    /\ Len(c.list) >= 1 /\ Range(c.list) \subseteq 1..c.n
    /\ c.missing \subseteq 1..c.n
    /\ c.nopost \subseteq 1..c.n /\ c.nodtor \subseteq 1..c.n /\ c.noctor \subseteq 1..c.n
    \* without a constructor there is nobody to call module_depends()
    /\ \A m \in c.noctor : c.deps[m] = <<>> /\ AntiSeq(c, m) = <<>>
    /\ "anti" \in DOMAIN c => DOMAIN c.anti = 1..c.n /\ \A m \in 1..c.n : Range(c.anti[m]) \subseteq (1..c.n) \ {m}
    /\ \A i \in 1..Len(log) : /\ log[i].e \in Kinds
                              /\ log[i].m \in (IF log[i].e = "running" THEN {0} ELSE 1..c.n)
                              \* an entry point the shared object does not contain cannot have written a line
                              /\ log[i].e = "post-init" => HasPost(c, log[i].m)
                              /\ log[i].e = "dtor" => HasDtor(c, log[i].m)
                              /\ log[i].e \in {"ctor-begin", "ctor-end"} => HasCtor(c, log[i].m)
    /\ status \in Int

(* ---- GOOD cases: "For every acyclic dependency graph among the modules named in the ---- *)
(* ---- configuration or pulled in by others ..."                                      ---- *)

\* "... each module is constructed once ..."  (and the constructor is the first entry point called);
\* at most once, and never for a module without the entry point ("at least once" for the modules that
\* have it is A_StartsComplete); a module without a constructor has no first entry point to wait for
A_CtorOnce(c, log) ==
    \A m \in 1..c.n :
        /\ Count(log, "ctor-begin", m) <= (IF HasCtor(c, m) THEN 1 ELSE 0)
        /\ Count(log, "ctor-end", m) <= (IF HasCtor(c, m) THEN 1 ELSE 0)
        /\ \A i \in 1..Len(log) :
              /\ log[i] = Ev("ctor-end", m) => Before(log, "ctor-begin", m, i)
              /\ (HasCtor(c, m) /\ log[i] \in {Ev("post-init", m), Ev("dtor", m)})
                    => Before(log, "ctor-end", m, i)

\* "... its dependencies are fully constructed before it finishes constructing ..."
\* (a dependency without a constructor is constructed as soon as it is loaded and has no event to show it)
\* (a back-end that pulls its consumer in with module_antidepends() is still inside its own constructor while the consumer -
\* and whatever the consumer pulls in - is constructed: a dependency whose constructor encloses the module's own cannot be
\* complete first and is exempt; nothing else is)
Encloses(log, d, m, i) ==
    \E j \in 1..(i - 1) : /\ log[j] = Ev("ctor-begin", d)
                           /\ \E k \in (j + 1)..(i - 1) : log[k] = Ev("ctor-begin", m)
                           /\ \A q \in j..i : log[q] # Ev("ctor-end", d)
A_DepsConstructedFirst(c, log) ==
    \A i \in 1..Len(log) :
        log[i].e = "ctor-end" =>
            \A d \in Range(c.deps[log[i].m]) :
                HasCtor(c, d) => Before(log, "ctor-end", d, i) \/ Encloses(log, d, log[i].m, i)

\* "... its post-init runs exactly once ..."   (at most once, and never for a module without the entry
\* point; "at least once" for the modules that have it is A_StartsComplete)
A_PostInitOnce(c, log) ==
    \A m \in 1..c.n : Count(log, "post-init", m) <= (IF HasPost(c, m) THEN 1 ELSE 0)

\* "... and after those of everything it depends on (also when a module is reachable along two paths) ..."
\* everything it depends on, directly or through other modules (with or without a post-init of their
\* own), that has a post-init
A_PostInitAfterDeps(c, log) ==
    \A i \in 1..Len(log) :
        log[i].e = "post-init" =>
            \A d \in PostDepsOf(c, log[i].m) : Before(log, "post-init", d, i)

\* "... and at shutdown its destructor runs before the destructors of the modules it depends on."
\* the modules it depends on, directly or through other modules (with or without a destructor of
\* their own), that have a destructor
A_DtorBeforeDeps(c, log) ==
    /\ \A m \in 1..c.n : Count(log, "dtor", m) <= (IF HasDtor(c, m) THEN 1 ELSE 0)
    /\ \A i \in 1..Len(log) :
          log[i].e = "dtor" =>
              \A d \in DtorDepsOf(c, log[i].m) : ~Before(log, "dtor", d, i)

\* a GOOD case starts up: it is seen running exactly once, and by then every needed module has
\* been constructed -- if it has a constructor -- and -- if it has a post-init -- post-initialised
\* (exactly once, by the conjuncts above) and none destroyed.  Whatever the hook profile: a graph
\* without a cycle must start.
A_StartsComplete(c, log) ==
    /\ Cardinality({i \in 1..Len(log) : log[i].e = "running"}) = 1
    /\ \A i \in 1..Len(log) :
          log[i].e = "running" =>
              /\ \A m \in Needed(c) : /\ HasCtor(c, m) => Before(log, "ctor-end", m, i)
                                      /\ HasPost(c, m) => Before(log, "post-init", m, i)
              /\ \A m \in 1..c.n : ~Before(log, "dtor", m, i)

\* after the clean-stop signal the destructor of every needed module that has one has run, and the
\* exit status is 0
A_StopsClean(c, log, status) ==
    /\ status = 0
    /\ \A m \in Needed(c) : HasDtor(c, m) => Count(log, "dtor", m) = 1

(* ---- BAD cases: "A genuine dependency cycle or an unloadable module aborts start-up ---- *)
(* ---- with an error instead of running partially initialised."                       ---- *)

\* "aborts with an error": the process ends by itself with a failure status - not killed by a memory fault (128 + SIGSEGV
\* / SIGBUS as reported by the wrapper, or the sanitizer's own exit code 97), not after a hang (124: the wrapper's time limit,
\* 137: SIGKILL).  An abort() of the daemon itself (134) is accepted as an abort with an error.
CrashStatus == {97, 124, 135, 137, 139}
A_AbortsWithError(c, log, status)  == status # 0 /\ status \notin CrashStatus
A_NeverRunsPartial(c, log)         == ~IsRunning(log)

(* ---- the whole contract, one named conjunct at a time ---- *)

Conjuncts == {"A_CtorOnce", "A_DepsConstructedFirst", "A_PostInitOnce", "A_PostInitAfterDeps",
              "A_DtorBeforeDeps", "A_StartsComplete", "A_StopsClean",
              "A_AbortsWithError", "A_NeverRunsPartial"}

Holds(name, c, log, status) ==
    \* "For every acyclic dependency graph ...": the at-most-once and destructor-order sentences are required of every
    \* acyclic case, also one that is refused because a module cannot be loaded (whatever runs on the way out of a
    \* refused start-up runs at most once and in dependency order); the others need the start-up to succeed
    CASE name = "A_CtorOnce"             -> ~Cyclic(c) => A_CtorOnce(c, log)
      [] name = "A_DepsConstructedFirst" -> Good(c) => A_DepsConstructedFirst(c, log)
      [] name = "A_PostInitOnce"         -> ~Cyclic(c) => A_PostInitOnce(c, log)
      [] name = "A_PostInitAfterDeps"    -> Good(c) => A_PostInitAfterDeps(c, log)
      [] name = "A_DtorBeforeDeps"       -> ~Cyclic(c) => A_DtorBeforeDeps(c, log)
      [] name = "A_StartsComplete"       -> Good(c) => A_StartsComplete(c, log)
      [] name = "A_StopsClean"           -> Good(c) => A_StopsClean(c, log, status)
      [] name = "A_AbortsWithError"      -> ~Good(c) => A_AbortsWithError(c, log, status)
      [] name = "A_NeverRunsPartial"     -> ~Good(c) => A_NeverRunsPartial(c, log)

Contract(c, log, status) == \A name \in Conjuncts : Holds(name, c, log, status)

\* classification used for coverage counting only
Class(c) == IF Good(c) THEN "good" ELSE IF Unloadable(c) THEN "unloadable" ELSE "cyclic"
=============================================================================
