SPECIFICATION MCSpec
CONSTANTS Keys = {1, 2, 3}
  StaleMode = "poison"
  BugStaleLinks = FALSE
VIEW View
INVARIANTS TypeOK SearchTreeOrder TreeIsAllNodes ListIsInOrder CountOK InsertIgnoresStale
PROPERTY Refines
