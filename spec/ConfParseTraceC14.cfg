SPECIFICATION Spec
INVARIANT C14_Total
INVARIANT C14_Atomic
INVARIANT C14_NoNotify
INVARIANT C14_PostState
INVARIANT Gen_Render
INVARIANT Gen_Typed
INVARIANT C16_Accepted
INVARIANT C16_ReadBack
INVARIANT C16_Spelling
INVARIANT C16_TypedGood
INVARIANT C16_TypedBad
INVARIANT Drift_ParseAgrees
