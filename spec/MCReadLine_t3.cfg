CONSTANTS
  ARGV = 3
  Bug <- NoBug
  Alphabet <- Sigma4
  MaxLen = 8
  MaxChunk = 8
  Streams <- AllStreams
INIT RInit
NEXT RNext
INVARIANT DeliveredIsContract
INVARIANT BufferIsTail
INVARIANT ArgvInBounds
INVARIANT EofClean
