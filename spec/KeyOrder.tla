------------------------------ MODULE KeyOrder ------------------------------
(***************************************************************************)
(* The mathematical order each stock comparator of src/set.c stands for,   *)
(* over the representations the harness logs (C19, "with any of the stock  *)
(* comparators over their whole key domain").                              *)
(*                                                                         *)
(* set_compare_charp is strcasecmp() in the C locale: the two strings are  *)
(* compared byte by byte (unsigned character codes) after mapping          *)
(* 'A'..'Z' (65..90) to 'a'..'z' (97..122) AND NOTHING ELSE; a proper      *)
(* prefix is smaller.  Hence '@' (64) and '[' '\' ']' '^' '_' '`' (91..96) *)
(* are smaller than every letter, '{' '|' (123, 124) are greater, no two   *)
(* of these characters are equal, and "" is the least key.                 *)
(* A string is a sequence of character codes.                              *)
(***************************************************************************)
EXTENDS Integers, Sequences

RECURSIVE LexLess(_, _)
LexLess(a, b) == IF b = <<>> THEN FALSE ELSE IF a = <<>> THEN TRUE
                 ELSE IF a[1] # b[1] THEN a[1] < b[1] ELSE LexLess(Tail(a), Tail(b))
FoldChar(c) == IF c \in 65..90 THEN c + 32 ELSE c                 \* the ONLY characters strcasecmp changes
Fold(s) == [i \in 1..Len(s) |-> FoldChar(s[i])]                   \* what strcasecmp compares
StrCaseLess(a, b)  == LexLess(Fold(a), Fold(b))                   \* set_compare_charp(a, b) < 0
StrCaseEqual(a, b) == Fold(a) = Fold(b)                           \* set_compare_charp(a, b) = 0
IntLess(a, b) == \* [sign, high 16 bits, low 16 bits of the magnitude]
    IF a[1] # b[1] THEN a[1] < b[1]
    ELSE IF a[1] = 1 THEN LexLess(<<a[2], a[3]>>, <<b[2], b[3]>>) ELSE LexLess(<<b[2], b[3]>>, <<a[2], a[3]>>)

-----------------------------------------------------------------------------
(* Sanity of the definition (checked by TLC as ASSUMEs of MCKeyOrder): over all strings of length <= 2 made
   of the characters around the two letter ranges it is a strict total order on the classes of StrCaseEqual. *)
Boundary == {48, 57, 64, 65, 90, 91, 92, 93, 94, 95, 96, 97, 122, 123, 124}   \* 0 9 @ A Z [ \ ] ^ _ ` a z { |
BStrings == {<<>>} \cup {<<c>> : c \in Boundary} \cup {<<c, d>> : c, d \in Boundary}
One(a, b, c) == (a /\ ~b /\ ~c) \/ (~a /\ b /\ ~c) \/ (~a /\ ~b /\ c)
Trichotomy   == \A s, t \in BStrings : One(StrCaseLess(s, t), StrCaseEqual(s, t), StrCaseLess(t, s))
Transitive   == \A s, t, u \in {<<>>} \cup {<<c>> : c \in Boundary} \cup {<<97, c>> : c \in Boundary} :
                    StrCaseLess(s, t) /\ StrCaseLess(t, u) => StrCaseLess(s, u)
EqualIsCaseOnly == \A s, t \in BStrings : StrCaseEqual(s, t) <=>
                      /\ Len(s) = Len(t)
                      /\ \A i \in 1..Len(s) : s[i] = t[i] \/ {s[i], t[i]} \in {{65, 97}, {90, 122}}
Landmarks == /\ StrCaseLess(<<>>, <<48>>) /\ StrCaseLess(<<57>>, <<64>>)
             /\ StrCaseLess(<<64>>, <<91>>) /\ StrCaseLess(<<91>>, <<92>>) /\ StrCaseLess(<<95>>, <<96>>)
             /\ StrCaseLess(<<96>>, <<65>>) /\ StrCaseLess(<<96>>, <<97>>)          \* ` < A = a
             /\ StrCaseLess(<<91>>, <<65>>) /\ StrCaseLess(<<91>>, <<122>>)         \* [ < every letter
             /\ StrCaseLess(<<90>>, <<123>>) /\ StrCaseLess(<<122>>, <<123>>)       \* Z = z < {
             /\ ~StrCaseEqual(<<91>>, <<123>>) /\ ~StrCaseEqual(<<64>>, <<96>>)     \* [ # {   @ # `
             /\ StrCaseLess(<<110>>, <<110, 48>>) /\ StrCaseLess(<<78, 91>>, <<110, 97>>)   \* prefix; "N[" < "na"
=============================================================================
