#!/bin/sh
# Runs the repository's own test suite with the verification guard OFF (plain autotools
# build of a scratch copy of /repo's working tree) and checks that all 89 TAP assertions (90 baseline entries incl. the script) pass.
set -e
REPO=${VERIF_REPO:-/repo}
ROOT=${VERIF_SCRATCH:-/var/tmp}/iauthd-verif
mkdir -p "$ROOT"
D=$(mktemp -d "$ROOT/baseline-XXXXXX")
trap 'rm -rf "$D"' EXIT
rsync -a --exclude .git "$REPO"/ "$D"/
cd "$D"
if ! make -q Makefile >/dev/null 2>&1; then :; fi
( make -s clean >/dev/null 2>&1 || true )
if [ ! -f Makefile ]; then sh ./configure >/dev/null; fi
make -s -j8 >/dev/null 2>&1 || { sh ./configure >/dev/null && make -s -j8 >/dev/null; }
make -s check >check.out 2>&1 || { cat check.out; grep -h "^not ok\|^FAIL" tests/test_all.sh.log; exit 1; }
PASS=$(grep -c '^ok ' tests/test_all.sh.log || true)
FAIL=$(grep -c '^not ok ' tests/test_all.sh.log || true)
echo "baseline (guard off): $PASS passed, $FAIL failed"
grep -h "^# PASS\|^# FAIL\|^# TOTAL" check.out || true
[ "$PASS" = 89 ] && [ "$FAIL" = 0 ]
