----------------------------- MODULE DiffTrace -----------------------------
(***************************************************************************)
(* Differential oracle for the properties that are equalities between two  *)
(* REAL runs (C04: with / without a stray reply; C07: interleaved / alone; *)
(* C08: with / without junk, chunked / line at a time; C17: reloaded /     *)
(* freshly started).  Each line of the ndjson file named by TRACE is       *)
(*   {"id": k, "a": <projected output of run A>, "b": <... of run B>}      *)
(* and must satisfy a = b; offending line numbers are printed as "@@V".    *)
(***************************************************************************)
EXTENDS Integers, Sequences, TLC, Json, IOUtils

VARIABLE l
TraceLog == ndJsonDeserialize(IOEnv.TRACE)

DInit == l = 1
DNext == /\ l <= Len(TraceLog)
         /\ IF TraceLog[l].a = TraceLog[l].b THEN TRUE
            ELSE PrintT("@@V" \o ToJson([l |-> l, id |-> TraceLog[l].id]))
         /\ l' = l + 1
=============================================================================
