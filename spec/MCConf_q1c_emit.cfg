SPECIFICATION Spec
CONSTANTS
  NameOrd <- MCNameOrd
  Universe <- U_q1c
  ValOpts <- V_q1c
  RegOpts <- R_q1c
  MaxLoads = 3
  RegPhases = {0, 1}
  WithBad = FALSE
  Bug = {}
VIEW View
INVARIANTS TypeOK ParsedFresh
PROPERTIES BSat_C15_Values BSat_C15_Leftovers BSat_C15_FileNodes BSat_C15_Idempotent BSat_C15_SettingHook BSat_C15_ObjectHook BSat_C15_Register
ACTION_CONSTRAINT Emit
