\* C10 quick plan q1i2 (generated by vlib/c10run.book_cfg_text; the checks write their cfg files at run time)
CONSTANTS
  Services <- S_q1
  TimeoutOn = TRUE
  Bug <- NoBug
  Ids <- Ids1
  MaxInst = 2
  MaxPw = 1
  StrayLevel = 0
  JunkOn = FALSE
  Rich = FALSE
  PwOn = TRUE
  RichSel <- NoRich
  Script <- NoScript
  EmitMod = 0
INIT BookInit
NEXT BookNext
VIEW BookView
ACTION_CONSTRAINT Emit
INVARIANT P01_once
INVARIANT P02_gate
INVARIANT P03_prompt
INVARIANT P04_stray
INVARIANT P05_content
INVARIANT P06_queries
INVARIANT P07_scope
INVARIANT P09_wire
INVARIANT P10_count
INVARIANT P17_config
INVARIANT HoldsSane
INVARIANT SerialsUnique
INVARIANT SerialBound
INVARIANT RefsCover
INVARIANT TimerSane
INVARIANT NoReadyLeft
INVARIANT Agree
INVARIANT LedgerExact
INVARIANT LedgerData
INVARIANT LedgerTimers
INVARIANT ArmedOwned
INVARIANT TimerAgree
INVARIANT LedgerCounters
INVARIANT InUseAgrees
