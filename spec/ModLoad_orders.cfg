\* C20: thorough: as quick (every hook profile for the good cases), but every order of the module_depends() calls
SPECIFICATION Spec
CONSTANTS
    Source = "enum"
    MaxN = 3
    SelfLoops = TRUE
    DepOrders = "all"
    WithMissing = TRUE
    WithAnti = FALSE
    Profiles = "good"
    Bug = "none"
INVARIANTS
    TypeOK LoadingIsInnermostCtor RdependsMirrorsDepends SetEmptyAtExit NoGhostInGoodCase
    B_CtorOnce B_DepsConstructedFirst B_PostInitOnce B_PostInitAfterDeps B_DtorBeforeDeps
    B_StartsComplete B_StopsClean B_AbortsWithError B_NeverRunsPartial
ACTION_CONSTRAINT EmitCase
