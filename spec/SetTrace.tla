------------------------------ MODULE SetTrace ------------------------------
(***************************************************************************)
(* Trace validation for C19: every line the harness h_set recorded from    *)
(* the REAL src/set.c is evaluated against the contract SetMap.            *)
(*                                                                         *)
(* Line kinds (ndjson, see harness/h_set.c):                               *)
(*   Keys   the rank -> concrete key table of this run (checked ascending) *)
(*   Reset  a fresh, empty set                                             *)
(*   Mark   remember the contract state reached by the history so far      *)
(*   Op     one API call with everything the caller observed; "b":1 means  *)
(*          the call was made on a fresh set rebuilt along the marked      *)
(*          history (the contract state goes back to the mark, and the     *)
(*          walk observed before the call must equal it)                   *)
(*          An insertion of a node object that an earlier call handed back *)
(*          with no_dispose ("rc":1) is an "ins" like any other: a NEW     *)
(*          element identity (fresh id), see SetMap.tla.                   *)
(*   Begin  a call that never returned (crash, assert, hang): no action    *)
(*          consumes it                                                    *)
(*                                                                         *)
(* The verdict of each conjunct of the contract on the line just consumed  *)
(* is kept in v, one invariant per conjunct, so that TLC names the         *)
(* conjunct and v.line is the rejected line.                               *)
(***************************************************************************)
EXTENDS Integers, Sequences, FiniteSets, TLC, Json, IOUtils, KeyOrder

TraceLog == ndJsonDeserialize(IOEnv.TRACE)

VARIABLES pos, m, cl, kept, issued, base, v
vars == <<pos, m, cl, kept, issued, base, v>>

SM == INSTANCE SetMap WITH Keys <- Int, m <- m, cl <- cl, kept <- kept, nid <- pos, op <- v

EmptyF == SM!EmptyF
AllOK == [line |-> 0, pre |-> TRUE, result |-> TRUE, size |-> TRUE, order |-> TRUE, cleanup |-> TRUE,
          tree |-> TRUE, list |-> TRUE, fresh |-> TRUE, keys |-> TRUE]

-----------------------------------------------------------------------------
(* The key table: the harness names keys by RANK 1..n and logs the concrete key of every rank.  The
   contract SetMap orders keys as integers; that is the order of the comparator only if the table is
   ascending in the mathematical order the comparator stands for.  That order is stated in KeyOrder.tla,
   per stock comparator, over the logged representations, and TLC checks every logged table against it.

   set_compare_charp is strcasecmp() in the C locale: the two strings are compared byte by byte (as
   unsigned character codes) after mapping 'A'..'Z' (65..90) to 'a'..'z' (97..122) AND NOTHING ELSE; a
   proper prefix is smaller.  So '@' (64) and '[' \ ']' '^' '_' '`' (91..96) are smaller than every letter,
   '{' '|' (123, 124) are greater, no two of these characters are equal, and "" is the least key.      *)
KeysAscending(L) ==
    /\ Len(L.keys) = L.n
    /\ \A i \in 1..(L.n - 1) :
         CASE L.cmp = "int"   -> IntLess(L.keys[i], L.keys[i + 1])
           [] L.cmp = "charp" -> \* every spelling of rank i is below every spelling of rank i + 1
                                 \A x \in 1..Len(L.keys[i]), y \in 1..Len(L.keys[i + 1]) :
                                     StrCaseLess(L.keys[i][x], L.keys[i + 1][y])
           [] OTHER           -> LexLess(L.keys[i], L.keys[i + 1])
    /\ L.cmp = "charp" => \A i \in 1..L.n : \A x, y \in 1..Len(L.keys[i]) :
                              StrCaseEqual(L.keys[i][x], L.keys[i][y])       \* spellings of one rank are ONE key

-----------------------------------------------------------------------------
(* structural audit of the raw links  nodes[j] = <<id, key, l, r, prev, next>>  (ids; 0 = NULL,
   negative = pointer to freed or foreign memory) against the listing lst = <<<<key, id>>, ...>>
   the contract requires.                                                                       *)
NodeOf(nodes) == [x \in {nodes[j][1] : j \in DOMAIN nodes} |-> nodes[CHOOSE j \in DOMAIN nodes : nodes[j][1] = x]]
PosOf(lst)    == [x \in {lst[j][2] : j \in DOMAIN lst} |-> CHOOSE j \in DOMAIN lst : lst[j][2] = x]

\* the subtree at n holds exactly the listing positions lo..hi, in search-tree order
RECURSIVE Sub(_, _, _, _, _, _)
Sub(N, P, lst, n, lo, hi) ==
    IF n = 0 THEN lo > hi
    ELSE /\ n \in DOMAIN N /\ n \in DOMAIN P
         /\ P[n] \in lo..hi
         /\ N[n][2] = lst[P[n]][1]
         /\ Sub(N, P, lst, N[n][3], lo, P[n] - 1)
         /\ Sub(N, P, lst, N[n][4], P[n] + 1, hi)

TreeAudit(L, lst) == /\ Len(L.nodes) = Len(lst)
                     /\ Sub(NodeOf(L.nodes), PosOf(lst), lst, L.root, 1, Len(lst))
ListAudit(L, lst) == LET N == NodeOf(L.nodes) IN
                     \A j \in DOMAIN lst :
                        /\ lst[j][2] \in DOMAIN N
                        /\ N[lst[j][2]][5] = IF j = 1 THEN 0 ELSE lst[j - 1][2]
                        /\ N[lst[j][2]][6] = IF j = Len(lst) THEN 0 ELSE lst[j + 1][2]

-----------------------------------------------------------------------------
Init == /\ pos = 1 /\ m = EmptyF /\ cl = EmptyF /\ kept = {} /\ issued = {}
        /\ base = [m |-> EmptyF, cl |-> EmptyF, kept |-> {}, issued |-> {}]
        /\ v = AllOK

Line == TraceLog[pos]

Keys == /\ Line.e = "Keys"
        /\ v' = [AllOK EXCEPT !.line = pos, !.keys = KeysAscending(Line)]
        /\ UNCHANGED <<m, cl, kept, issued, base>>

Reset == /\ Line.e = "Reset"
         /\ m' = EmptyF /\ cl' = EmptyF /\ kept' = {} /\ issued' = {}
         /\ v' = [AllOK EXCEPT !.line = pos]
         /\ UNCHANGED base

Mark == /\ Line.e = "Mark"
        /\ base' = [m |-> m, cl |-> cl, kept |-> kept, issued |-> issued]
        /\ v' = [AllOK EXCEPT !.line = pos]
        /\ UNCHANGED <<m, cl, kept, issued>>

Op == /\ Line.e = "Op"
      /\ LET L   == Line
             m0  == IF L.b = 1 THEN base.m ELSE m
             cl0 == IF L.b = 1 THEN base.cl ELSE cl
             kp0 == IF L.b = 1 THEN base.kept ELSE kept
             is0 == IF L.b = 1 THEN base.issued ELSE issued
             nd  == L.nd = 1
             R   == CASE L.o = "ins"   -> SM!InsertR(m0, L.k, L.id)
                      [] L.o = "find"  -> SM!FindR(m0, L.k)
                      [] L.o = "lower" -> SM!LowerR(m0, L.k)
                      [] L.o = "rem"   -> SM!RemoveR(m0, L.k, nd)
                      [] L.o = "clear" -> SM!ClearR(m0, nd)
                      [] L.o = "iter"  -> SM!IterR(m0)
             lst == SM!Listing(R.m)              \* what first/next must give afterwards
             obs == SM!BagOfSeq(L.cl)            \* the cleanup calls the real code made
         IN /\ m' = R.m
            /\ cl' = SM!BagPlus(cl0, obs)
            /\ kept' = kp0 \cup SM!Released(m0, R, nd)
            /\ issued' = IF L.o = "ins" THEN is0 \cup {L.id} ELSE is0
            /\ v' = [line    |-> pos,
                     keys    |-> TRUE,
                     fresh   |-> L.o = "ins" => (L.id >= 1 /\ L.id \notin is0),      \* harness obligation
                     pre     |-> L.pre = SM!Listing(m0),                             \* the history binds the state
                     result  |-> L.res = R.res,                                      \* membership, lower bound, removed?
                     size    |-> L.size = Cardinality(DOMAIN R.m),
                     order   |-> L.fwd = lst /\ L.bwd = SM!Rev(SM!Ids(lst)),         \* first/next and prev order
                     cleanup |-> obs = R.cleaned,                                    \* exactly the required calls, once each
                     tree    |-> TreeAudit(L, lst),                                  \* search-tree order, tree = the set
                     list    |-> ListAudit(L, lst)]                                  \* threaded list = in-order walk
      /\ UNCHANGED base

Next == pos <= Len(TraceLog) /\ (Keys \/ Reset \/ Mark \/ Op) /\ pos' = pos + 1
Spec == Init /\ [][Next]_vars

-----------------------------------------------------------------------------
(* one invariant per conjunct of C19 *)
C19_completes == pos > Len(TraceLog) \/ TraceLog[pos].e \in {"Keys", "Reset", "Mark", "Op"}   \* every call returned
C19_keys     == v.keys
C19_fresh    == v.fresh
C19_pre      == v.pre
C19_result   == v.result
C19_size     == v.size
C19_order    == v.order
C19_cleanup  == v.cleanup
C19_tree     == v.tree
C19_list     == v.list
\* over the whole history (consequences of the per-call clause; evaluated on the OBSERVED calls)
C19_cleanup_once       == SM!CleanupAtMostOnce
C19_cleanup_not_member == SM!CleanupNeverOnMember
C19_cleanup_not_kept   == SM!CleanupNeverOnKept

AllConsumed == TLCGet("stats").diameter = Len(TraceLog) + 1
=============================================================================
