\* C20: model mutant on the cases of IOEnv.CASES: module_dfs() returns early, without the visited mark, for a module without module_post_init; TLC must report B_StartsComplete
SPECIFICATION Spec
CONSTANTS
    Source = "file"
    MaxN = 6
    SelfLoops = TRUE
    DepOrders = "asc"
    WithMissing = TRUE
    WithAnti = FALSE
    Profiles = "full"
    Bug = "NoPostNoMark"
INVARIANTS
    TypeOK LoadingIsInnermostCtor RdependsMirrorsDepends SetEmptyAtExit NoGhostInGoodCase
    B_CtorOnce B_DepsConstructedFirst B_PostInitOnce B_PostInitAfterDeps B_DtorBeforeDeps
    B_StartsComplete B_StopsClean B_AbortsWithError B_NeverRunsPartial
