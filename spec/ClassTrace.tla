----------------------------- MODULE ClassTrace -----------------------------
(***************************************************************************)
(* Trace validation for property C11 - the oracle.                         *)
(*                                                                         *)
(* The ndjson file named by the environment variable TRACE holds one line  *)
(* per client that was driven through the REAL daemon (vlib/classrun.py):  *)
(*   {"e":"Case",                                                          *)
(*    "svcs":  [{"name":codes,"type":"login"|"dronecheck"}, ...],          *)
(*    "rules": the iauth_class section in FILE order, one record per rule  *)
(*             (name, class, account, address, username, hostname,         *)
(*             xreply_ok: texts as character-code arrays, [] = absent;     *)
(*             trust: boolean),                                            *)
(*    "cli":   the client's attributes as established by the history       *)
(*             (addr, host, ident, user, acct: character codes; xr: per    *)
(*             service [svc, ok, ref, sent] at acceptance time),           *)
(*    "obs":   what the daemon printed for that client: v = "D" / "R"      *)
(*             (kind of the verdict line; anything else = not accepted),   *)
(*             cls = its class field, acct = its account field, u = the    *)
(*             names of the U lines, nv = number of verdict lines, est}    *)
(* Each line is consumed by one step, which                                *)
(*  (1) evaluates the contract (ClassRules!P11_class, P11_uline: the       *)
(*      declarative first match in name order) on the observation;         *)
(*      violated conjuncts are printed as "@@V";                           *)
(*  (2) compares the observation with what the implementation-shaped spec  *)
(*      predicts (ClassRules!Accept: scan of the sorted vector); a         *)
(*      difference is printed as "@@D" (drift);                            *)
(*  (3) reports a client that was not accepted as "@@N" (C11 speaks about  *)
(*      accepted clients only).                                            *)
(* The contract is evaluated only when the history did establish the       *)
(* attributes it was meant to: obs.est (the verdict was not printed before *)
(* every planned line had been sent) and the account echoed by the R line  *)
(* is the account the login service sent; otherwise the line is reported   *)
(* as drift (premature verdicts and unfaithful stamps are C02 / C05).      *)
(* The walk is deterministic, so the trace was consumed iff TLC reaches    *)
(* depth Len(TraceLog) + 1.                                                *)
(***************************************************************************)
EXTENDS ClassRules, TLC, Json, IOUtils

VARIABLE l

TraceLog == ndJsonDeserialize(IOEnv.TRACE)
TraceBug == {}

SeqRange(s) == {s[i] : i \in 1..Len(s)}

TInit == l = 1

TCase == /\ TraceLog[l].e = "Case"
         /\ LET rec == TraceLog[l]
                R   == SeqRange(rec.rules)
                c   == rec.cli
                obs == rec.obs
                est == obs.est /\ obs.acct = c.acct
                v   == IF ~est THEN {}
                       ELSE (IF P11_class(R, c, obs) THEN {} ELSE {"P11_class"})
                            \cup (IF P11_uline(R, c, obs) THEN {} ELSE {"P11_uline"})
                b   == Accept(ConfChanged(rec.rules), c)
                w   == Outcome(R, c)
            IN  /\ IF v = {} THEN TRUE
                   ELSE PrintT("@@V" \o ToJson([l |-> l, v |-> v, want |-> [cls |-> w.cls, trust |-> w.trust, rule |-> w.rule]]))
                /\ IF ~Accepted(obs) THEN PrintT("@@N" \o ToJson([l |-> l, v |-> obs.v]))
                   ELSE IF b.v = obs.v /\ b.cls = obs.cls /\ b.acct = obs.acct /\ b.u = obs.u /\ obs.nv = 1 /\ est THEN TRUE
                   ELSE PrintT("@@D" \o ToJson([l |-> l, want |-> b]))
         /\ l' = l + 1

TNext == l <= Len(TraceLog) /\ TCase

TSpec == TInit /\ [][TNext]_l
=============================================================================
