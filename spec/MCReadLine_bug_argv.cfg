CONSTANTS
  ARGV = 2
  Bug <- BugArgvLe
  Alphabet <- Sigma4
  MaxLen = 6
  MaxChunk = 6
  Streams <- AllStreams
  LiveIds <- Live05
INIT RInit
NEXT RNext
INVARIANT DeliveredIsContract
INVARIANT BufferIsTail
INVARIANT NoLineWaiting
INVARIANT ArgvInBounds
INVARIANT AbsentParamIsNull
INVARIANT EofClean
