SPECIFICATION TraceSpec
CONSTANTS Keys = {1}
  StaleMode = "poison"
  BugStaleLinks = FALSE
INVARIANTS NoDrift
POSTCONDITION AllConsumed
