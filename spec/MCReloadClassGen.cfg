\* seeded sample over the rich pools; GenN / GenM are overridden by the check (it writes its own cfg)
CONSTANTS
  CBug <- Bug_none
  RBug <- RB_none
  Names <- N_all
  AcctP <- Acct_rich
  AddrP <- Addr_rich
  UserP <- User_rich
  HostP <- Host_rich
  OkP <- Ok_rich
  ClassP <- Class_rich
  TrustP <- BoolSet
  MaxRules = 3
  MaxCrit = 5
  CAcct <- CAcct_rich
  CAddr <- CAddr_rich
  CIdent <- CIdent_rich
  CHost <- CHost_rich
  CUser <- CUser_rich
  LoginSt <- Login_all
  DroneSt <- Drone_all
  GenN = 40
  GenM = 2
INIT GenInit
NEXT GenNext
INVARIANT GenOk
INVARIANT GenEmit
