CONSTANTS
  ARGV = 2
  Bug <- NoBug
  Alphabet <- Sigma4b
  MaxLen = 7
  MaxChunk = 7
  Streams <- LFStreams
  LiveIds <- Live0
INIT RInit
NEXT RNext
INVARIANT DeliveredIsContract
INVARIANT BufferIsTail
INVARIANT NoLineWaiting
INVARIANT ArgvInBounds
INVARIANT AbsentParamIsNull
INVARIANT EofClean
