"""C06 Queries are timely and carry the client's own data."""
from vlib import iauthrun as R

LEVEL = "model_checking"
TITLE = ("queries: each configured service is queried exactly when its protocol's data is known (or hurry-up), with the client's "
         "own nick/user/address/host/realname/credentials within the length limits; ill-shaped passwords are never forwarded")
OWN = {"P06_queries"}


def plans(ctx):
    if ctx.tier == "quick":
        return [
            # straight-line scripts over the rich data pools (limit-length and over-length values, ~ names, empty ident,
            # ill-shaped passwords), two arrival orders, all protocol types
            R.Plan("d1", "S_t1a", script="ScriptData1", rich_sel="RichData", emit_mod=30, max_pw=1),
            R.Plan("d2", "S_t1b", script="ScriptData2", rich_sel="RichData", emit_mod=40, max_pw=1),
            R.Plan("d3", "S_t1d", script="ScriptData3", rich_sel="RichData", emit_mod=2, max_pw=1),
            # free environment: every arrival order of the data items, passwords (well- and ill-shaped), hurry-up
            R.Plan("t1b", "S_t1b", emit_mod=90, max_inst=1, max_pw=2, rich_sel="RichModes"),
            R.Plan("q1", "S_q1", emit_mod=160, max_inst=1, max_pw=2),
            # a service whose name is a prefix of another's; an entry with an unknown protocol word (never queried)
            # only login-type services (no dronecheck / combined); a service whose name is a prefix of another's
            R.Plan("ipr2", "S_ipr2", emit_mod=150, max_inst=1, max_pw=2),
            R.Plan("pref", "S_pref", emit_mod=250, max_inst=1, max_pw=2)]
    return [R.Plan("d1", "S_t1a", script="ScriptData1", rich_sel="RichData", emit_mod=2, max_pw=1),
            R.Plan("d2", "S_t1b", script="ScriptData2", rich_sel="RichData", emit_mod=6, max_pw=1),
            R.Plan("d3", "S_t1d", script="ScriptData3", rich_sel="RichData", emit_mod=1, max_pw=1),
            R.Plan("d4", "S_q1", script="ScriptData2", rich_sel="RichData", emit_mod=6, max_pw=1),
            R.Plan("d5", "S_t1c", script="ScriptData1", rich_sel="RichData", emit_mod=4, max_pw=1),
            R.Plan("q1", "S_q1", emit_mod=6, max_inst=1, max_pw=2),
            R.Plan("t1a", "S_t1a", emit_mod=8, max_inst=1, max_pw=1),
            R.Plan("t1b", "S_t1b", emit_mod=5, max_inst=1, max_pw=2, rich_sel="RichModes"),
            R.Plan("t1c", "S_t1c", emit_mod=12, max_inst=1, max_pw=2),
            R.Plan("t1d", "S_t1d", emit_mod=2, max_inst=2, max_pw=2),
            R.Plan("two", "S_q1", emit_mod=40, ids="Ids2", max_inst=1, max_pw=0, pw_on=False),
            R.Plan("pref", "S_pref", emit_mod=25, max_inst=1, max_pw=2),
            R.Plan("ipr2", "S_ipr2", emit_mod=12, max_inst=1, max_pw=2),
            R.Plan("unk", "S_unk", emit_mod=30, max_inst=1, max_pw=2),
            R.Plan("drone", "S_drone", emit_mod=2, max_inst=1, max_pw=2),
            R.Plan("sim", "S_t1a", simulate="num=60", depth=45, workers=8, rich=True, ids="Ids2", max_inst=6, max_pw=3,
                   junk=True)]


def run(ctx):
    ctx.cov["rule"] = ("behaviours of B x A: (i) straight-line scripts enumerating the rich data pools (nick 5/30/31/45, host "
                       "12/63/64/80, ident 4/10/11/15 or empty, user 6/9/10/13 and ~-prefixed 8/10/12, realname with spaces "
                       "11/50/51/70, credentials 10/511/512/600, passwords without modes / without space / without separator) in "
                       "three arrival orders; (ii) the free environment (all arrival orders incl. hurry-up, password before/after "
                       "data, repeated passwords) sampled 1/emit_mod; replayed on the real daemon; TLC evaluates P06_queries on every "
                       "real step: the set of services queried = the services that became due in this step (plus permitted "
                       "re-queries after a new password), each with exactly the CHECK / LOGIN / LOGIN2 lines its protocol "
                       "prescribes, every field = the text the server sent cut to its limit, ~ rule, all X lines carry the "
                       "client's own tag; distinct = distinct event sequences")
    ctx.assumptions += ["field texts are identified by reference and length (the driver resolves every observed field to the text "
                        "it sent: exact match or proper prefix); characters are printable ASCII without space except in real "
                        "names and credentials",
                        "re-queries of already queried non-dronecheck services after a later well-shaped password are permitted, "
                        "not required (DESIGN.md 9)"]
    R.standard(ctx, plans(ctx), OWN, need=("queries", "accept_D"))


def replay(ctx, body):
    R.replay_file(ctx, body, OWN)
