------------------------------ MODULE MCSetMap ------------------------------
(* The contract on its own: its cleanup clauses are consequences of the per-call definitions. *)
EXTENDS SetMap
Bound == nid <= 5
=============================================================================
