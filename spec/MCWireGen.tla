----------------------------- MODULE MCWireGen -----------------------------
(***************************************************************************)
(* Generates the announced-address domain of check C09 from the same       *)
(* enumerations that drive C12 (Addr.tla): all 256 zero / non-zero group   *)
(* patterns, a slice of the 5^8 digit-count patterns, the IPv4 and         *)
(* near-IPv4 shapes and the class-boundary values.  TLC prints the list as *)
(* JSON; the driver renders each address in several textual forms.         *)
(***************************************************************************)
EXTENDS Integers, Sequences, TLC, Json
CONSTANTS NC5From, NC5Count, NC5Step, V4NC
AD == INSTANCE Addr WITH Bug <- {}
VARIABLE x
Gen == [pat2 |-> [pi \in 1..256 |-> AD!PatAddr(2, pi - 1)],
        pat5 |-> [k \in 1..NC5Count |-> AD!PatAddr(5, (NC5From + (k - 1) * NC5Step) % AD!PatCount(5))],
        v4   |-> [vi \in 1..AD!V4Count(V4NC) |-> AD!V4Addr(V4NC, vi - 1)],
        edge |-> [ei \in 1..AD!EdgeCount |-> AD!EdgeAddr(ei - 1)]]
Init == x = 0 /\ PrintT("@@G" \o ToJson(Gen))
Next == FALSE /\ x' = x
=============================================================================
