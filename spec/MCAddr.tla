------------------------------- MODULE MCAddr -------------------------------
(***************************************************************************)
(* C12 on the model: for every group-class pattern (zero / 1..4 hex digits  *)
(* per group), every IPv4 / near-IPv4 shape and every class boundary value, *)
(* the text produced by the transcribed printer (NtopAlgo) is read back by  *)
(* the independent reader (Denote) as the canonical address, does not start *)
(* with ':' and fits IRC_NTOP_MAX; the transcribed parser (PtonAlgo) reads  *)
(* it completely, to the same address, and printing that again gives the    *)
(* same text.                                                               *)
(*                                                                         *)
(* The domain is explored as a tree of index ranges (16-way split) so that  *)
(* TLC's workers share the leaves; a leaf [lo = hi] is one case.            *)
(***************************************************************************)
EXTENDS Addr, TLC

CONSTANT NC          \* number of digit classes per group: 2, 3, 4 or 5

VARIABLE c           \* [d |-> domain, lo |-> , hi |-> ]

DomSize(d) == IF d = "pat" THEN PatCount(NC) ELSE IF d = "v4" THEN V4Count(NC) ELSE EdgeCount
CaseAddr(d, i) == IF d = "pat" THEN PatAddr(NC, i) ELSE IF d = "v4" THEN V4Addr(NC, i) ELSE EdgeAddr(i)

Init == c \in {[d |-> d, lo |-> 0, hi |-> DomSize(d) - 1] : d \in {"pat", "v4", "edge"}}

Split16 == \E k \in 0..15 :
              LET s  == c.hi - c.lo + 1
                  a  == c.lo + (k * s) \div 16
                  b  == c.lo + ((k + 1) * s) \div 16 - 1
              IN  /\ b >= a
                  /\ c' = [c EXCEPT !.lo = a, !.hi = b]

Next == c.hi > c.lo /\ Split16

Leaf == c.lo = c.hi
A    == CaseAddr(c.d, c.lo)
T    == NtopAlgo(A)

TypeOK      == Leaf => IsAddr(A)
RoundTrip   == Leaf => Denote(T) = Canon(A)                    \* C12: denotes the same address
NoLeadColon == Leaf => T # << >> /\ T[1] # Colon               \* C12: never begins with ':'
Fits        == Leaf => Len(T) <= IRC_NTOP_MAX - 1              \* C12: fits the documented buffer
OwnParser   == Leaf => LET r == PtonAlgo(T, FALSE, FALSE)      \* model of the daemon's own parser accepts it
                       IN  r.ret = Len(T) /\ r.addr = Canon(A) /\ ~r.ub
Idempotent  == Leaf => NtopAlgo(PtonAlgo(T, FALSE, FALSE).addr) = T
PatternOK   == Leaf /\ c.d = "pat" =>                          \* the pattern really has the class digits of its index
                   \A i \in 1..8 : ClassOf(A[i]) = ClassSeq(NC)[DigitOf(c.lo, NC, 8, i - 1) + 1]
=============================================================================
