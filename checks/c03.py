"""C03 No stuck clients: the verdict comes as soon as it can."""
from vlib import iauthrun as R

LEVEL = "model_checking"
TITLE = "no stuck clients: verdict in the same step as the event completing the conditions"
OWN = {"P03_prompt"}


def plans(ctx):
    if ctx.tier == "quick":
        # two login services (second stamping OK), timeout before/after replies, -! after +!, password re-sent
        return [R.Plan("t1c", "S_t1c", emit_mod=110, max_inst=1, max_pw=2),
                # stray replies (e.g. a second reply from a service that already answered MORE) must not disturb the holds
                R.Plan("q1", "S_q1", emit_mod=160, max_inst=1, max_pw=2, stray=1),
                # an id announced again while its earlier instance is blocked: the newcomer starts from scratch
                R.Plan("t1di2", "S_t1d", emit_mod=25, max_inst=2, max_pw=1),
                R.Plan("noxq", "S_noxq", emit_mod=2, max_inst=2, max_pw=1, stray=1),
                R.Plan("unk", "S_unk", emit_mod=450, max_inst=1, max_pw=2, stray=1)]
    return [R.Plan("t1c", "S_t1c", emit_mod=25, max_inst=1, max_pw=2, stray=1),
            R.Plan("q1", "S_q1", emit_mod=20, max_inst=1, max_pw=3, stray=1),
            R.Plan("q1i2", "S_q1", emit_mod=50, max_inst=2, max_pw=1, stray=1),
            R.Plan("t1di3", "S_t1d", emit_mod=12, max_inst=3, max_pw=1),
            R.Plan("t1a", "S_t1a", emit_mod=12, max_inst=1, max_pw=1),
            R.Plan("t1b", "S_t1b", emit_mod=10, max_inst=1, max_pw=2),
            R.Plan("notimer", "S_q1", emit_mod=10, max_inst=1, max_pw=2, timeout_on=False),
            R.Plan("noxq", "S_noxq", emit_mod=3, max_inst=3, max_pw=2, stray=2, junk=True),
            R.Plan("unk", "S_unk", emit_mod=75, max_inst=1, max_pw=2, stray=1),
            R.Plan("drone", "S_drone", emit_mod=2, max_inst=2, max_pw=2, stray=1),
            R.Plan("pref", "S_pref", emit_mod=25, max_inst=1, max_pw=2, stray=1),
            R.Plan("sim", "S_t1c", simulate="num=60", depth=50, workers=8, rich=True, max_inst=8, max_pw=4, stray=1)]


def run(ctx):
    ctx.cov["rule"] = ("behaviours of the exhaustively explored composition B x A (every order of data, passwords "
                       "+x/+!/-!/ill-shaped, replies OK/OK+acct/OK+empty/NO/AGAIN/MORE/unlinked/junk, timeout firing point), "
                       "sampled 1/emit_mod, replayed on the real daemon; TLC evaluates P03_prompt after every real step: a "
                       "live client that is Ready (data or hurry-up, nothing owed or timeout expired, no unmet +!) must have "
                       "been accepted in that step; a daemon that dies or hangs in a step is a violation too")
    ctx.assumptions += ["the request timeout fires only where the '<id> ! timeout' hook is sent (timeout 1h configured)"]
    R.standard(ctx, plans(ctx), OWN, crash_is_own=True, need=("accept_D", "accept_R", "timeouts", "challenges"))


def replay(ctx, body):
    R.replay_file(ctx, body, OWN, crash_is_own=True)
