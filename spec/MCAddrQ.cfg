CONSTANTS
  NC = 4
  Bug = {}
INIT Init
NEXT Next
INVARIANTS TypeOK RoundTrip NoLeadColon Fits OwnParser Idempotent PatternOK
