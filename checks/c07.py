"""C07 Concurrent clients do not interfere.

(1) Model: spec/NonInterf.tla - self-composition of the implementation-shaped spec IAuth.tla (world 1: all clients
    interleaved, world 2: the observed client's own events only); TLC checks over every interleaving within the bounds that
    both worlds print the same conversation for the observed client up to the serial component of tags, that steps about
    other ids print nothing that names it, and that its request record is the same.  A model mutant (shared password
    buffer) must be caught (anti-vacuity).
(2) Conformance / oracle: the property is an equality between runs, so it is judged on pairs of REAL runs: every sampled
    two-client behaviour of the exhaustively explored composition B x A (all interleavings within the bounds) is run
    interleaved on one fresh daemon and, projected to each client, on another fresh daemon; TLC (DiffTrace.tla) requires
    equal output on every step of that client after renaming tags by order of appearance.  Three-client histories are
    merges (order-preserving shuffles) of single-client model behaviours.  P07_scope of the contract is evaluated on all runs.
"""
import json
import os
import re

from vlib import iauthrun as R
from vlib import iauthdiff as DF
from vlib.core import MachineryError

LEVEL = "model_checking"
TITLE = "concurrent clients do not interfere: per-client conversation independent of other clients' traffic (up to tag serials)"
OWN = {"P07_scope"}
_TAG = re.compile(r"^([0-9a-f]+)_([0-9a-f]+)$")


# the three-client runs load iauth_class as well (same rules interleaved and alone): module-level state of the class module
# (caches, static buffers) is shared between clients too
CLASSY = {"modules": ("iauth_xquery", "iauth_class"),
          "rules": [{"name": "ro", "account": "?*", "class": "stamped"}, {"name": "rh", "hostname": "h1x5*", "class": "hosted"}]}


def owner(e):
    if e["e"] == "X":
        return e.get("oid")
    return e.get("id")


def project(events, a):
    """Events of client a alone, with routing tags re-spelled for a daemon that sees only a's announcements.
    Returns (solo events, pairs [(index in full, index in solo)])."""
    g2l = {}                 # global serial -> local serial (a's announcements)
    nser = 0
    nloc = 0
    for e in events:
        if e["e"] == "C":
            nser += 1
            if e["id"] == a:
                nloc += 1
                g2l[nser] = nloc
    solo, pairs = [], []
    for k, e in enumerate(events):
        if owner(e) != a:
            continue
        if e["e"] == "X":
            m = _TAG.match(e["tag"])
            if m and int(m.group(1), 16) == a and int(m.group(2), 16) in g2l:
                e = dict(e)
                e["tag"] = "%x_%x" % (a, g2l[int(m.group(2), 16)])
            elif m and int(m.group(1), 16) != a:
                continue     # a reply carrying another client's tag is not one of a's own events
        pairs.append((k, len(solo)))
        solo.append(e)
    return solo, pairs


def remap(events, new_id):
    """A single-client behaviour (id 5) re-addressed to new_id (three-client merges)."""
    out = []
    for e in events:
        e = dict(e)
        if "id" in e:
            e["id"] = new_id
        if "oid" in e:
            e["oid"] = new_id
        if e["e"] == "C":
            e["addr"] = "A%x" % new_id
            e["port"] = 1000 + (new_id & 0xfff)
        # every client gets its own texts (a value leaking from one client into another's lines must be visible)
        for f in ("host", "ident", "nick", "user", "real", "cred", "acct", "text"):
            if f in e and e[f][1] > 0 and not e[f][0].endswith("x%x" % new_id):
                ref = e[f][0] + "x%x" % new_id
                e[f] = [ref, max(e[f][1], len(ref) + 4)]
        if "raw" in e:
            e["raw"] = [e["raw"][0] + "x%x" % new_id, e["raw"][1]]
        if e["e"] == "X":
            m = _TAG.match(e["tag"])
            if m:
                e["tag"] = "%x_%x" % (new_id, int(m.group(2), 16))
            else:
                e["tag"] = e["tag"].replace("5", "%x" % new_id, 1) if e["tag"].startswith("5") else e["tag"]
        out.append(e)
    return out


def merge(rng, hists):
    """Order-preserving random merge; routing tags re-spelled with the global serials of the merged stream."""
    idx = [0] * len(hists)
    merged = []
    local2global = [dict() for _ in hists]
    nloc = [0] * len(hists)
    nser = 0
    while True:
        live = [k for k in range(len(hists)) if idx[k] < len(hists[k])]
        if not live:
            break
        # bursts make long runs of one client as likely as fine-grained alternation
        k = rng.choice(live)
        for _ in range(rng.choice((1, 1, 2, 4))):
            if idx[k] >= len(hists[k]):
                break
            e = hists[k][idx[k]]
            idx[k] += 1
            if e["e"] == "C":
                nser += 1
                nloc[k] += 1
                local2global[k][nloc[k]] = nser
            if e["e"] == "X":
                m = _TAG.match(e["tag"])
                if m and int(m.group(2), 16) in local2global[k]:
                    e = dict(e)
                    e["tag"] = "%s_%x" % (m.group(1), local2global[k][int(m.group(2), 16)])
            merged.append(e)
    return merged


def ni_cfg(ctx, name, table, others="O1", inst_a=1, inst_o=1, max_pw=1, other_full=False, emit_mod=0, bug="NoNIBug"):
    path = os.path.join(ctx.scratch, "ni_%s.cfg" % name)
    with open(path, "w") as f:
        f.write("CONSTANTS\n  Services <- %s\n  TimeoutOn = TRUE\n  Bug <- NoBug\n  A = 5\n  Others <- %s\n  MaxInstA = %d\n"
                "  MaxInstO = %d\n  MaxPw = %d\n  OtherFull = %s\n  EmitMod = %d\n  NIBug <- %s\nINIT NIInit\nNEXT NINext\n"
                "VIEW NIView\n%sINVARIANT SameConversation\nINVARIANT SilentOthers\nINVARIANT SameState\n"
                % (table, others, inst_a, inst_o, max_pw, "TRUE" if other_full else "FALSE", emit_mod, bug,
                   "ACTION_CONSTRAINT Emit\n" if emit_mod else ""))
    return path


FAR_IDS = [-2147483638, 2147483647, -2147483643, 2000000000, -2000000000, 1073741824, -1073741829]


def with_crowd(rng, full):
    """Surround the interleaved history with other clients that share the daemon's global structures:
    9-40 short-lived announcements before it (the serial of the observed clients becomes two hex digits and differs from its
    decimal form), and clients with ids from the whole int range that stay live while the observed clients are served (the
    request table is keyed by id; its order must hold for distant keys) - some announced up front, some in the middle, all
    withdrawn at the end.  Routing tags of the history are re-spelled for the shifted serials."""
    far = list(FAR_IDS)
    rng.shuffle(far)
    nfar = rng.choice((0, 2, 4, 7))
    pre = []
    for k in range(rng.choice((9, 15, 16, 17, 40))):
        i = 100 + k
        pre.append({"e": "C", "id": i, "addr": "A%x" % i, "port": 2000 + k})
        if k % 3 == 0:
            pre.append({"e": "H", "id": i})
        pre.append({"e": "D", "id": i})
    ann = lambda i, k: {"e": "C", "id": i, "addr": "A%x" % (i & 0xffffff), "port": 3000 + k}
    pre += [ann(i, k) for k, i in enumerate(far[:nfar // 2])]
    p = rng.randrange(len(full) + 1)
    mid = [ann(i, 50 + k) for k, i in enumerate(far[nfar // 2:nfar])]
    combined = pre + [dict(e, _old=True) for e in full[:p]] + mid + [dict(e, _old=True) for e in full[p:]] \
        + [{"e": "D", "id": i} for i in far[:nfar]]
    # old serial (s-th C of `full`) -> new serial (position among all C lines of the combined stream)
    remap, nold, nnew = {}, 0, 0
    for e in combined:
        if e["e"] == "C":
            nnew += 1
            if e.get("_old"):
                nold += 1
                remap[nold] = nnew
    out = []
    for e in combined:
        old = e.pop("_old", False)
        if old and e["e"] == "X":
            m = _TAG.match(e["tag"])
            if m and int(m.group(2), 16) in remap:
                e["tag"] = "%s_%x" % (m.group(1), remap[int(m.group(2), 16)])
        out.append(e)
    return out


def noninterf_model(ctx, name, table, exhaustive=True, timeout=900, want_behaviours=False, workers=12, simulate=None,
                    depth=None, **cfgkw):
    """TLC on NonInterf.tla; returns (result, world-1 behaviours or None)."""
    cfg = ni_cfg(ctx, name, table, **cfgkw)
    outp = os.path.join(ctx.scratch, "ni_%s.out" % name) if want_behaviours else None
    r = ctx.tlc("NonInterf", cfg, workers=workers, timeout=timeout, heap="12g", stdout_path=outp, simulate=simulate,
                depth=depth, seed=ctx.seed)
    if not r.ok:
        raise MachineryError("NonInterf/%s violates %s on the unchanged specification:\n%s" % (name, r.violated, r.violation_text[:3000]))
    if exhaustive:
        ctx.model_checked(r)
    ctx.note("NonInterf %s/%s: %d distinct states, %d transitions%s (%.0fs)" % (name, table, r.distinct, r.generated,
             "" if exhaustive else " [simulation]", r.wall_s))
    beh = None
    if want_behaviours:
        beh = []
        with open(outp, errors="replace") as f:
            for line in f:
                if line.startswith('"@@E'):
                    beh.append([x["e"] for x in json.loads(json.loads(line)[3:])])
        os.unlink(outp)
    return r, beh


def differential(ctx, name, table, jobs, **opts):
    svcs = R.SERVICE_TABLES[table]
    res = DF.diff_runs(ctx, jobs, svcs, tag=name, **opts)
    bad, nlines = DF.validate_diffs(ctx, res)
    jobmap = {j[0]: j for j in jobs}
    seen = set()
    for (jid, k) in bad[:60]:
        j = jobmap[jid]
        cut = j[3][k][0]
        sig = "diff: " + R.hist_short(j[1][:cut + 1])
        if sig in seen or len(seen) > 5:
            continue
        seen.add(sig)
        res2 = DF.diff_runs(ctx, [j], svcs, nproc=1, tag=name + "-again%d" % len(seen), **opts)
        bad2, _ = DF.validate_diffs(ctx, res2)
        if not bad2:
            ctx.note("difference did not repeat: " + sig)
            continue
        pl = DF.pair_line(res2, jid, bad2[0][1])
        ctx.violation("other clients' traffic changed a client's conversation: step %d of [%s] prints %s when interleaved "
                      "and %s when the client is alone" % (j[3][bad2[0][1]][0], R.hist_short(j[1]), pl["a"], pl["b"]),
                      "diff", sig, {"kind": "iauth-diff", "table": table, "svcs": svcs, "with": j[1], "without": j[2],
                                    "pairs": j[3], "opts": opts})
    # contract on all runs: P07_scope (everything client-directed is about the step's target; silent steps are silent)
    nviol = 0
    for x in res:
        v, d = R.validate_trace(ctx, x["trace"], x["lines"])
        idx = json.load(open(x["trace"] + ".idx"))
        for f in v:
            if not (set(f["v"]) & (OWN | {"crash"})):
                continue
            jid, which, si = idx[f["l"] - 1]
            j = jobmap[jid]
            evs = j[1] if which == "a" else j[2]
            sig = "%s: %s" % ("+".join(sorted(set(f["v"]) & (OWN | {"crash"}))), R.hist_short(evs[:si + 1]))
            if sig in seen or nviol > 5:
                continue
            seen.add(sig)
            f2, _ = R.run_single(ctx, evs, svcs, **opts)
            if any(g["kind"] == "V" and set(g["conjuncts"]) & (OWN | {"crash"}) for g in f2):
                nviol += 1
                ctx.violation("contract conjunct %s violated at step %d of [%s]" % (sorted(f["v"]), si, R.hist_short(evs[:si + 1])),
                              "P07_scope", sig, {"kind": "iauth-history", "table": table, "svcs": svcs, "timeout_on": True,
                                                 "events": evs, "failing_step": si, "opts": opts})
    ctx.cov["evaluations"] += sum(x["steps"] for x in res)
    ctx.cov["traces_validated_against_impl"] += 2 * len(jobs)
    ctx.cov["differential_pairs"] = ctx.cov.get("differential_pairs", 0) + len(jobs)
    ctx.cov["differential_steps_compared"] = ctx.cov.get("differential_steps_compared", 0) + nlines
    ctx.note("differential %s/%s: %d pairs of real runs (interleaved / alone), %d steps compared by TLC, %d differ"
             % (name, table, len(jobs), nlines, len(bad)))
    return len(jobs)


def two_client_jobs(ctx, name, table, nb, **cfgkw):
    """World-1 behaviours of the exhaustively explored NonInterf model (every interleaving within the bounds, one shortest
    behaviour per explored transition, sampled 1/emit_mod), each with its projection to every announced client."""
    r, behaviours = noninterf_model(ctx, name, table, want_behaviours=True, **cfgkw)
    ctx.rng.shuffle(behaviours)
    svcs = R.SERVICE_TABLES[table]
    jobs = []
    distinct = set()
    for b in behaviours:
        ids = sorted({e["id"] for e in b if e["e"] == "C"})
        if len(ids) < 2:
            continue
        # the behaviour, then a probing tail for every client (drives each towards a verdict so that hidden differences show)
        full = b + R.probe_tail(b, svcs, interleave=True)
        for e in full:
            if e["e"] == "X" and "oid" not in e:
                m = _TAG.match(e["tag"])
                e["oid"] = int(m.group(1), 16) if m else None
        if len(distinct) % 3 == 0:
            full = with_crowd(ctx.rng, full)
        for a in ids:
            solo, pairs = project(full, a)
            if len(solo) >= 2:
                jobs.append((len(jobs), full, solo, pairs, True))
        distinct.add(R.hist_short(b))
        if len(distinct) >= nb:
            break
    ctx.cov["distinct_nontrivial"] += len(distinct)
    if jobs:
        ctx.sample({"interleaved": R.hist_short(jobs[0][1]), "alone": R.hist_short(jobs[0][2])})
    return jobs


def three_client_jobs(ctx, name, table, nmerge, **mc):
    r, beh = R.model_check(ctx, name, table, want_behaviours=True, ids="Ids1", **mc)
    ctx.model_checked(r)
    svcs = R.SERVICE_TABLES[table]
    singles = [[s["e"] for s in b] for b in beh if len(b) >= 4]
    jobs = []
    for n in range(nmerge):
        hs = []
        # every third merge uses five-hex-digit client ids (with a crowd in front the routing tags reach 8+ characters)
        ids3 = (0x10004, 0x10005, 0x10006) if n % 3 == 0 else (4, 5, 6)
        for new_id in ids3:
            h = ctx.rng.choice(singles)
            h = [e for e in h if e["e"] != "J"]
            hs.append(remap(h + R.probe_tail(h, svcs), new_id))
        full = merge(ctx.rng, hs)
        for e in full:
            if e["e"] == "X" and "oid" not in e:
                m = _TAG.match(e["tag"])
                e["oid"] = int(m.group(1), 16) if m else None
        if n % 3 == 0:
            full = with_crowd(ctx.rng, full)
        a = ctx.rng.choice(ids3)
        solo, pairs = project(full, a)
        jobs.append((len(jobs), full, solo, pairs, True))
    ctx.cov["distinct_nontrivial"] += len(jobs)
    if jobs:
        ctx.sample({"three_clients": R.hist_short(jobs[0][1])[:400]})
    return jobs


def run(ctx):
    ctx.cov["rule"] = ("model: every interleaving of the observed client's events with another client's traffic within the bounds "
                       "(NonInterf.tla, two worlds); real code: two-client behaviours of the exhaustively explored B x A "
                       "(sampled 1/emit_mod) and random order-preserving merges of three single-client behaviours, each run "
                       "interleaved and alone on fresh daemons and compared step by step by TLC; distinct = distinct interleaved "
                       "histories")
    ctx.assumptions += ["'up to the serial component of routing tags': tags are renamed by order of first appearance before the "
                        "comparison; replies in the solo run carry the solo daemon's tags",
                        "the in-use count of the barrier is not part of a client's conversation"]
    # model mutant first: a shared password buffer must be caught (otherwise the invariants are vacuous)
    rm = ctx.tlc("NonInterf", ni_cfg(ctx, "mut", "S_q1", inst_a=2, bug="NIBugShare"), workers=4, timeout=300, heap="4g")
    if rm.ok:
        raise MachineryError("NonInterf invariants did not catch the shared-buffer model mutant (vacuous)")
    ctx.cov["model_mutant_caught"] = rm.violated
    if ctx.tier == "quick":
        jobs = two_client_jobs(ctx, "q0", "S_t1d", nb=130, max_pw=0, emit_mod=40)
        differential(ctx, "two", "S_t1d", jobs)
        noninterf_model(ctx, "q1sim", "S_t1d", exhaustive=False, simulate="num=2500", depth=30, workers=6, timeout=120, max_pw=1)
        jobs = three_client_jobs(ctx, "three", "S_t1b", nmerge=70, emit_mod=60, max_inst=2, max_pw=1, stray=1)
        differential(ctx, "three", "S_t1b", jobs, **CLASSY)
    else:
        jobs = two_client_jobs(ctx, "q0", "S_t1d", nb=2500, max_pw=0, emit_mod=4)
        differential(ctx, "two0", "S_t1d", jobs)
        jobs = two_client_jobs(ctx, "q1", "S_t1d", nb=4000, max_pw=1, emit_mod=1500, timeout=1500)
        differential(ctx, "two1", "S_t1d", jobs)
        jobs = two_client_jobs(ctx, "q0i2", "S_q1", nb=3000, max_pw=0, inst_a=2, emit_mod=300, timeout=1500)
        differential(ctx, "two2", "S_q1", jobs)
        noninterf_model(ctx, "qsim", "S_q1", exhaustive=False, simulate="num=6000", depth=40, workers=12, timeout=900,
                        inst_a=2, others="O2")
        for table in ("S_q1", "S_t1b", "S_t1d", "S_t1a"):
            jobs = three_client_jobs(ctx, "three" + table, table, nmerge=1200, emit_mod=20, max_inst=2, max_pw=1, stray=1)
            differential(ctx, "three" + table, table, jobs, **CLASSY)
    if not ctx.cov.get("differential_steps_compared"):
        raise MachineryError("vacuous run: nothing compared")


def replay(ctx, body):
    rp = body["replay"]
    if rp.get("kind") == "iauth-diff":
        res = DF.diff_runs(ctx, [(0, rp["with"], rp["without"], [tuple(p) for p in rp["pairs"]], True)], rp["svcs"], nproc=1,
                           **rp.get("opts", {}))
        bad, n = DF.validate_diffs(ctx, res)
        if bad:
            ctx.violation("other clients' traffic changed a client's conversation (replay)", "diff", body["signature"], rp)
        ctx.cov.update(evaluations=n, distinct_nontrivial=2, rule="replay of one recorded pair", samples=[R.hist_short(rp["with"])])
    else:
        R.replay_file(ctx, body, OWN)
