---- MODULE NonInterf_TTrace_1790614320 ----
EXTENDS Sequences, TLCExt, Toolbox, NonInterf, Naturals, TLC

_expression ==
    LET NonInterf_TEExpression == INSTANCE NonInterf_TEExpression
    IN NonInterf_TEExpression!expression
----

_trace ==
    LET NonInterf_TETrace == INSTANCE NonInterf_TETrace
    IN NonInterf_TETrace!trace
----

_inv ==
    ~(
        TLCGet("level") = Len(_TETrace)
        /\
        ev2 = ([e |-> "P", id |-> 5, shape |-> "ok", modes |-> <<"-", "!">>, cred |-> <<"p5", 10>>, raw |-> <<"P5", 0>>])
        /\
        r2 = ((5 :> [serial |-> 1, nick |-> <<"", 0>>, real |-> <<"", 0>>, modes |-> {}, addr |-> "A5", port |-> 1005, timer |-> "armed", ref |-> {1}, password |-> <<"p5", 10>>, client |-> 5, flags |-> {"pw"}, holds |-> 0, soft |-> 1, timedout |-> FALSE, hostname |-> <<"", 0>>, cliuser |-> <<"", 0>>, clitilde |-> FALSE, authuser |-> <<"", 0>>, account |-> <<"", 0>>, sent |-> {1}, more |-> {}, ok |-> {}]))
        /\
        ev1 = ([e |-> "P", id |-> 5, shape |-> "ok", modes |-> <<"-", "!">>, cred |-> <<"p5", 10>>, raw |-> <<"P5", 0>>])
        /\
        about = ("other")
        /\
        tags1 = (<<"5_1">>)
        /\
        tags2 = (<<"5_1">>)
        /\
        out2 = (<<[cred |-> <<"p5", 10>>, tag |-> "5_1", k |-> "X", svc |-> "a1.svc", q |-> "LOGIN"]>>)
        /\
        npw = ((5 :> 1 @@ 6 :> 0))
        /\
        out1 = (<<[cred |-> <<"p5", 10>>, tag |-> "5_1", k |-> "X", svc |-> "a1.svc", q |-> "LOGIN"]>>)
        /\
        inst = ((5 :> 1 @@ 6 :> 1))
        /\
        sl2 = (<<[name |-> "a1.svc", type |-> "login", configured |-> TRUE, used |-> TRUE, refs |-> 1], [name |-> "b2.svc", type |-> "dronecheck", configured |-> TRUE, used |-> TRUE, refs |-> 0]>>)
        /\
        sl1 = (<<[name |-> "a1.svc", type |-> "login", configured |-> TRUE, used |-> TRUE, refs |-> 1], [name |-> "b2.svc", type |-> "dronecheck", configured |-> TRUE, used |-> TRUE, refs |-> 0]>>)
        /\
        s1 = (2)
        /\
        r1 = ((5 :> [serial |-> 1, nick |-> <<"", 0>>, real |-> <<"", 0>>, modes |-> {}, addr |-> "A5", port |-> 1005, timer |-> "armed", ref |-> {1}, password |-> <<"p6", 10>>, client |-> 5, flags |-> {"pw"}, holds |-> 0, soft |-> 1, timedout |-> FALSE, hostname |-> <<"", 0>>, cliuser |-> <<"", 0>>, clitilde |-> FALSE, authuser |-> <<"", 0>>, account |-> <<"", 0>>, sent |-> {1}, more |-> {}, ok |-> {}] @@ 6 :> [serial |-> 2, nick |-> <<"", 0>>, real |-> <<"", 0>>, modes |-> {}, addr |-> "A6", port |-> 1006, timer |-> "armed", ref |-> {}, password |-> <<"", 0>>, client |-> 6, flags |-> {}, holds |-> 0, soft |-> 0, timedout |-> FALSE, hostname |-> <<"", 0>>, cliuser |-> <<"", 0>>, clitilde |-> FALSE, authuser |-> <<"", 0>>, account |-> <<"", 0>>, sent |-> {}, more |-> {}, ok |-> {}]))
        /\
        s2 = (1)
    )
----

_init ==
    /\ about = _TETrace[1].about
    /\ tags1 = _TETrace[1].tags1
    /\ tags2 = _TETrace[1].tags2
    /\ ev1 = _TETrace[1].ev1
    /\ ev2 = _TETrace[1].ev2
    /\ npw = _TETrace[1].npw
    /\ sl1 = _TETrace[1].sl1
    /\ sl2 = _TETrace[1].sl2
    /\ r1 = _TETrace[1].r1
    /\ r2 = _TETrace[1].r2
    /\ out1 = _TETrace[1].out1
    /\ out2 = _TETrace[1].out2
    /\ s1 = _TETrace[1].s1
    /\ s2 = _TETrace[1].s2
    /\ inst = _TETrace[1].inst
----

_next ==
    /\ \E i,j \in DOMAIN _TETrace:
        /\ \/ /\ j = i + 1
              /\ i = TLCGet("level")
        /\ about  = _TETrace[i].about
        /\ about' = _TETrace[j].about
        /\ tags1  = _TETrace[i].tags1
        /\ tags1' = _TETrace[j].tags1
        /\ tags2  = _TETrace[i].tags2
        /\ tags2' = _TETrace[j].tags2
        /\ ev1  = _TETrace[i].ev1
        /\ ev1' = _TETrace[j].ev1
        /\ ev2  = _TETrace[i].ev2
        /\ ev2' = _TETrace[j].ev2
        /\ npw  = _TETrace[i].npw
        /\ npw' = _TETrace[j].npw
        /\ sl1  = _TETrace[i].sl1
        /\ sl1' = _TETrace[j].sl1
        /\ sl2  = _TETrace[i].sl2
        /\ sl2' = _TETrace[j].sl2
        /\ r1  = _TETrace[i].r1
        /\ r1' = _TETrace[j].r1
        /\ r2  = _TETrace[i].r2
        /\ r2' = _TETrace[j].r2
        /\ out1  = _TETrace[i].out1
        /\ out1' = _TETrace[j].out1
        /\ out2  = _TETrace[i].out2
        /\ out2' = _TETrace[j].out2
        /\ s1  = _TETrace[i].s1
        /\ s1' = _TETrace[j].s1
        /\ s2  = _TETrace[i].s2
        /\ s2' = _TETrace[j].s2
        /\ inst  = _TETrace[i].inst
        /\ inst' = _TETrace[j].inst

\* Uncomment the ASSUME below to write the states of the error trace
\* to the given file in Json format. Note that you can pass any tuple
\* to `JsonSerialize`. For example, a sub-sequence of _TETrace.
    \* ASSUME
    \*     LET J == INSTANCE Json
    \*         IN J!JsonSerialize("NonInterf_TTrace_1790614320.json", _TETrace)

=============================================================================

 Note that you can extract this module `NonInterf_TEExpression`
  to a dedicated file to reuse `expression` (the module in the 
  dedicated `NonInterf_TEExpression.tla` file takes precedence 
  over the module `NonInterf_TEExpression` below).

---- MODULE NonInterf_TEExpression ----
EXTENDS Sequences, TLCExt, Toolbox, NonInterf, Naturals, TLC

expression == 
    [
        \* To hide variables of the `NonInterf` spec from the error trace,
        \* remove the variables below.  The trace will be written in the order
        \* of the fields of this record.
        about |-> about
        ,tags1 |-> tags1
        ,tags2 |-> tags2
        ,ev1 |-> ev1
        ,ev2 |-> ev2
        ,npw |-> npw
        ,sl1 |-> sl1
        ,sl2 |-> sl2
        ,r1 |-> r1
        ,r2 |-> r2
        ,out1 |-> out1
        ,out2 |-> out2
        ,s1 |-> s1
        ,s2 |-> s2
        ,inst |-> inst
        
        \* Put additional constant-, state-, and action-level expressions here:
        \* ,_stateNumber |-> _TEPosition
        \* ,_aboutUnchanged |-> about = about'
        
        \* Format the `about` variable as Json value.
        \* ,_aboutJson |->
        \*     LET J == INSTANCE Json
        \*     IN J!ToJson(about)
        
        \* Lastly, you may build expressions over arbitrary sets of states by
        \* leveraging the _TETrace operator.  For example, this is how to
        \* count the number of times a spec variable changed up to the current
        \* state in the trace.
        \* ,_aboutModCount |->
        \*     LET F[s \in DOMAIN _TETrace] ==
        \*         IF s = 1 THEN 0
        \*         ELSE IF _TETrace[s].about # _TETrace[s-1].about
        \*             THEN 1 + F[s-1] ELSE F[s-1]
        \*     IN F[_TEPosition - 1]
    ]

=============================================================================



Parsing and semantic processing can take forever if the trace below is long.
 In this case, it is advised to uncomment the module below to deserialize the
 trace from a generated binary file.

\*
\*---- MODULE NonInterf_TETrace ----
\*EXTENDS IOUtils, NonInterf, TLC
\*
\*trace == IODeserialize("NonInterf_TTrace_1790614320.bin", TRUE)
\*
\*=============================================================================
\*

---- MODULE NonInterf_TETrace ----
EXTENDS NonInterf, TLC

trace == 
    <<
    ([ev2 |-> [e |-> "init"],r2 |-> <<>>,ev1 |-> [e |-> "init"],about |-> "other",tags1 |-> <<>>,tags2 |-> <<>>,out2 |-> <<>>,npw |-> (5 :> 0 @@ 6 :> 0),out1 |-> <<>>,inst |-> (5 :> 0 @@ 6 :> 0),sl2 |-> <<[name |-> "a1.svc", type |-> "login", configured |-> TRUE, used |-> TRUE, refs |-> 0], [name |-> "b2.svc", type |-> "dronecheck", configured |-> TRUE, used |-> TRUE, refs |-> 0]>>,sl1 |-> <<[name |-> "a1.svc", type |-> "login", configured |-> TRUE, used |-> TRUE, refs |-> 0], [name |-> "b2.svc", type |-> "dronecheck", configured |-> TRUE, used |-> TRUE, refs |-> 0]>>,s1 |-> 0,r1 |-> <<>>,s2 |-> 0]),
    ([ev2 |-> [e |-> "C", id |-> 5, addr |-> "A5", port |-> 1005],r2 |-> (5 :> [serial |-> 1, nick |-> <<"", 0>>, real |-> <<"", 0>>, modes |-> {}, addr |-> "A5", port |-> 1005, timer |-> "armed", ref |-> {}, password |-> <<"", 0>>, client |-> 5, flags |-> {}, holds |-> 0, soft |-> 0, timedout |-> FALSE, hostname |-> <<"", 0>>, cliuser |-> <<"", 0>>, clitilde |-> FALSE, authuser |-> <<"", 0>>, account |-> <<"", 0>>, sent |-> {}, more |-> {}, ok |-> {}]),ev1 |-> [e |-> "C", id |-> 5, addr |-> "A5", port |-> 1005],about |-> "A",tags1 |-> <<"5_1">>,tags2 |-> <<"5_1">>,out2 |-> <<>>,npw |-> (5 :> 0 @@ 6 :> 0),out1 |-> <<>>,inst |-> (5 :> 1 @@ 6 :> 0),sl2 |-> <<[name |-> "a1.svc", type |-> "login", configured |-> TRUE, used |-> TRUE, refs |-> 0], [name |-> "b2.svc", type |-> "dronecheck", configured |-> TRUE, used |-> TRUE, refs |-> 0]>>,sl1 |-> <<[name |-> "a1.svc", type |-> "login", configured |-> TRUE, used |-> TRUE, refs |-> 0], [name |-> "b2.svc", type |-> "dronecheck", configured |-> TRUE, used |-> TRUE, refs |-> 0]>>,s1 |-> 1,r1 |-> (5 :> [serial |-> 1, nick |-> <<"", 0>>, real |-> <<"", 0>>, modes |-> {}, addr |-> "A5", port |-> 1005, timer |-> "armed", ref |-> {}, password |-> <<"", 0>>, client |-> 5, flags |-> {}, holds |-> 0, soft |-> 0, timedout |-> FALSE, hostname |-> <<"", 0>>, cliuser |-> <<"", 0>>, clitilde |-> FALSE, authuser |-> <<"", 0>>, account |-> <<"", 0>>, sent |-> {}, more |-> {}, ok |-> {}]),s2 |-> 1]),
    ([ev2 |-> [e |-> "C", id |-> 5, addr |-> "A5", port |-> 1005],r2 |-> (5 :> [serial |-> 1, nick |-> <<"", 0>>, real |-> <<"", 0>>, modes |-> {}, addr |-> "A5", port |-> 1005, timer |-> "armed", ref |-> {}, password |-> <<"", 0>>, client |-> 5, flags |-> {}, holds |-> 0, soft |-> 0, timedout |-> FALSE, hostname |-> <<"", 0>>, cliuser |-> <<"", 0>>, clitilde |-> FALSE, authuser |-> <<"", 0>>, account |-> <<"", 0>>, sent |-> {}, more |-> {}, ok |-> {}]),ev1 |-> [e |-> "C", id |-> 6, addr |-> "A6", port |-> 1006],about |-> "other",tags1 |-> <<"5_1">>,tags2 |-> <<"5_1">>,out2 |-> <<>>,npw |-> (5 :> 0 @@ 6 :> 0),out1 |-> <<>>,inst |-> (5 :> 1 @@ 6 :> 1),sl2 |-> <<[name |-> "a1.svc", type |-> "login", configured |-> TRUE, used |-> TRUE, refs |-> 0], [name |-> "b2.svc", type |-> "dronecheck", configured |-> TRUE, used |-> TRUE, refs |-> 0]>>,sl1 |-> <<[name |-> "a1.svc", type |-> "login", configured |-> TRUE, used |-> TRUE, refs |-> 0], [name |-> "b2.svc", type |-> "dronecheck", configured |-> TRUE, used |-> TRUE, refs |-> 0]>>,s1 |-> 2,r1 |-> (5 :> [serial |-> 1, nick |-> <<"", 0>>, real |-> <<"", 0>>, modes |-> {}, addr |-> "A5", port |-> 1005, timer |-> "armed", ref |-> {}, password |-> <<"", 0>>, client |-> 5, flags |-> {}, holds |-> 0, soft |-> 0, timedout |-> FALSE, hostname |-> <<"", 0>>, cliuser |-> <<"", 0>>, clitilde |-> FALSE, authuser |-> <<"", 0>>, account |-> <<"", 0>>, sent |-> {}, more |-> {}, ok |-> {}] @@ 6 :> [serial |-> 2, nick |-> <<"", 0>>, real |-> <<"", 0>>, modes |-> {}, addr |-> "A6", port |-> 1006, timer |-> "armed", ref |-> {}, password |-> <<"", 0>>, client |-> 6, flags |-> {}, holds |-> 0, soft |-> 0, timedout |-> FALSE, hostname |-> <<"", 0>>, cliuser |-> <<"", 0>>, clitilde |-> FALSE, authuser |-> <<"", 0>>, account |-> <<"", 0>>, sent |-> {}, more |-> {}, ok |-> {}]),s2 |-> 1]),
    ([ev2 |-> [e |-> "P", id |-> 5, shape |-> "ok", modes |-> <<"-", "!">>, cred |-> <<"p5", 10>>, raw |-> <<"P5", 0>>],r2 |-> (5 :> [serial |-> 1, nick |-> <<"", 0>>, real |-> <<"", 0>>, modes |-> {}, addr |-> "A5", port |-> 1005, timer |-> "armed", ref |-> {1}, password |-> <<"p5", 10>>, client |-> 5, flags |-> {"pw"}, holds |-> 0, soft |-> 1, timedout |-> FALSE, hostname |-> <<"", 0>>, cliuser |-> <<"", 0>>, clitilde |-> FALSE, authuser |-> <<"", 0>>, account |-> <<"", 0>>, sent |-> {1}, more |-> {}, ok |-> {}]),ev1 |-> [e |-> "P", id |-> 5, shape |-> "ok", modes |-> <<"-", "!">>, cred |-> <<"p5", 10>>, raw |-> <<"P5", 0>>],about |-> "A",tags1 |-> <<"5_1">>,tags2 |-> <<"5_1">>,out2 |-> <<[cred |-> <<"p5", 10>>, tag |-> "5_1", k |-> "X", svc |-> "a1.svc", q |-> "LOGIN"]>>,npw |-> (5 :> 1 @@ 6 :> 0),out1 |-> <<[cred |-> <<"p5", 10>>, tag |-> "5_1", k |-> "X", svc |-> "a1.svc", q |-> "LOGIN"]>>,inst |-> (5 :> 1 @@ 6 :> 1),sl2 |-> <<[name |-> "a1.svc", type |-> "login", configured |-> TRUE, used |-> TRUE, refs |-> 1], [name |-> "b2.svc", type |-> "dronecheck", configured |-> TRUE, used |-> TRUE, refs |-> 0]>>,sl1 |-> <<[name |-> "a1.svc", type |-> "login", configured |-> TRUE, used |-> TRUE, refs |-> 1], [name |-> "b2.svc", type |-> "dronecheck", configured |-> TRUE, used |-> TRUE, refs |-> 0]>>,s1 |-> 2,r1 |-> (5 :> [serial |-> 1, nick |-> <<"", 0>>, real |-> <<"", 0>>, modes |-> {}, addr |-> "A5", port |-> 1005, timer |-> "armed", ref |-> {1}, password |-> <<"p5", 10>>, client |-> 5, flags |-> {"pw"}, holds |-> 0, soft |-> 1, timedout |-> FALSE, hostname |-> <<"", 0>>, cliuser |-> <<"", 0>>, clitilde |-> FALSE, authuser |-> <<"", 0>>, account |-> <<"", 0>>, sent |-> {1}, more |-> {}, ok |-> {}] @@ 6 :> [serial |-> 2, nick |-> <<"", 0>>, real |-> <<"", 0>>, modes |-> {}, addr |-> "A6", port |-> 1006, timer |-> "armed", ref |-> {}, password |-> <<"", 0>>, client |-> 6, flags |-> {}, holds |-> 0, soft |-> 0, timedout |-> FALSE, hostname |-> <<"", 0>>, cliuser |-> <<"", 0>>, clitilde |-> FALSE, authuser |-> <<"", 0>>, account |-> <<"", 0>>, sent |-> {}, more |-> {}, ok |-> {}]),s2 |-> 1]),
    ([ev2 |-> [e |-> "P", id |-> 5, shape |-> "ok", modes |-> <<"-", "!">>, cred |-> <<"p5", 10>>, raw |-> <<"P5", 0>>],r2 |-> (5 :> [serial |-> 1, nick |-> <<"", 0>>, real |-> <<"", 0>>, modes |-> {}, addr |-> "A5", port |-> 1005, timer |-> "armed", ref |-> {1}, password |-> <<"p5", 10>>, client |-> 5, flags |-> {"pw"}, holds |-> 0, soft |-> 1, timedout |-> FALSE, hostname |-> <<"", 0>>, cliuser |-> <<"", 0>>, clitilde |-> FALSE, authuser |-> <<"", 0>>, account |-> <<"", 0>>, sent |-> {1}, more |-> {}, ok |-> {}]),ev1 |-> [e |-> "P", id |-> 5, shape |-> "ok", modes |-> <<"-", "!">>, cred |-> <<"p5", 10>>, raw |-> <<"P5", 0>>],about |-> "other",tags1 |-> <<"5_1">>,tags2 |-> <<"5_1">>,out2 |-> <<[cred |-> <<"p5", 10>>, tag |-> "5_1", k |-> "X", svc |-> "a1.svc", q |-> "LOGIN"]>>,npw |-> (5 :> 1 @@ 6 :> 0),out1 |-> <<[cred |-> <<"p5", 10>>, tag |-> "5_1", k |-> "X", svc |-> "a1.svc", q |-> "LOGIN"]>>,inst |-> (5 :> 1 @@ 6 :> 1),sl2 |-> <<[name |-> "a1.svc", type |-> "login", configured |-> TRUE, used |-> TRUE, refs |-> 1], [name |-> "b2.svc", type |-> "dronecheck", configured |-> TRUE, used |-> TRUE, refs |-> 0]>>,sl1 |-> <<[name |-> "a1.svc", type |-> "login", configured |-> TRUE, used |-> TRUE, refs |-> 1], [name |-> "b2.svc", type |-> "dronecheck", configured |-> TRUE, used |-> TRUE, refs |-> 0]>>,s1 |-> 2,r1 |-> (5 :> [serial |-> 1, nick |-> <<"", 0>>, real |-> <<"", 0>>, modes |-> {}, addr |-> "A5", port |-> 1005, timer |-> "armed", ref |-> {1}, password |-> <<"p6", 10>>, client |-> 5, flags |-> {"pw"}, holds |-> 0, soft |-> 1, timedout |-> FALSE, hostname |-> <<"", 0>>, cliuser |-> <<"", 0>>, clitilde |-> FALSE, authuser |-> <<"", 0>>, account |-> <<"", 0>>, sent |-> {1}, more |-> {}, ok |-> {}] @@ 6 :> [serial |-> 2, nick |-> <<"", 0>>, real |-> <<"", 0>>, modes |-> {}, addr |-> "A6", port |-> 1006, timer |-> "armed", ref |-> {}, password |-> <<"", 0>>, client |-> 6, flags |-> {}, holds |-> 0, soft |-> 0, timedout |-> FALSE, hostname |-> <<"", 0>>, cliuser |-> <<"", 0>>, clitilde |-> FALSE, authuser |-> <<"", 0>>, account |-> <<"", 0>>, sent |-> {}, more |-> {}, ok |-> {}]),s2 |-> 1])
    >>
----


=============================================================================

---- CONFIG NonInterf_TTrace_1790614320 ----
CONSTANTS
    Services <- S_q1
    TimeoutOn = TRUE
    Bug <- NoBug
    A = 5
    Others <- O1
    MaxInstA = 2
    MaxInstO = 1
    MaxPw = 1
    OtherFull = FALSE
    NIBug <- NIBugShare

INVARIANT
    _inv

CHECK_DEADLOCK
    \* CHECK_DEADLOCK off because of PROPERTY or INVARIANT above.
    FALSE

INIT
    _init

NEXT
    _next

CONSTANT
    _TETrace <- _trace

ALIAS
    _expression
=============================================================================
\* Generated on Mon Sep 28 16:52:02 UTC 2026