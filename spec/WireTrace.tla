----------------------------- MODULE WireTrace -----------------------------
(***************************************************************************)
(* Trace validation for property C09 - the oracle.  The ndjson file named  *)
(* by TRACE holds what the REAL daemon wrote to its stdout, byte for byte: *)
(*   {"e":"Reset","banner":[line,...]}     fresh daemon: every line from   *)
(*                                          the version banner up to the   *)
(*                                          policy line                    *)
(*   {"e":"S","ev":{..},"raw":[line,...]}  one input line (or signal /     *)
(*                                          pause) and every line the      *)
(*                                          daemon wrote until the barrier *)
(*                                          (the barrier's own statistics  *)
(*                                          report included)               *)
(* A line is an array of character codes.  A "C" event carries the address *)
(* text the server announced ("sent") and the port.                        *)
(* Every line must be one well-formed IAuth message (IAuthWire!WellFormed) *)
(* and, if client-directed, correctly addressed (IAuthWire!Addressed) with *)
(* respect to the announcements seen so far.  Offending lines are printed  *)
(* as "@@V".  The walk is deterministic: accepted iff depth = lines + 1.   *)
(***************************************************************************)
EXTENDS IAuthWire, TLC, Json, IOUtils

VARIABLES l, ann

TraceLog == ndJsonDeserialize(IOEnv.TRACE)

TInit == l = 1 /\ ann = <<>>

BadLines(lines, a) ==
    { [n |-> n, v |-> (IF WellFormed(lines[n]) THEN {} ELSE {"P09_form"})
                      \cup (IF Addressed(lines[n], a) THEN {} ELSE {"P09_addr"})] : n \in 1..Len(lines) }
Offending(lines, a) == {b \in BadLines(lines, a) : b.v # {}}

TReset == /\ TraceLog[l].e = "Reset"
          /\ LET rec == TraceLog[l]
                 lines == IF "banner" \in DOMAIN rec THEN rec.banner ELSE <<>>
                 off == Offending(lines, <<>>)
                 first == lines = <<>> \/ (lines[1] # <<>> /\ lines[1][1] = 86)       \* "V"
             IN /\ IF off = {} /\ first THEN TRUE
                   ELSE PrintT("@@V" \o ToJson([l |-> l, bad |-> off, banner |-> first]))
          /\ ann' = <<>>
          /\ l' = l + 1

TStep == /\ TraceLog[l].e = "S"
         /\ LET rec == TraceLog[l]
                isC == rec.ev.e = "C" /\ "sent" \in DOMAIN rec.ev
                a == IF isC THEN AD!Denote(rec.ev.sent) ELSE AD!Bad
                ann2 == IF isC /\ a # AD!Bad
                        THEN [i \in DOMAIN ann \cup {rec.ev.id} |->
                                 IF i = rec.ev.id THEN [addr |-> a, port |-> rec.ev.port] ELSE ann[i]]
                        ELSE ann
                lines == IF "raw" \in DOMAIN rec THEN rec.raw ELSE <<>>
                \* the barrier ("-1 ? stats2") is answered by a block whose first line is "S iauth :<n>-<m> reqs alloc, ..." and
                \* whose last line is "s", each on a line of its own (rec.bar = those two lines, or <<>> if the driver found none)
                barOK == "bar" \notin DOMAIN rec
                         \/ (Len(rec.bar) = 2 /\ Len(rec.bar[1]) > 2 /\ SubSeq(rec.bar[1], 1, 2) = T("S ")
                             /\ rec.bar[2] = T("s") /\ WellFormed(rec.bar[1]))
                off == Offending(lines, ann2) \cup (IF barOK THEN {} ELSE {[n |-> 0, v |-> {"P09_form"}]})
            IN /\ ann' = ann2
               /\ IF isC /\ a = AD!Bad THEN PrintT("@@M" \o ToJson([l |-> l, what |-> "announced address text not understood by Denote"])) ELSE TRUE
               /\ IF off = {} THEN TRUE ELSE PrintT("@@V" \o ToJson([l |-> l, bad |-> off]))
         /\ l' = l + 1

TOther == /\ TraceLog[l].e \notin {"Reset", "S"}
          /\ UNCHANGED ann
          /\ l' = l + 1

TNext == l <= Len(TraceLog) /\ (TReset \/ TStep \/ TOther)
=============================================================================
