------------------------------ MODULE ConfTrace ------------------------------
(***************************************************************************)
(* Trace validation for property C15: the ndjson trace that harness/h_conf *)
(* printed while driving the real src/config.c (dump of the live tree and  *)
(* hook log after every command) is checked, step by step,                 *)
(*   - against the contract (A) of Conf.tla: the oracle; a conjunct that   *)
(*     fails is put into `failed` (invariants C15_* name them) and printed *)
(*     as an "@@V" line;                                                    *)
(*   - against what the implementation-shaped operators (B) of Conf.tla    *)
(*     compute from the observed state before the step: a difference is    *)
(*     printed as an "@@D" line (drift), never a failure.                   *)
(*                                                                         *)
(* Trace file: line 1 {"e":"Header","names":[all names, strcasecmp order]},*)
(* then histories: {"e":"Reset",...}, per command a "begin" and an "end"   *)
(* line, and {"e":"exit","st":..,"sig":..} when the process is gone.  A    *)
(* "begin" without "end" (crash, sanitizer abort), a non-zero exit status  *)
(* or any other shape no action consumes makes the history `stuck`: it is   *)
(* skipped up to the next Reset so that one run judges every history.      *)
(*                                                                         *)
(* Variables of Conf.tla reused here: live = the tree observed after the   *)
(* last step, reg = registrations seen, last = <<>> or <<last good file>>. *)
(***************************************************************************)
EXTENDS Conf, IOUtils

TraceLog == ndJsonDeserialize(IOEnv.TRACE)
N == Len(TraceLog)
TraceNameOrd == LET names == TraceLog[1].names
                IN [n \in Range(names) |-> CHOOSE j \in 1..Len(names) : names[j] = n]
NoOpts == <<>>
NoKeys == {}

VARIABLES l,        \* next line to consume
          failed    \* names of the contract conjuncts the step just taken violates
tvars == <<l, failed, live, reg, last, phase, ev, hooks, hist>>

-----------------------------------------------------------------------------
(* reading the harness's records *)
KeyOfRec(r) == <<r.p, r.k>>

TreeOf(e) ==
  LET recs == e.tree
      keys == {KeyOfRec(recs[j]) : j \in 1..Len(recs)}
  IN [k \in keys \cup {RootKey} |->
        IF k = RootKey
        THEN [RootNode EXCEPT !.pr = (e.root.pr = 1), !.sp = (e.root.sp = 1)]
        ELSE LET r == recs[CHOOSE j \in 1..Len(recs) : KeyOfRec(recs[j]) = k]
             IN [pr |-> r.pr = 1, sp |-> r.sp = 1, v |-> r.v, d |-> r.d, s |-> r.s, z |-> r.z]]

DumpKeys(e) == [j \in 1..Len(e.tree) |-> KeyOfRec(e.tree[j])]
NoDuplicates(e) == \A i, j \in 1..Len(e.tree) : KeyOfRec(e.tree[i]) = KeyOfRec(e.tree[j]) => i = j
HookSeq(e) == [j \in 1..Len(e.hooks) |-> KeyOfRec(e.hooks[j])]
FileOf(b) ==
  LET f == b.f
  IN [k \in {KeyOfRec(f[j]) : j \in 1..Len(f)} |-> f[CHOOSE j \in 1..Len(f) : KeyOfRec(f[j]) = k].v]

IsPair(i) == /\ i + 1 <= N
             /\ TraceLog[i].e = "begin" /\ TraceLog[i + 1].e = "end"
             /\ TraceLog[i].n = TraceLog[i + 1].n
IsBad(b) == "bad" \in DOMAIN b

Names(S) == {c[1] : c \in {c \in S : c[2]}}      \* S: set of <<name, holds>>; the names that do not hold

Report(tag, i, what) == what = {} \/ PrintT(<<tag, i, what>>)

-----------------------------------------------------------------------------
TInit ==
  /\ l = 2
  /\ failed = {}
  /\ live = EmptyTree /\ reg = <<>> /\ last = <<>>
  /\ phase = 0 /\ ev = [op |-> "trace"] /\ hooks = <<>> /\ hist = <<>>

Quiet == UNCHANGED <<phase, ev, hooks, hist>>

Reset ==
  /\ l <= N /\ TraceLog[l].e = "Reset"
  /\ live' = EmptyTree /\ reg' = <<>> /\ last' = <<>>
  /\ failed' = {}
  /\ l' = l + 1
  /\ Quiet

Exit ==
  /\ l <= N /\ TraceLog[l].e = "exit" /\ TraceLog[l].st = 0 /\ TraceLog[l].sig = 0
  /\ failed' = {}
  /\ l' = l + 1
  /\ UNCHANGED <<live, reg, last>> /\ Quiet

Dump ==
  /\ IsPair(l) /\ TraceLog[l].op = "dump"
  /\ failed' = {}
  /\ l' = l + 2
  /\ UNCHANGED <<live, reg, last>> /\ Quiet

RegisterStep ==
  /\ IsPair(l) /\ TraceLog[l].op = "reg"
  /\ LET b == TraceLog[l]
         e == TraceLog[l + 1]
         k == KeyOfRec(b)
         o == [d |-> b.d, s |-> b.s]
         post == TreeOf(e)
         reg2 == (k :> o) @@ reg
         bad == Names({ <<"C15_Register", ~(NoDuplicates(e) /\ RegisterOK(reg2, last, live, post, k))>> })
         pred == RegisterImpl(live, k, o)
         drift == Names({ <<"tree", pred # post>>,
                          <<"order", DumpKeys(e) # DumpOrder(DOMAIN post, <<>>)>>,
                          <<"hooks", e.hooks # <<>> >> })
     IN /\ failed' = bad
        /\ Report("@@V", l, bad)
        /\ Report("@@D", l, IF bad = {} THEN drift ELSE {})
        /\ live' = post
        /\ reg' = reg2
  /\ l' = l + 2
  /\ UNCHANGED last /\ Quiet

LoadStep ==
  /\ IsPair(l) /\ TraceLog[l].op = "load" /\ ~IsBad(TraceLog[l]) /\ TraceLog[l + 1].rc = 0
  /\ LET b == TraceLog[l]
         e == TraceLog[l + 1]
         file == FileOf(b)
         post == TreeOf(e)
         hk == HookSeq(e)
         bad == Names({ <<"C15_Values", ~ValuesOK(reg, file, post)>>,
                        <<"C15_Leftovers", ~(NoDuplicates(e) /\ LeftoversGone(reg, file, post))>>,
                        <<"C15_FileNodes", ~FileNodesOK(file, post)>>,
                        <<"C15_Idempotent", ~IdempotentOK(reg, file, last, live, post, hk)>>,
                        <<"C15_SettingHook", ~SettingHookOK(reg, live, post, hk)>>,
                        <<"C15_ObjectHook", ~ObjectHookOK(reg, live, post, hk)>> })
         pred == MergeImpl(live, file)
         drift == Names({ <<"tree", pred.t # post>>,
                          <<"order", DumpKeys(e) # DumpOrder(DOMAIN post, <<>>)>>,
                          <<"hooks", pred.h # hk>> })
     IN /\ failed' = bad
        /\ Report("@@V", l, bad)
        /\ Report("@@D", l, IF bad = {} THEN drift ELSE {})
        /\ live' = post
        /\ last' = <<file>>
  /\ l' = l + 2
  /\ UNCHANGED reg /\ Quiet

(* conf_read() reported an error: the last good state stays.  (A file that was meant to be good *)
(* and does not load is counted by the driver; the contract only speaks about successful loads.) *)
FailedLoadStep ==
  /\ IsPair(l) /\ TraceLog[l].op = "load" /\ TraceLog[l + 1].rc # 0
  /\ LET e == TraceLog[l + 1]
         post == TreeOf(e)
         bad == Names({ <<"C15_LastGood", ~(NoDuplicates(e) /\ FailedLoadOK(reg, live, post, HookSeq(e)))>> })
         drift == Names({ <<"tree", live # post>> })
     IN /\ failed' = bad
        /\ Report("@@V", l, bad)
        /\ Report("@@D", l, IF bad = {} THEN drift ELSE {})
        /\ live' = post
  /\ l' = l + 2
  /\ UNCHANGED <<reg, last>> /\ Quiet

Consumable ==
  /\ l <= N
  /\ \/ TraceLog[l].e = "Reset"
     \/ TraceLog[l].e = "exit" /\ TraceLog[l].st = 0 /\ TraceLog[l].sig = 0
     \/ IsPair(l) /\ TraceLog[l].op \in {"dump", "reg"}
     \/ IsPair(l) /\ TraceLog[l].op = "load" /\ (TraceLog[l + 1].rc # 0 \/ ~IsBad(TraceLog[l]))

(* a step that did not complete (crash, sanitizer abort: "begin" without "end"), a process that *)
(* did not exit cleanly, a deliberately broken file that loaded: give the history up            *)
NextReset(i) == IF \E j \in i..N : TraceLog[j].e = "Reset"
                THEN CHOOSE j \in i..N : TraceLog[j].e = "Reset" /\ \A m \in i..(j - 1) : TraceLog[m].e # "Reset"
                ELSE N + 1
Stuck ==
  /\ l <= N /\ ~Consumable
  /\ failed' = {"C15_Completes"}
  /\ PrintT(<<"@@V", l, {"C15_Completes"}>>)
  /\ l' = NextReset(l + 1)
  /\ UNCHANGED <<live, reg, last>> /\ Quiet

TNext == Reset \/ Exit \/ Dump \/ RegisterStep \/ LoadStep \/ FailedLoadStep \/ Stuck

TraceSpec == TInit /\ [][TNext]_tvars

(* the whole file was consumed: checked by the driver from this line *)
Done == l > N => PrintT(<<"@@END", l>>)
AtEnd == l <= N \/ PrintT(<<"@@END", l>>)

C15_Completes   == "C15_Completes" \notin failed
C15_Values      == "C15_Values" \notin failed
C15_Leftovers   == "C15_Leftovers" \notin failed
C15_FileNodes   == "C15_FileNodes" \notin failed
C15_Idempotent  == "C15_Idempotent" \notin failed
C15_SettingHook == "C15_SettingHook" \notin failed
C15_ObjectHook  == "C15_ObjectHook" \notin failed
C15_Register    == "C15_Register" \notin failed
C15_LastGood    == "C15_LastGood" \notin failed
=============================================================================
