CONSTANTS
  Services <- TraceServices
  TimeoutOn = TRUE
  Bug <- TraceBug
  RBug <- TraceBug
  NameOrder <- TraceNames
INIT TInit
NEXT TNext
