SPECIFICATION TraceSpec
CONSTANTS
  NameOrd <- TraceNameOrd
  Universe <- NoKeys
  ValOpts <- NoOpts
  RegOpts <- NoOpts
  MaxLoads = 0
  RegPhases = {}
  WithBad = FALSE
  Bug = {}

