\* C20: quick: every case on <= 3 modules (self-dependencies allowed, module_depends() calls in name order, every listing, optionally one module without a shared object); for the GOOD cases the hook profiles <<S, S, {}>> and <<S, complement of S, {}>> (S = modules lacking module_post_init, second component = modules lacking module_destructor, third = modules lacking module_constructor) and <<{}, {}, X>>, <<X, X, X>> for every non-empty set X of modules that declare nothing; all entry points for the others (Python draws profiles for a sample of those)
SPECIFICATION Spec
CONSTANTS
    Source = "enum"
    MaxN = 3
    SelfLoops = TRUE
    DepOrders = "asc"
    WithMissing = TRUE
    WithAnti = FALSE
    Profiles = "goodpaired"
    Bug = "none"
INVARIANTS
    TypeOK LoadingIsInnermostCtor RdependsMirrorsDepends SetEmptyAtExit NoGhostInGoodCase
    B_CtorOnce B_DepsConstructedFirst B_PostInitOnce B_PostInitAfterDeps B_DtorBeforeDeps
    B_StartsComplete B_StopsClean B_AbortsWithError B_NeverRunsPartial
ACTION_CONSTRAINT EmitCase
