CONSTANTS
  EMIT = FALSE
  NFAM = 18
  Bug = {"W16"}
INIT Init
NEXT Next
INVARIANTS Emit DocSane DenotesNet RejectNotPlain AlgoDoc AlgoPlain
