\* exhaustive: 2 client ids, at most 3 announcements, timers fired by the environment (hook semantics)
CONSTANTS
  Ids = {1, 2}
  TimeoutOn = TRUE
  RealTime = FALSE
  MaxSerial = 3
  MaxNow = 0
  GenDepth = 0
  Stream = FALSE
INIT Init
NEXT Next
VIEW View
CONSTRAINT Bounded
INVARIANT LedgerExact
INVARIANT LedgerData
INVARIANT LedgerTimers
INVARIANT ArmedOwned
INVARIANT TimerAgree
INVARIANT LedgerCounters
INVARIANT InUseAgrees
INVARIANT NoReadyLeft
INVARIANT NoOverdue
INVARIANT SerialsUnique
