SPECIFICATION MCSpec
CONSTANTS Keys = {1, 2, 3, 4, 5, 6, 7, 8}
  StaleMode = "poison"
  BugStaleLinks = FALSE
VIEW View
INVARIANTS TypeOK SearchTreeOrder TreeIsAllNodes ListIsInOrder CountOK InsertIgnoresStale
PROPERTY RefinesDirected
ACTION_CONSTRAINT Emit
