#!/usr/bin/env python3
"""Confirm a seeded defect delivered by an independent agent and run our checks against it.

usage: bin/seed_eval.py <worktree> <seed dir> <name> <Cxx>[,<Cyy>...] [--tier quick]
  1. in <worktree> (a scratch git worktree of /repo): apply patch.diff, build, `make check` must give 89 ok;
     demo.sh must FAIL; revert, rebuild; demo.sh must PASS.
  2. run bin/vcheck for each listed property against a copy of /repo with the patch applied.
  3. store the seed under /verif/seeded/<name>/ with meta.json recording what was run and the outcome.
"""
import json
import os
import shutil
import subprocess
import sys
import tempfile
import time

VERIF = os.path.dirname(os.path.dirname(os.path.abspath(__file__)))


def sh(cmd, cwd, timeout=900):
    p = subprocess.run(cmd, cwd=cwd, shell=True, stdout=subprocess.PIPE, stderr=subprocess.STDOUT, text=True, timeout=timeout)
    return p.returncode, p.stdout


def main():
    wt, seed, name, props = sys.argv[1:5]
    tier = "quick"
    if "--tier" in sys.argv:
        tier = sys.argv[sys.argv.index("--tier") + 1]
    props = props.split(",")
    patch = os.path.join(seed, "patch.diff")
    res = {"worktree_confirmation": {}, "checks": {}}
    # 1. confirm in the worktree
    sh("git checkout -- src modules", wt)
    rc, out = sh("git apply --check %s && git apply %s" % (patch, patch), wt)
    assert rc == 0, out
    rc, out = sh("make -s -j8 2>&1 | tail -5", wt)
    rc2, out2 = sh("make -s check > /dev/null 2>&1; grep -c '^ok ' tests/test_all.sh.log; grep -c '^not ok ' tests/test_all.sh.log", wt)
    oks = out2.split()
    res["worktree_confirmation"]["patched_build_tests"] = "%s ok / %s not ok" % (oks[0], oks[1] if len(oks) > 1 else "?")
    rc_p, out_p = sh("sh %s %s" % (os.path.join(seed, "demo.sh"), wt), wt, timeout=300)
    res["worktree_confirmation"]["demo_on_patched"] = "exit %d" % rc_p
    sh("git checkout -- src modules", wt)
    sh("make -s -j8 2>&1 | tail -5", wt)
    rc_c, out_c = sh("sh %s %s" % (os.path.join(seed, "demo.sh"), wt), wt, timeout=300)
    res["worktree_confirmation"]["demo_on_clean"] = "exit %d" % rc_c
    ok = oks[0] == "89" and (len(oks) > 1 and oks[1] == "0") and rc_p != 0 and rc_c == 0
    res["confirmed"] = ok
    print("confirmation:", json.dumps(res["worktree_confirmation"]), "=>", "CONFIRMED" if ok else "NOT CONFIRMED", flush=True)
    # 2. our checks
    if ok:
        for prop in props:
            t = time.time()
            p = subprocess.run([os.path.join(VERIF, "bin", "mutant_test.sh"), patch, prop, tier], stdout=subprocess.PIPE,
                               stderr=subprocess.STDOUT, text=True)
            viol = [l for l in p.stdout.splitlines() if l.startswith("VIOLATION")]
            sigs = [l.strip() for l in p.stdout.splitlines() if l.strip().startswith("signature:")][:3]
            status = "caught" if p.returncode == 1 and viol else ("missed" if p.returncode == 0 else "error rc=%d" % p.returncode)
            res["checks"][prop] = {"tier": tier, "status": status, "violations": len(viol), "signatures": sigs,
                                   "wall_s": round(time.time() - t)}
            print("  %s %s: %s (%d violations, %.0fs) %s" % (name, prop, status, len(viol), time.time() - t, sigs[:1]), flush=True)
            if status.startswith("error"):
                print(p.stdout[-1500:])
    # 3. store
    dst = os.path.join(VERIF, "seeded", name)
    if os.path.exists(dst):
        prev = {}
        try:
            prev = json.load(open(os.path.join(dst, "meta.json")))
        except Exception:
            pass
        shutil.rmtree(dst)
    else:
        prev = {}
    shutil.copytree(seed, dst, ignore=shutil.ignore_patterns("*.out", "*.log", "a.out", "prog", "*.o"))
    meta = {}
    try:
        meta = json.load(open(os.path.join(seed, "meta.json")))
    except Exception:
        pass
    meta["source"] = "independent sub-agent given only the property text and its own worktree"
    meta["confirmed_by_us"] = res["worktree_confirmation"]
    meta["confirmed"] = res["confirmed"]
    runs = prev.get("our_checks", {})
    runs.update(res["checks"])
    meta["our_checks"] = runs
    meta["what_we_ran"] = ("git apply patch.diff in a scratch worktree; make && make check (89 ok required); demo.sh on patched "
                           "(must fail) and clean (must pass) builds; bin/mutant_test.sh patch.diff <property> <tier> "
                           "(= bin/vcheck against a patched copy of /repo)")
    with open(os.path.join(dst, "meta.json"), "w") as f:
        json.dump(meta, f, indent=1)
    return 0


if __name__ == "__main__":
    sys.exit(main())
