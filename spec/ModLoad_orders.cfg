\* C20: thorough: as quick, but every order of the module_depends() calls, and for the good cases every <<no post-init, no destructor>> profile with every constructor present (plus, as in quick, every non-empty set of modules that declare nothing lacking the constructor only / every entry point)
SPECIFICATION Spec
CONSTANTS
    Source = "enum"
    MaxN = 3
    SelfLoops = TRUE
    DepOrders = "all"
    WithMissing = TRUE
    WithAnti = FALSE
    Profiles = "goodsplit"
    Bug = "none"
INVARIANTS
    TypeOK LoadingIsInnermostCtor RdependsMirrorsDepends SetEmptyAtExit NoGhostInGoodCase
    B_CtorOnce B_DepsConstructedFirst B_PostInitOnce B_PostInitAfterDeps B_DtorBeforeDeps
    B_StartsComplete B_StopsClean B_AbortsWithError B_NeverRunsPartial
ACTION_CONSTRAINT EmitCase
