#include <stdio.h>
#include <stdlib.h>
#include <string.h>
struct module;
void module_depends(const char *name, ...);
const char *module_get_name(const struct module *mod);
static char self_name[64];
static void ev(const char *what, const char *n){ FILE *f=fopen(getenv("VERIF_MODLOG"),"a"); fprintf(f,"%s %s\n",what,n); fclose(f);} 
__attribute__((visibility("default"))) void module_constructor(const char *name){
  strncpy(self_name,name,63); ev("ctor-begin",name);
  FILE *f=fopen(getenv("VERIF_MODDEPS"),"r"); char line[256];
  while(f && fgets(line,sizeof line,f)){ char *c=strchr(line,':'); if(!c) continue; *c=0; if(strcmp(line,name)) continue;
    char *sv; for(char *t=strtok_r(c+1," \n",&sv); t; t=strtok_r(NULL," \n",&sv)) module_depends(strdup(t), NULL); }
  if(f) fclose(f); ev("ctor-end",name); }
__attribute__((visibility("default"))) void module_post_init(struct module *self){ ev("post-init", module_get_name(self)); }
__attribute__((visibility("default"))) void module_destructor(void){ ev("dtor", self_name); }
