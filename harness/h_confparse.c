// LINK: src/config.c src/set.c src/common.c src/log.c src/module.c src/bitset.c src/accumulators.c src/git-version.c
/* h_confparse - drives the configuration file reader of src/config.c (properties C14, C16).
 *
 * Commands on stdin, one per line, words separated by one space; every string argument is
 * hex-encoded ("-" = NULL, "=" = the empty string) so that any byte can be passed:
 *
 *   regs <pp> <subtype 0..5> <name> <default|->     conf_register_string
 *   regp <pp> <name> <host|-> <service|->           conf_register_inaddr
 *   regl <pp> <name> <item>*                        conf_register_string_list_sv
 *   rego <pp> <name>                                conf_register_object
 *        <pp> = "." (root) or hex names of the enclosing objects joined by "/"
 *              (each is conf_register_object()ed on the way, as a module would)
 *   load <id> <bytes>             conf_read() in this process: builds a prior state
 *   case <id> <bytes> [<bytes>..] fork(); the child conf_read()s the files one after the other
 *                                 on top of the current state and exits: the parent's state is
 *                                 the same for every case, and a crash only truncates the case
 *   dump                          print the live tree
 *
 * Output (stdout, ndjson, flushed per line):
 *   {"e":"begin","id":..,"k":n,"b":[file bytes],"before":DUMP}
 *   {"e":"end","id":..,"k":n,"rc":..,"after":DUMP,"hooks":[{"n":[..],"k":".."}..]}
 *   {"e":"died","id":..,"sig":..,"status":..}        child did not exit normally (crash, sanitizer, alarm)
 *   {"e":"dump","dump":DUMP}
 * A case whose child dies leaves a "begin" without "end" followed by "died": the trace
 * specification has no action for either, so TLC rejects the trace there.
 *
 * DUMP = {"P":present,"c":[NODE..]};  NODE = {"n":[bytes],"k":"s|p|l|o","P":0|1,"S":0|1, ..}
 *   s: "v":OPT "d":OPT "st":subtype "pv":parsed value (int; float in 1/1000; plain 0) "pvd":its decimal digits
 *   p: "h":OPT "s":OPT "dh":OPT "ds":OPT        OPT = [] for NULL, [[bytes]] for a string
 *   l: "v":[[bytes]..] "d":[[bytes]..]
 *   o: "c":[NODE..]   (below 100 nested objects: "c":[],"T":1)
 * Hooks: every node registered here, and every node found without a hook after a successful
 * load, gets a hook that appends (name, kind) to a log which is cleared at each "begin".
 */
#include "src/common.h"
#include <sys/wait.h>
#include <math.h>

struct event_base *ev_base;
struct evdns_base *ev_dns;
int clean_exit;

static FILE *out;
static const char *tmp_path;

/* ---- hook log ---------------------------------------------------------------------- */

#define MAX_HOOKS 256
static struct { char *name; int type; } hook_log[MAX_HOOKS];
static unsigned int hook_used, hook_total;

static CONF_UPDATE_HOOK(h_hook)
{
    hook_total++;
    if (hook_used < MAX_HOOKS) {
        hook_log[hook_used].name = strdup(node_->name ? node_->name : "");
        hook_log[hook_used].type = node_->type;
        hook_used++;
    }
}

static void hook_reset(void)
{
    unsigned int ii;
    for (ii = 0; ii < hook_used; ++ii)
        free(hook_log[ii].name);
    hook_used = hook_total = 0;
}

static void install_hooks(struct conf_node_object *obj)
{
    struct set_node *it;
    for (it = set_first(&obj->contents); it; it = set_next(it)) {
        struct conf_node_base *base = set_node_data(it);
        if (!base->hook)
            base->hook = h_hook;
        if (base->type == CONF_OBJECT)
            install_hooks(ENCLOSING_STRUCT(base, struct conf_node_object, base));
    }
}

/* ---- JSON printing ------------------------------------------------------------------ */

static void p_bytes(const char *s, size_t len)
{
    size_t ii;
    fputc('[', out);
    for (ii = 0; ii < len; ++ii)
        fprintf(out, ii ? ",%u" : "%u", (unsigned char)s[ii]);
    fputc(']', out);
}

static void p_str(const char *s)
{
    p_bytes(s, strlen(s));
}

static void p_opt(const char *s)
{
    fputc('[', out);
    if (s)
        p_str(s);
    fputc(']', out);
}

static void p_sv(const struct string_vector *sv)
{
    unsigned int ii;
    fputc('[', out);
    for (ii = 0; ii < sv->used; ++ii) {
        if (ii)
            fputc(',', out);
        if (sv->vec[ii])
            p_str(sv->vec[ii]);
        else
            fputs("[0,0,0,0]", out); /* a NULL item: never legitimate */
    }
    fputc(']', out);
}

static const char kind_ch[] = "splo";

/* The JSON reader of TLC accepts at most 255 nested arrays/objects: below MAX_DUMP_DEPTH objects the
 * children are not printed and the node is marked "T":1 (never reached by the unchanged code on the
 * inputs used: deeper files fail to load, and a failed load leaves no trace in the live tree). */
#define MAX_DUMP_DEPTH 100

static void p_children(struct conf_node_object *obj, int depth);

static void p_node(struct conf_node_base *base, int depth)
{
    fputs("{\"n\":", out);
    p_str(base->name ? base->name : "");
    fprintf(out, ",\"k\":\"%c\",\"P\":%u,\"S\":%u", kind_ch[base->type], base->present, base->specified);
    switch (base->type) {
    case CONF_STRING: {
        struct conf_node_string *n = ENCLOSING_STRUCT(base, struct conf_node_string, base);
        long pv = 0;
        fputs(",\"v\":", out);
        p_opt(n->value);
        fputs(",\"d\":", out);
        p_opt(n->def_value);
        switch (n->subtype) {
        case CONF_STRING_BOOLEAN: pv = n->parsed.p_boolean; break;
        case CONF_STRING_INTEGER: pv = n->parsed.p_integer; break;
        case CONF_STRING_FLOAT: pv = lround(n->parsed.p_double * 1000.0); break;
        case CONF_STRING_INTERVAL: pv = n->parsed.p_interval; break;
        case CONF_STRING_VOLUME: pv = n->parsed.p_volume; break;
        default: pv = 0; break;
        }
        fprintf(out, ",\"st\":%d,\"pv\":%ld", (int)n->subtype, pv);
        {
            /* the same value as decimal digit codes (TLC integers are 32 bits wide; intervals and
             * volumes are unsigned int) */
            char dig[32];
            int k, nd = snprintf(dig, sizeof(dig), "%lu", (unsigned long)(pv < 0 ? 0 : pv));
            fputs(",\"pvd\":[", out);
            for (k = 0; k < nd; ++k)
                fprintf(out, "%s%d", k ? "," : "", (int)dig[k]);
            fputs("]", out);
        }
        break;
    }
    case CONF_INADDR: {
        struct conf_node_inaddr *n = ENCLOSING_STRUCT(base, struct conf_node_inaddr, base);
        fputs(",\"h\":", out);
        p_opt(n->hostname);
        fputs(",\"s\":", out);
        p_opt(n->service);
        fputs(",\"dh\":", out);
        p_opt(n->def_hostname);
        fputs(",\"ds\":", out);
        p_opt(n->def_service);
        break;
    }
    case CONF_STRING_LIST: {
        struct conf_node_string_list *n = ENCLOSING_STRUCT(base, struct conf_node_string_list, base);
        fputs(",\"v\":", out);
        p_sv(&n->value);
        fputs(",\"d\":", out);
        p_sv(&n->def_value);
        break;
    }
    case CONF_OBJECT:
        if (depth >= MAX_DUMP_DEPTH) {
            fputs(",\"c\":[],\"T\":1", out);
            break;
        }
        fputs(",\"c\":", out);
        p_children(ENCLOSING_STRUCT(base, struct conf_node_object, base), depth + 1);
        break;
    }
    fputc('}', out);
}

static void p_children(struct conf_node_object *obj, int depth)
{
    struct set_node *it;
    int first = 1;
    fputc('[', out);
    for (it = set_first(&obj->contents); it; it = set_next(it)) {
        if (!first)
            fputc(',', out);
        first = 0;
        p_node(set_node_data(it), depth);
    }
    fputc(']', out);
}

static void p_dump(void)
{
    struct conf_node_object *root = conf_get_root();
    fprintf(out, "{\"P\":%u,\"c\":", root->base.present);
    p_children(root, 0);
    fputc('}', out);
}

static void p_hooks(void)
{
    unsigned int ii;
    fputc('[', out);
    for (ii = 0; ii < hook_used; ++ii) {
        fputs(ii ? ",{\"n\":" : "{\"n\":", out);
        p_str(hook_log[ii].name);
        fprintf(out, ",\"k\":\"%c\"}", kind_ch[hook_log[ii].type]);
    }
    fputc(']', out);
}

/* ---- arguments ---------------------------------------------------------------------- */

static int hexval(int c)
{
    if (c >= '0' && c <= '9') return c - '0';
    if (c >= 'a' && c <= 'f') return c - 'a' + 10;
    if (c >= 'A' && c <= 'F') return c - 'A' + 10;
    return -1;
}

/* Decodes a hex word into a fresh (never freed: defaults are kept by reference) buffer. */
static char *unhex(const char *word, size_t *len_out)
{
    size_t len, ii;
    char *res;

    if (!strcmp(word, "-")) {
        if (len_out) *len_out = 0;
        return NULL;
    }
    if (!strcmp(word, "="))
        word = "";
    len = strlen(word) / 2;
    res = malloc(len + 1);
    for (ii = 0; ii < len; ++ii)
        res[ii] = (char)((hexval(word[2*ii]) << 4) | hexval(word[2*ii+1]));
    res[len] = '\0';
    if (len_out) *len_out = len;
    return res;
}

static struct conf_node_object *parent_of(char *pp)
{
    struct conf_node_object *obj = NULL;
    char *save = NULL, *w;

    if (!strcmp(pp, "."))
        return NULL;
    for (w = strtok_r(pp, "/", &save); w; w = strtok_r(NULL, "/", &save)) {
        char *name = unhex(w, NULL);
        obj = conf_register_object(obj, name);
        if (!obj->base.hook)
            obj->base.hook = h_hook;
    }
    return obj;
}

static void write_tmp(const char *data, size_t len)
{
    FILE *f = fopen(tmp_path, "wb");
    if (!f || (len && fwrite(data, len, 1, f) != 1) || fclose(f)) {
        fprintf(out, "{\"e\":\"harness-error\",\"what\":\"cannot write %s\"}\n", tmp_path);
        fflush(out);
        _exit(3);
    }
}

/* One conf_read() with its begin/end records. */
static int do_load(const char *id, int k, const char *hexbytes)
{
    size_t len;
    char *data = unhex(hexbytes, &len);
    int rc;

    write_tmp(data ? data : "", len);
    hook_reset();
    fprintf(out, "{\"e\":\"begin\",\"id\":\"%s\",\"k\":%d,\"b\":", id, k);
    p_bytes(data ? data : "", len);
    fputs(",\"before\":", out);
    p_dump();
    fputs("}\n", out);
    fflush(out);
    rc = conf_read(tmp_path);
    fprintf(out, "{\"e\":\"end\",\"id\":\"%s\",\"k\":%d,\"rc\":%d,\"after\":", id, k, rc);
    p_dump();
    fprintf(out, ",\"nhooks\":%u,\"hooks\":", hook_total);
    p_hooks();
    fputs("}\n", out);
    fflush(out);
    free(data);
    if (rc == 0)
        install_hooks(conf_get_root());
    return rc;
}

#define MAXW 64

int main(int argc, char *argv[])
{
    char *line = NULL;
    size_t cap = 0;
    ssize_t n;
    unsigned int child_timeout = 20;

    if (argc < 2) {
        fprintf(stderr, "usage: %s <scratch file path> [child timeout s]\n", argv[0]);
        return 2;
    }
    tmp_path = argv[1];
    if (argc > 2)
        child_timeout = atoi(argv[2]);
    out = stdout;
    ctype_init();
    log_set_verbosity(0);
    conf_get_root();

    while ((n = getline(&line, &cap, stdin)) > 0) {
        char *w[MAXW], *save = NULL, *tok;
        int nw = 0;

        while (n > 0 && (line[n-1] == '\n' || line[n-1] == '\r'))
            line[--n] = '\0';
        for (tok = strtok_r(line, " ", &save); tok && nw < MAXW; tok = strtok_r(NULL, " ", &save))
            w[nw++] = tok;
        if (nw == 0)
            continue;

        if (!strcmp(w[0], "regs") && nw == 5) {
            struct conf_node_object *p = parent_of(w[1]);
            struct conf_node_string *s;
            s = conf_register_string(p, atoi(w[2]), unhex(w[3], NULL), unhex(w[4], NULL));
            s->base.hook = h_hook;
        } else if (!strcmp(w[0], "regp") && nw == 5) {
            struct conf_node_object *p = parent_of(w[1]);
            struct conf_node_inaddr *a;
            a = conf_register_inaddr(p, unhex(w[2], NULL), unhex(w[3], NULL), unhex(w[4], NULL));
            a->base.hook = h_hook;
        } else if (!strcmp(w[0], "regl") && nw >= 3) {
            struct conf_node_object *p = parent_of(w[1]);
            struct conf_node_string_list *l;
            struct string_vector sv;
            int ii;
            memset(&sv, 0, sizeof(sv));
            for (ii = 3; ii < nw; ++ii)
                string_vector_append(&sv, unhex(w[ii], NULL));
            l = conf_register_string_list_sv(p, unhex(w[2], NULL), &sv);
            l->base.hook = h_hook;
        } else if (!strcmp(w[0], "rego") && nw == 3) {
            struct conf_node_object *p = parent_of(w[1]);
            struct conf_node_object *o;
            o = conf_register_object(p, unhex(w[2], NULL));
            if (!o->base.hook)
                o->base.hook = h_hook;
        } else if (!strcmp(w[0], "load") && nw == 3) {
            do_load(w[1], 0, w[2]);
        } else if (!strcmp(w[0], "case") && nw >= 3) {
            pid_t pid;
            int status = 0;

            fflush(out);
            pid = fork();
            if (pid == 0) {
                int ii;
                alarm(child_timeout);
                for (ii = 2; ii < nw; ++ii)
                    do_load(w[1], ii - 2, w[ii]);
                fflush(out);
                _exit(0);
            } else if (pid < 0) {
                fprintf(out, "{\"e\":\"harness-error\",\"what\":\"fork failed\"}\n");
                fflush(out);
                return 3;
            }
            while (waitpid(pid, &status, 0) < 0 && errno == EINTR) ;
            if (!WIFEXITED(status) || WEXITSTATUS(status) != 0) {
                fprintf(out, "{\"e\":\"died\",\"id\":\"%s\",\"sig\":%d,\"status\":%d}\n", w[1],
                        WIFSIGNALED(status) ? WTERMSIG(status) : 0,
                        WIFEXITED(status) ? WEXITSTATUS(status) : -1);
                fflush(out);
            }
        } else if (!strcmp(w[0], "dump")) {
            fputs("{\"e\":\"dump\",\"dump\":", out);
            p_dump();
            fputs("}\n", out);
            fflush(out);
        } else {
            fprintf(out, "{\"e\":\"harness-error\",\"what\":\"bad command %s\"}\n", w[0]);
            fflush(out);
            return 3;
        }
    }
    fflush(out);
    _exit(0);
}
