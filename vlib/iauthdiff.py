"""Differential runs on the REAL daemon for the properties that are equalities between two runs
(C04 with/without stray lines, C07 interleaved/alone, C08 with/without junk and chunking).
Equality itself is judged by TLC (spec/DiffTrace.tla) on pair lines {"id", "a", "b"}."""
import json
import multiprocessing
from . import core as _core
import os
import re

from . import daemon as D
from . import tlc as T
from .core import MachineryError

_TAG = re.compile(r"^([0-9a-f]+)_([0-9a-f]+)$")


def rename_tags(outs):
    """Rename routing tags by order of first appearance (C07: equal 'up to the serial component')."""
    names = {}

    def ren(t):
        if t not in names:
            names[t] = "T%d" % (len(names) + 1)
        return names[t]
    res = []
    for o in outs:
        r = []
        for m in o:
            if m.get("k") == "X":
                m = dict(m)
                m["tag"] = ren(m["tag"])
            r.append(m)
        res.append(r)
    return res


class _B:
    pass


def run_history(bld, workdir, svcs, events, timeout_on=True, lines=None, **opts):
    """Fresh daemon, one history; returns (per-step parsed outputs, per-step in-use, eof record, trace records).
    lines: optional list parallel to events giving raw bytes to send instead of the rendered line."""
    d = D.Daemon(bld, workdir, svcs, timeout=("1h" if timeout_on else None), modules=opts.get("modules", ("iauth_xquery",)),
                 rules=opts.get("rules"), logs=opts.get("logs"))
    outs, ns, recs = [], [], [D.reset_record(svcs, timeout_on)]
    crashed = d.dead
    tm = D.TagResolver(0, {})
    for k, e in enumerate(events):
        if crashed:
            break
        e = tm.event(e)
        rec = d.step(e, line=(lines[k] if lines else None))
        tm.observe(e, rec)
        recs.append(rec)
        if rec["e"] == "Crash":
            crashed = True
            outs.append([{"k": "CRASH"}])
            ns.append(-2)
            break
        outs.append(rec["o"])
        ns.append(rec["n"])
    rc, san, ub = d.close(wait=5 if crashed else 15)
    eof = {"e": "Eof", "exit": (rc if rc is not None else -9), "san": san[:600]}
    if not crashed:
        recs.append(eof)
    return outs, ns, eof, recs, ub


def _diff_worker(args):
    (root, moddir, daemonpath, workdir, svcs, timeout_on, jobs, diff_path, trace_path, opts) = args
    b = _B()
    b.root, b.moddir, b.daemon = root, moddir, daemonpath
    os.makedirs(workdir, exist_ok=True)
    nsteps = 0
    nlines = 0
    tl = 0
    index = []
    tindex = []
    ub_all = set()
    with open(diff_path, "w") as df, open(trace_path, "w") as tf:
        for (jid, evA, evB, pairs, rename) in jobs:
            oa, na, ea, ra, ub1 = run_history(b, workdir, svcs, evA, timeout_on, **opts)
            ob, nb, eb, rb, ub2 = run_history(b, workdir, svcs, evB, timeout_on, **opts)
            ub_all.update(ub1)
            ub_all.update(ub2)
            nsteps += len(oa) + len(ob)
            # contract validation of both runs
            for recs, which in ((ra, "a"), (rb, "b")):
                for si, r in enumerate(recs):
                    tf.write(json.dumps(r, separators=(",", ":")) + "\n")
                    tl += 1
                    tindex.append((jid, which, si - 1))
            pa = [oa[i] if i < len(oa) else [{"k": "MISSING"}] for i, _ in pairs]
            pb = [ob[j] if j < len(ob) else [{"k": "MISSING"}] for _, j in pairs]
            if rename:
                pa, pb = rename_tags(pa), rename_tags(pb)
            for k, (x, y) in enumerate(zip(pa, pb)):
                df.write(json.dumps({"id": jid, "k": k, "a": x, "b": y}, separators=(",", ":")) + "\n")
                nlines += 1
                index.append((jid, k))
            # exit status / sanitizer must agree as well (both must be clean; judged by the contract trace)
    with open(diff_path + ".idx", "w") as f:
        json.dump(index, f)
    with open(trace_path + ".idx", "w") as f:
        json.dump(tindex, f)
    return {"diff": diff_path, "trace": trace_path, "steps": nsteps, "dlines": nlines, "lines": tl, "ubsan": sorted(ub_all)}


def diff_runs(ctx, jobs, svcs, timeout_on=True, nproc=12, tag="d", **opts):
    """jobs: list of (job id, events A, events B, [(step index in A, step index in B), ...], rename_tags?)."""
    b = ctx.build
    nproc = max(1, min(nproc, len(jobs)))
    chunks = [jobs[i::nproc] for i in range(nproc)]
    args = []
    for n, ch in enumerate(chunks):
        args.append((b.root, b.moddir, b.daemon, os.path.join(ctx.scratch, "%s-w%d" % (tag, n)), svcs, timeout_on, ch,
                     os.path.join(ctx.scratch, "%s-diff%d.ndjson" % (tag, n)),
                     os.path.join(ctx.scratch, "%s-dtrace%d.ndjson" % (tag, n)), opts))
    if nproc == 1:
        return [_diff_worker(args[0])]
    return _core.pool_map(_diff_worker, args, nproc)


def validate_diffs(ctx, results):
    """TLC judges a = b on every pair line; returns list of (job id, k)."""
    bad = []
    # one TLC run over the concatenation (pair lines are cheap)
    cat = os.path.join(ctx.scratch, "diff-all-%d.ndjson" % len(os.listdir(ctx.scratch)))
    index = []
    n = 0
    with open(cat, "w") as out:
        for r in results:
            with open(r["diff"]) as f:
                for line in f:
                    out.write(line)
                    n += 1
            with open(r["diff"] + ".idx") as f:
                index.extend(json.load(f))
    if n == 0:
        return bad, 0
    res = ctx.tlc("DiffTrace", "DiffTrace.cfg", workers=1, timeout=1200, env={"TRACE": cat}, heap="3g")
    if not res.ok or res.distinct != n + 1:
        raise MachineryError("DiffTrace run failed or did not consume the file (%s, %d of %d)\n%s"
                             % (res.violated, res.distinct, n + 1, res.output[-1500:]))
    for line in res.printed:
        s = T.unquote_printed(line)
        if s.startswith("@@V"):
            x = json.loads(s[3:])
            bad.append(tuple(index[x["l"] - 1]))
    os.unlink(cat)
    return bad, n


def pair_line(results, jid, k):
    for r in results:
        with open(r["diff"]) as f:
            for line in f:
                x = json.loads(line)
                if x["id"] == jid and x["k"] == k:
                    return x
    return None
