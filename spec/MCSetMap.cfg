SPECIFICATION Spec
CONSTANTS Keys = {1, 2, 3}
CONSTRAINT Bound
INVARIANTS TypeOK CleanupAtMostOnce CleanupNeverOnMember CleanupNeverOnKept CleanupExactly
