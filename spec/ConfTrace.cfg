SPECIFICATION TraceSpec
CONSTANTS
  NameOrd <- TraceNameOrd
  Universe <- NoKeys
  ValOpts <- NoOpts
  RegOpts <- NoOpts
  MaxLoads = 0
  RegPhases = {}
  WithBad = FALSE
  Bug = {}
INVARIANTS C15_Completes C15_Values C15_Leftovers C15_FileNodes C15_Idempotent C15_SettingHook C15_ObjectHook C15_Register C15_LastGood
