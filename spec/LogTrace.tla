------------------------------ MODULE LogTrace ------------------------------
(***************************************************************************)
(* C18 - trace validation (the oracle).  Reads the ndjson trace that         *)
(* checks/c18.py assembled from what harness/h_log.c did on the real          *)
(* src/log.c + src/config.c and from the contents of the destination files,   *)
(* one line per step, many histories separated by Reset lines:                *)
(*                                                                            *)
(*  {"e":"Reset","prereg":[[109,111,100,120]],                                *)
(*   "def":[{"fac":[..],"target":"file:d.log"}],                              *)
(*   "fileof":{"file:a.log":"a.log","file:./a.log":"a.log"}}                   *)
(*  {"e":"Load","rc":0,"mode":"sec"|"nosec"|"bad",                             *)
(*   "sec":[{"name":[99,111,114,101,46,105,110,102,111],"kind":"s",           *)
(*           "dests":["file:a.log"]}]}                                        *)
(*  {"e":"Probes","p":[{"fac":[..],"sev":3,"id":17,                            *)
(*                      "hits":[{"file":"a.log","fac":[..],"sev":[..]}]}]}     *)
(*  {"e":"End","malformed":[],"stray":[],"others":[{"fac":[..],"sev":[..]}]}   *)
(*                                                                            *)
(* name / fac / sev texts are character codes; `hits` lists, for one probe     *)
(* message, every well-formed line  [HH:MM:SS MM/DD/YYYY] (fac:sev) probe <id> *)
(* found in any file; `malformed` the lines that do not have that shape;       *)
(* `stray` probe ids found in files that were never emitted.                   *)
(*                                                                            *)
(* Contract conjuncts (a failure is a VIOLATION of C18):                       *)
(*   C18_Exactly     files containing the message = files of                   *)
(*                   Route(current section)[fac][sev] \cup Route[*][sev]       *)
(*   C18_Attributed  every such line names the facility and severity emitted   *)
(*   C18_Complete    every line of every destination file is complete          *)
(* Conformance to the implementation-shaped spec (a failure is only DRIFT):    *)
(*   B_Written       files = files of B's vectors (LogRoute!Written)           *)
(*   B_Default       files = files of the default-target rule                  *)
(* Machinery: NotStuck (a line no action consumes: crash / truncated step),    *)
(*   Sane_LoadRc (a file rendered as valid must load, a broken one must not),  *)
(*   Sane_Seq (every line carries its number "n" within the history; a missing *)
(*   line is noticed).                                                         *)
(***************************************************************************)
EXTENDS LogRoute, Json, IOUtils

TraceLog == ndJsonDeserialize(IOEnv.TRACE)

VARIABLES l,        \* position in the trace
          k,        \* number ("n") of the last line consumed within its history; Reset is 0
          ended,    \* the history before this position is closed by its End line
          def,      \* default targets registered in this history: facility -> target
          fileof    \* destination name -> file it denotes (two names may denote one file)

tvars == <<l, k, ended, def, fileof, sys, cur, out, hist>>

TraceNoDefaults == <<>>
TraceNoSections == {}
TraceNoBug == {}

ParsedSection(sec) == {[head |-> ParseName(sec[i].name), kind |-> sec[i].kind, dests |-> sec[i].dests] : i \in DOMAIN sec}

DefOf(line) == LET ds == Range(line.def) IN
               [f \in {LowerSeq(x.fac) : x \in ds} |-> (CHOOSE x \in ds : LowerSeq(x.fac) = f).target]

TInit == /\ l = 1
         /\ k = 0
         /\ ended = TRUE
         /\ def = <<>>
         /\ fileof = <<>>
         /\ sys = InitStateFor({}, <<>>)
         /\ cur = {}
         /\ out = <<>>
         /\ hist = <<>>

Reset(ln) == /\ ln.e = "Reset"
             /\ def' = DefOf(ln)
             /\ fileof' = ln.fileof
             /\ sys' = InitStateFor({LowerSeq(f) : f \in Range(ln.prereg)}, DefOf(ln))
             /\ cur' = {}

Load(ln) == /\ ln.e = "Load"
            /\ UNCHANGED <<def, fileof>>
            /\ IF ln.rc = 0
               THEN /\ cur' = ParsedSection(ln.sec)
                    /\ sys' = ConfReplaceLogs(sys, cur')
               ELSE UNCHANGED <<cur, sys>>        \* a failed load leaves the routing as it was

Probes(ln) == ln.e = "Probes" /\ UNCHANGED <<def, fileof, sys, cur>>

End(ln) == ln.e = "End" /\ UNCHANGED <<def, fileof, sys, cur>>

TNext == /\ l <= Len(TraceLog)
         /\ LET ln == TraceLog[l] IN Reset(ln) \/ Load(ln) \/ Probes(ln) \/ End(ln)
         /\ l' = l + 1
         /\ k' = TraceLog[l].n
         /\ ended' = (TraceLog[l].e = "End")
         /\ UNCHANGED <<out, hist>>

TraceSpec == TInit /\ [][TNext]_tvars

---------------------------------------------------------------------------
Prev == TraceLog[l - 1]
IsProbes == l > 1 /\ Prev.e = "Probes"
FileSet(D) == {fileof[d] : d \in D}
HitFiles(p) == {p.hits[i].file : i \in DOMAIN p.hits}
PFac(p) == LowerSeq(p.fac)

NotStuck == l <= Len(TraceLog) => TraceLog[l].e \in {"Reset", "Load", "Probes", "End"}

(* no line of a history is missing: lines are numbered 0, 1, 2 ... from the Reset line, a Reset only *)
(* follows an End, and the trace ends with an End                                                    *)
Sane_Seq == /\ l <= Len(TraceLog) =>
                 IF TraceLog[l].e = "Reset" THEN TraceLog[l].n = 0 /\ ended ELSE TraceLog[l].n = k + 1 /\ ~ended
            /\ l = Len(TraceLog) + 1 => ended

Sane_LoadRc == (l > 1 /\ Prev.e = "Load") => ((Prev.rc = 0) <=> (Prev.mode # "bad"))

(* the default-target rule does not intervene for this (facility, severity) *)
Plain(p) == ExpectedB(cur, def, PFac(p), p.sev) = Expected(cur, PFac(p), p.sev)

C18_Exactly ==
    IsProbes => \A i \in DOMAIN Prev.p : LET p == Prev.p[i] IN
                    Plain(p) => HitFiles(p) = FileSet(Expected(cur, PFac(p), p.sev))

C18_Attributed ==
    IsProbes => \A i \in DOMAIN Prev.p : LET p == Prev.p[i] IN
                    \A j \in DOMAIN p.hits : /\ LowerSeq(p.hits[j].fac) = PFac(p)
                                             /\ p.hits[j].sev = SevWord[p.sev]

C18_Complete ==
    (l > 1 /\ Prev.e = "End") =>
        /\ Prev.malformed = <<>>
        /\ Prev.stray = <<>>
        /\ \A i \in DOMAIN Prev.others : Prev.others[i].sev \in Range(SevWord) /\ Prev.others[i].fac # <<>>

B_Written ==
    IsProbes => \A i \in DOMAIN Prev.p : LET p == Prev.p[i] IN
                    HitFiles(p) = FileSet(Range(Written(sys.types, PFac(p), p.sev)))

B_Default ==
    IsProbes => \A i \in DOMAIN Prev.p : LET p == Prev.p[i] IN
                    HitFiles(p) = FileSet(ExpectedB(cur, def, PFac(p), p.sev))

=============================================================================
