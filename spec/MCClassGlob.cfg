CONSTANTS
  CBug <- GlobBug
INIT GlobInit
NEXT GlobNext
INVARIANT GlobEq
