--------------------------- MODULE MCReloadClass ---------------------------
(***************************************************************************)
(* Property C17, class rules: model checking and case generation.          *)
(*                                                                         *)
(* Exhaustive model (INIT XInit / NEXT XNext): the daemon starts on every  *)
(* iauth_class section `old` over the pools bound in the .cfg (rule names  *)
(* from Names, bodies from Bodies, at most MaxRules rules), and is         *)
(* reloaded up to MaxRl times with EVERY section `new` over the same pools *)
(* (ReloadCls!ReloadCls: the walk of config.c with the hook deliveries as  *)
(* they are in the code).  Checked in every state:                         *)
(*   VecFresh    the module's compiled vector (its cache) equals the       *)
(*               vector a fresh start on the file in force compiles        *)
(*   TreeFresh   the live section lists exactly the file's rules           *)
(*   AllHooked   every rule and criterion node carries the module's hook   *)
(*               (the condition under which the NEXT edit is heard)        *)
(*   ProbeFresh  for every client of Clients(Svcs), what the reloaded      *)
(*               module answers (ClassRules!Accept on its vector) is what  *)
(*               the fresh module answers, and satisfies P11_class /       *)
(*               P11_uline for the file in force                           *)
(* With RBug = {"D10"} / {"NOKIDHOOK"} / {"ACCUM"} TLC finds the stale     *)
(* cache.                                                                  *)
(*                                                                         *)
(* The seeded sampling model over the rich pools is MCReloadClassGen.tla.  *)
(***************************************************************************)
EXTENDS MCClassPools, ReloadCls, Json

CONSTANTS Svcs, MaxRl

-----------------------------------------------------------------------------
(* sections as canonical listings (the order of the entries in the file is immaterial: MCClassRules!OrderIndep) *)
RECURSIVE SeqOfSet(_)
SeqOfSet(S) == IF S = {} THEN << >>
               ELSE LET m == CHOOSE r \in S : \A q \in S \ {r} : StrCaseLt(r.name, q.name)
                    IN << m >> \o SeqOfSet(S \ {m})
NameSets == {S \in SUBSET Names : Cardinality(S) <= MaxRules}
Sections == UNION {{SeqOfSet({MkRule(n, b[n]) : n \in S}) : b \in [S -> Bodies]} : S \in NameSets}

VARIABLES cur, st, nrl
xvars == <<cur, st, nrl>>

XInit == /\ cur \in Sections
         /\ st = FreshCls(cur)
         /\ nrl = 0
XNext == /\ nrl < MaxRl
         /\ \E new \in Sections :
              /\ cur' = new
              /\ st' = ReloadCls(st.tree, st.vec, new)
         /\ nrl' = nrl + 1

VecFresh   == st.vec = ConfChanged(cur)
TreeFresh  == Range(TreeListing(st.tree)) = Range(cur) /\ Len(st.tree) = Len(cur)
AllHooked  == \A k \in 1..Len(st.tree) :
                 /\ st.tree[k].hooked
                 /\ \A key \in CritKeys : st.tree[k].kids[key].present => st.tree[k].kids[key].hooked
ProbeFresh == \A c \in Clients(Svcs) :
                 LET o == Accept(st.vec, c)
                 IN /\ o = Accept(ConfChanged(cur), c)
                    /\ P11_class(Range(cur), c, o)
                    /\ P11_uline(Range(cur), c, o)

RB_none == {}
RB_D10 == {"D10"}
RB_NOKIDHOOK == {"NOKIDHOOK"}
RB_ACCUM == {"ACCUM"}
N_2 == { T("a"), T("B2") }
=============================================================================
