"""C15 - reload is deterministic: last good file plus defaults (src/config.c merge semantics).

Pipeline (see docs/BUILDER_GUIDE.md):
  1. TLC model-checks spec/Conf.tla (B = transcription of conf_replace_value / conf_register_*,
     A = the contract) exhaustively over the universes of spec/MCConf.tla and, in the same run,
     prints one complete behaviour  Register* ; Load ; Register* ; Load ; Load  per explored transition.
  2. Every behaviour is rendered (configuration files in a plain layout, a harness script) and run
     through harness/h_conf on the rebuilt sources, one fresh process image per behaviour.
  3. TLC validates the recorded ndjson traces against the contract (spec/ConfTrace.tla): the oracle.
     A difference to B's prediction is only DRIFT.
  4. Seeded random long histories over a larger universe (more names incl. case variants, typed
     strings of four subtypes, depth 2, failing loads, registrations at any point) go the same way.
Python only moves bytes: it renders inputs, runs processes and maps TLC's verdicts back to histories.
"""
import hashlib
import json
import os
import re
import subprocess
import threading
import time
from concurrent.futures import ThreadPoolExecutor

from vlib import core
from vlib import tlc as _tlc

LEVEL = "model_checking"
TITLE = "reload is deterministic: last good file plus defaults (conf_read / conf_replace_value)"

QUICK_UNIVERSES = ["q1a", "q1b", "q1c", "q1d", "q2", "q3", "q4"]
THOROUGH_UNIVERSES = QUICK_UNIVERSES + ["t0", "t1", "t2", "t3"]
KIND_WORD = {"s": "string", "i": "inaddr", "l": "list", "o": "object"}
NPAR = 16
CONJUNCTS = ["C15_Completes", "C15_Values", "C15_Leftovers", "C15_FileNodes", "C15_Idempotent",
             "C15_SettingHook", "C15_ObjectHook", "C15_Register", "C15_LastGood"]


# ---------------------------------------------------------------------------------------------
# rendering (purely syntactic)
def _tok(tok):
    """string token as one word of a harness script line"""
    return tok.replace("%", "%25").replace(" ", "%20")


def _q(tok):
    """token "=text" -> quoted configuration string"""
    assert tok.startswith("="), tok
    return '"' + tok[1:].replace("\\", "\\\\").replace('"', '\\"') + '"'


def render_file(entries, spell=None):
    """entries: list of {"p": [...], "k": kind, "v": [...]} closed under parents.  One entry per line,
    quoted strings, `name ( "a", "b" )` lists, `name "host" "svc"` pairs, `name {` ... `}`."""
    spell = spell or {}
    kids = {}
    for e in entries:
        kids.setdefault(tuple(e["p"][:-1]), []).append(e)
    out = []

    def emit(path, ind):
        for e in sorted(kids.get(path, []), key=lambda e: (e["p"][-1], e["k"])):
            name = spell.get(tuple(e["p"]) + (e["k"],), e["p"][-1])
            pad = "    " * ind
            if e["k"] == "s":
                out.append("%s%s %s" % (pad, name, _q(e["v"][0])))
            elif e["k"] == "i":
                out.append("%s%s %s %s" % (pad, name, _q(e["v"][0]), _q(e["v"][1])))
            elif e["k"] == "l":
                out.append("%s%s ( %s )" % (pad, name, ", ".join(_q(x) for x in e["v"])) if e["v"]
                           else "%s%s ( )" % (pad, name))
            else:
                out.append("%s%s {" % (pad, name))
                emit(tuple(e["p"]), ind + 1)
                out.append("%s}" % pad)
    emit((), 0)
    return "\n".join(out) + "\n"


def canon_entries(entries):
    return sorted(({"p": list(e["p"]), "k": e["k"], "v": list(e["v"])} for e in entries),
                  key=lambda e: (e["p"], e["k"]))


class Renderer:
    """Turns events into harness script lines; configuration files are written once per content."""

    def __init__(self, scratch):
        self.dir = os.path.join(scratch, "files")
        os.makedirs(self.dir, exist_ok=True)
        self.cache = {}
        self.lock = threading.Lock()
        bad = os.path.join(self.dir, "bad-unterminated.conf")
        with open(bad, "w") as f:
            f.write('a "x"\nb {\n    a "y"\n')
        self.bad = [os.path.join(self.dir, "does-not-exist.conf"), bad]

    def file_path(self, text):
        p = self.cache.get(text)
        if p is None:
            with self.lock:
                p = self.cache.get(text)
                if p is None:
                    p = os.path.join(self.dir, "f-%s.conf" % hashlib.sha256(text.encode()).hexdigest()[:20])
                    with open(p, "w") as f:
                        f.write(text)
                    self.cache[text] = p
        return p

    def lines(self, events):
        out = []
        for ev in events:
            op = ev["op"]
            if op == "reg":
                path = "/".join(ev.get("spell") or ev["p"])
                k = ev["k"]
                if k == "s":
                    out.append("register string %s %s %s" % (path, ev["s"], _tok(ev["d"][0])))
                elif k == "i":
                    out.append("register inaddr %s %s %s" % (path, _tok(ev["d"][0]), _tok(ev["d"][1])))
                elif k == "l":
                    out.append("register %s %s %d%s" % (ev.get("via", "list"), path, len(ev["d"]),
                                                       "".join(" " + _tok(x) for x in ev["d"])))
                else:
                    out.append("register object %s" % path)
            elif op == "load":
                ent = canon_entries(ev["f"])
                spell = {tuple(k): v for k, v in ev.get("spell", [])}
                p = self.file_path(render_file(ent, spell))
                out.append('load %s "f":%s' % (p, json.dumps(ent, separators=(",", ":"))))
            elif op == "bad":
                out.append('load %s "bad":1,"f":[]' % self.bad[ev.get("which", 0) % len(self.bad)])
            elif op == "dump":
                out.append("dump")
            else:
                raise core.MachineryError("unknown event %r" % (ev,))
        return out


def names_of(behaviours):
    names = set()
    for evs in behaviours:
        for ev in evs:
            if ev["op"] == "reg":
                names.update(ev["p"])
            elif ev["op"] == "load":
                for e in ev["f"]:
                    names.update(e["p"])
    return sorted(names)


def short(events):
    """canonical one-line text of a history (used in signatures and samples); names are shown as spelled"""
    parts = []
    for ev in events:
        if ev["op"] == "reg":
            extra = ev["s"] + " " if ev["k"] == "s" else ""
            parts.append("reg %s:%s %s%s" % ("/".join(ev.get("spell") or ev["p"]), ev["k"], extra, ",".join(ev["d"]) or "-"))
        elif ev["op"] == "load":
            spell = {tuple(k): v for k, v in ev.get("spell", [])}
            parts.append("load{%s}" % " ".join(
                "%s:%s%s" % ("/".join(e["p"][:-1] + [spell.get(tuple(e["p"]) + (e["k"],), e["p"][-1])]), e["k"],
                             ("=" + ",".join(x[1:] for x in e["v"])) if e["k"] != "o" else "")
                for e in canon_entries(ev["f"])))
        else:
            parts.append(ev["op"])
    return "; ".join(parts)


# ---------------------------------------------------------------------------------------------
# running the real code
def _env():
    e = dict(os.environ)
    e["ASAN_OPTIONS"] = "detect_leaks=0"
    e["UBSAN_OPTIONS"] = "print_stacktrace=0"
    return e


_RE_BEGIN = re.compile(rb'^\{"e":"begin","n":(\d+),(?:"par":(\d+),)?')


def write_trace(trace_path, names, raw_lines, chain=False):
    """Header (names, kids) + the harness's lines.  kids[i] = numbers of the "begin" lines whose parent node's
    "begin" line is i (1 = the root).  chain=True: single-process output, every begin follows the previous one.
    Returns {begin line number: node id}."""
    kids = [[] for _ in range(len(raw_lines) + 1)]
    line_of = {0: 1}
    ids = {}
    prev = 1
    for no, line in enumerate(raw_lines, 2):
        m = _RE_BEGIN.match(line)
        if not m:
            continue
        nid = int(m.group(1))
        if chain:
            kids[prev - 1].append(no)
            prev = no
        else:
            par = int(m.group(2))
            if par not in line_of:
                raise core.MachineryError("trace: node %d has no parent line" % nid)
            kids[line_of[par] - 1].append(no)
            line_of[nid] = no
        ids[no] = nid
    with open(trace_path, "wb") as fo:
        fo.write(json.dumps({"e": "Header", "names": names, "kids": kids}, separators=(",", ":")).encode() + b"\n")
        for line in raw_lines:
            fo.write(line if line.endswith(b"\n") else line + b"\n")
    return ids


def run_tree(harness, names, script, trace_path, timeout):
    """script: 'node <id> <par> <depth> <cmd>' lines.  Runs h_conf -t; writes the trace file."""
    try:
        p = subprocess.run([harness, "-t"], input=("\n".join(script) + "\n").encode(), stdout=subprocess.PIPE,
                           stderr=subprocess.PIPE, env=_env(), timeout=timeout)
    except subprocess.TimeoutExpired:
        raise core.MachineryError("h_conf -t timed out on %d nodes" % len(script))
    if p.returncode != 0:
        raise core.MachineryError("h_conf -t exited %d: %s" % (p.returncode, p.stderr.decode(errors="replace")[-2000:]))
    return write_trace(trace_path, names, p.stdout.splitlines(True))


def run_single(harness, names, lines, trace_path, timeout=60):
    """One history on a fresh process (exec, no fork); returns the sanitizer / stderr text."""
    try:
        p = subprocess.run([harness], input=("\n".join(lines) + "\n").encode(), stdout=subprocess.PIPE,
                           stderr=subprocess.PIPE, env=_env(), timeout=timeout)
    except subprocess.TimeoutExpired:
        raise core.MachineryError("h_conf timed out on a single history")
    if p.returncode == 3:
        raise core.MachineryError("h_conf rejected its script: " + p.stderr.decode(errors="replace")[-500:])
    write_trace(trace_path, names, p.stdout.splitlines(True), chain=True)
    return p.stderr.decode(errors="replace")


# ---------------------------------------------------------------------------------------------
# TLC as the oracle
_RE_REPORT = re.compile(r'^<<"@@([VD])", (\d+), \{(.*)\}>>$')


def validate(ctx, trace_path, n_begin, strict=False, timeout=900):
    """Run ConfTrace over one trace file.  Returns (failures, drifts, result): lists of (begin line, [names])."""
    # short traces: the JVM's start-up (JIT) dominates, C1 only halves it; long ones want C2
    jopts = ["-XX:TieredStopAtLevel=1"] if (n_begin or 0) < 8000 else []
    r = _tlc.run("ConfTrace", "ConfTrace.cfg" if strict else "ConfTrace_all.cfg", workers=1, timeout=timeout,
                 env={"TRACE": trace_path}, heap="2g", capture_printed=False,
                 java_opts=jopts + ["-XX:ParallelGCThreads=2", "-Xss64m"])
    agg = ctx.cov.setdefault("trace_validation", {"tlc_runs": 0, "steps_judged": 0, "wall_s": 0.0})
    agg["tlc_runs"] += 1
    agg["steps_judged"] += max(r.distinct - 1, 0)
    agg["wall_s"] = round(agg["wall_s"] + r.wall_s, 1)
    fails, drifts, unexpected = [], [], 0
    for line in r.output.splitlines():
        m = _RE_REPORT.match(line)
        if m:
            names = [x.strip().strip('"') for x in m.group(3).split(",") if x.strip()]
            (fails if m.group(1) == "V" else drifts).append((int(m.group(2)), names))
        elif line.startswith('<<"@@U"'):
            unexpected += 1
    if unexpected:
        raise core.MachineryError("%d configuration files that were meant to be good did not load (see C14/C16): "
                                  "C15 cannot be judged on %s" % (unexpected, trace_path))
    if not strict:
        if r.violated:
            raise core.MachineryError("ConfTrace failed unexpectedly (%s): %s" % (r.violated, r.violation_text[:1500]))
        if r.distinct != n_begin + 1:
            raise core.MachineryError("ConfTrace judged %d of %d steps of %s\n%s"
                                      % (r.distinct - 1, n_begin, trace_path, r.output[-1500:]))
    return fails, drifts, r


# ---------------------------------------------------------------------------------------------
class Campaign:
    """Replays a set of histories on the real code (as a prefix tree: every edge once) and has TLC judge
    the traces."""

    def __init__(self, ctx, label):
        self.ctx = ctx
        self.label = label
        self.harness = ctx.build.harness("h_conf")
        self.render = Renderer(ctx.scratch)
        self.dir = os.path.join(ctx.scratch, "traces-" + label)
        os.makedirs(self.dir, exist_ok=True)
        self.serial = 0
        self.steps = 0

    def run(self, behaviours, pieces=None):
        """-> (fails, drifts): lists of ([names], events of the history up to the offending step)"""
        ctx = self.ctx
        names = names_of(behaviours)
        keyed = sorted(([json.dumps(ev, sort_keys=True, separators=(",", ":")) for ev in evs], evs)
                       for evs in behaviours)
        if pieces is None:      # about one step per history; aim at 3000..12000 steps per trace file / TLC run
            pieces = -(-len(keyed) // max(3000, min(12000, -(-len(keyed) // NPAR))))
        size = -(-len(keyed) // pieces)
        jobs = []
        for lo in range(0, len(keyed), size):
            self.serial += 1
            jobs.append((os.path.join(self.dir, "t%05d.ndjson" % self.serial), keyed[lo:lo + size]))

        def one(job):
            tp, part = job
            nodes = {}                      # id -> (parent id, event)
            script, stack, nid = [], [], 0
            for keys, evs in part:
                common = 0
                while common < len(stack) and common < len(keys) and stack[common][0] == keys[common]:
                    common += 1
                del stack[common:]
                for j in range(common, len(keys)):
                    nid += 1
                    par = stack[-1][1] if stack else 0
                    nodes[nid] = (par, evs[j])
                    script.append("node %d %d %d %s" % (nid, par, len(stack) + 1, self.render.lines([evs[j]])[0]))
                    stack.append((keys[j], nid))
            ids = run_tree(self.harness, names, script, tp, 900)
            f, d, r = validate(ctx, tp, len(ids))
            if tp == jobs[0][0]:
                self.exercise(tp, nodes)

            def history(lineno):
                evs, n = [], ids[lineno]
                while n:
                    evs.append(nodes[n][1])
                    n = nodes[n][0]
                return evs[::-1]
            return len(ids), [(nm, history(ln)) for ln, nm in f[:200]], [(nm, history(ln)) for ln, nm in d[:20]], len(f), len(d)

        fails, drifts, nf, nd = [], [], 0, 0
        with ThreadPoolExecutor(NPAR) as ex:
            for steps, f, d, cf, cd in ex.map(one, jobs):
                self.steps += steps
                fails += f
                drifts += d
                nf += cf
                nd += cd
        return fails, drifts, nf, nd

    def exercise(self, tp, nodes):
        """What the steps of one trace file exercised (anti-vacuity numbers for the evidence; no judgement)."""
        c = {"steps": 0, "loads_ok": 0, "loads_failed": 0, "loads_running_hooks": 0, "hook_calls": 0,
             "loads_identical_to_previous": 0, "loads_removing_nodes": 0, "registrations_after_a_load": 0,
             "registrations_adopting_a_file_node": 0}
        begin = None
        size_before = {}
        with open(tp) as f:
            next(f)
            for line in f:
                rec = json.loads(line)
                if rec["e"] == "begin":
                    begin = rec
                    continue
                if rec["e"] != "end" or begin is None or begin["n"] != rec["n"]:
                    continue
                c["steps"] += 1
                nid = rec["n"]
                par = nodes[nid][0] if nid in nodes else 0
                keys = {(tuple(t["p"]), t["k"]) for t in rec["tree"]}
                before = size_before.get(par, (set(), None, False))
                if begin["op"] == "load":
                    if rec["rc"] == 0:
                        c["loads_ok"] += 1
                        c["hook_calls"] += len(rec["hooks"])
                        c["loads_running_hooks"] += 1 if rec["hooks"] else 0
                        fkey = json.dumps(begin["f"], sort_keys=True)
                        c["loads_identical_to_previous"] += 1 if before[1] == fkey else 0
                        c["loads_removing_nodes"] += 1 if before[0] - keys else 0
                        size_before[nid] = (keys, fkey, True)
                    else:
                        c["loads_failed"] += 1
                        size_before[nid] = before
                else:
                    if begin["op"] == "reg" and before[2]:
                        c["registrations_after_a_load"] += 1
                        c["registrations_adopting_a_file_node"] += 1 if (tuple(begin["p"]), begin["k"]) in before[0] else 0
                    size_before[nid] = (keys, before[1], before[2])
        self.ctx.cov["exercised_in_first_trace_file"] = c

    # -- confirmation, minimisation, reporting ---------------------------------------------------
    def confirm(self, events):
        """Fresh process (exec, no fork), strict validation -> (conjunct or None, stderr text)."""
        self.serial += 1
        tp = os.path.join(self.dir, "single%05d.ndjson" % self.serial)
        err = run_single(self.harness, names_of([events]), self.render.lines(events), tp)
        _, _, r = validate(self.ctx, tp, None, strict=True)
        if r.violated is None:
            return None, err
        if r.violated not in CONJUNCTS:
            raise core.MachineryError("ConfTrace: unexpected failure %s\n%s" % (r.violated, r.violation_text[:1500]))
        return r.violated, err

    def minimise(self, events, conjunct, rounds=12):
        def valid(evs):
            regs, seen = set(), set()
            for ev in evs:
                if ev["op"] == "reg":
                    if len(ev["p"]) > 1 and tuple(ev["p"][:-1]) not in regs:
                        return False
                    if ev["k"] == "o":
                        regs.add(tuple(ev["p"]))
            return True

        cur = events
        for _ in range(rounds):
            variants = []
            for i in range(len(cur)):                       # drop one event
                v = cur[:i] + cur[i + 1:]
                if v and valid(v):
                    variants.append(v)
            for i, ev in enumerate(cur):                    # drop one entry (with what is below it) of one file
                if ev["op"] != "load":
                    continue
                for e in ev["f"]:
                    keep = [x for x in ev["f"] if not (x is e or (e["k"] == "o" and x["p"][:len(e["p"])] == e["p"]))]
                    variants.append(cur[:i] + [dict(ev, f=keep)] + cur[i + 1:])
            if not variants:
                break
            fails, _, _, _ = self.run(variants, pieces=1)
            # a variant fails if the *last* step of the (possibly shorter) failing history still breaks the conjunct
            cand = [evs for nm, evs in fails if conjunct in nm]
            if not cand:
                break
            cur = min(cand, key=lambda evs: (len(evs), len(json.dumps(evs))))
        return cur

    def report(self, fails, limit=3):
        """Confirm (fresh process, strict TLC run), minimise and report distinct failures."""
        ctx = self.ctx
        seen = set()
        groups = {}
        for names, events in fails:
            groups.setdefault(tuple(sorted(names)), []).append(events)
        order = sorted(groups.items(), key=lambda g: (min(len(e) for e in g[1]), g[0]))
        if len(order) > 6:
            ctx.note("%d different sets of failing conjuncts; the 6 with the shortest histories are reported" % len(order))
        for names, hists in order[:6]:
            done = 0
            for events in sorted(hists, key=lambda e: (len(e), len(json.dumps(e))))[:limit]:
                conj, err = self.confirm(events)
                if conj is None:
                    ctx.note("a history failed %s in the batch run but not on a fresh process: not reported: %s"
                             % (",".join(names), short(events)[:300]))
                    continue
                small = self.minimise(events, conj)
                conj2, err2 = self.confirm(small)
                if conj2 != conj:
                    small, err2 = events, err
                sig = "%s | %s" % (conj, short(small))
                if sig in seen:
                    done += 1
                    break
                seen.add(sig)
                san = ""
                m = re.search(r"ERROR: AddressSanitizer: [^\n]*", err2)
                if m:
                    san = m.group(0)
                what = "the contract conjunct %s fails on the trace of the real code%s; history: %s" % (
                    conj, (" (" + san + ")") if san else "", short(small))
                ctx.violation(what, conj, sig, {"events": small, "files": [render_file(canon_entries(e["f"]),
                              {tuple(k): v for k, v in e.get("spell", [])}) for e in small if e["op"] == "load"],
                              "sanitizer": err2[-3000:] if san else "", "found_in": self.label})
                break           # one minimised report per group of conjuncts is enough


# ---------------------------------------------------------------------------------------------
def generate(ctx, uni, sample=None):
    """Exhaustive TLC run of B against A over one universe, emitting one behaviour per transition."""
    out = os.path.join(ctx.scratch, "emit-%s.out" % uni)
    r = ctx.tlc("MCConf", "MCConf_%s_emit.cfg" % uni, workers=4, timeout=1200, heap="6g", stdout_path=out,
                capture_printed=False)
    if r.violated:
        raise core.MachineryError("model-only run of Conf.tla (%s) violates %s: the specification is wrong\n%s"
                                  % (uni, r.violated, r.violation_text[:3000]))
    ctx.model_checked(r)
    behaviours = []
    rng = ctx.rng
    with open(out, errors="replace") as f:
        for line in f:
            if line.startswith('"@@E'):
                if sample is not None and rng.random() >= sample:
                    continue
                behaviours.append(json.loads(json.loads(line)[3:]))
    if not behaviours:
        raise core.MachineryError("no behaviours emitted for universe " + uni)
    return r, behaviours


# -- seeded random long histories over a larger universe ------------------------------------------
TYPED_POOL = {"interval": ["=1h", "=60m", "=90", "=1m30s", "=0", "=5", "=0:0:5"],
              "integer": ["=5", "=0x5", "=7", "=0", "=007"],
              "boolean": ["=yes", "=on", "=1", "=no", "=off"],
              "volume": ["=1k", "=1024", "=2k", "=0"]}
STR_POOL = ["=x", "=y", "=", "=two words"]
HOST_POOL = ["=h", "=g", "=::1"]
SVC_POOL = ["=p", "=8080"]
NAMES = ["a", "b", "c"]


def random_history(rng, length):
    """Registrations at any point, loads of random files (often the same again, sometimes failing)."""
    keys = []            # the universe of this history: (path, kind, subtype)
    objs = [()]
    for depth in (1, 2, 3):
        for parent in [o for o in objs if len(o) == depth - 1]:
            for n in NAMES:
                for k in "silo":
                    if rng.random() < (0.45 if depth == 1 else 0.3 if depth == 2 else 0.2):
                        if k == "o" and depth == 3:
                            continue
                        sub = rng.choice(["plain", "plain", "interval", "integer", "boolean", "volume"]) if k == "s" else ""
                        keys.append((parent + (n,), k, sub))
                        if k == "o":
                            objs.append(parent + (n,))
    if not keys:
        keys.append((("a",), "s", "plain"))
    upper = {key[:2]: rng.random() < 0.25 for key in keys}

    def value(key):
        path, k, sub = key
        if k == "s":
            return [rng.choice(TYPED_POOL[sub] if sub != "plain" else STR_POOL)]
        if k == "i":
            return [rng.choice(HOST_POOL), rng.choice(SVC_POOL)]
        if k == "l":
            return [rng.choice(STR_POOL) for _ in range(rng.choice([0, 0, 1, 2, 3]))]
        return []

    def default(key):
        path, k, sub = key
        if k == "s":
            return [rng.choice(["~"] + (TYPED_POOL[sub] if sub != "plain" else STR_POOL))]
        if k == "i":
            return [rng.choice(["~"] + HOST_POOL), rng.choice(["~"] + SVC_POOL)]
        if k == "l":
            return [rng.choice(STR_POOL) for _ in range(rng.choice([0, 1, 2, 4]))]
        return []

    def random_file():
        dens = rng.choice([0.3, 0.6, 0.9])
        chosen = set()
        ent = []
        for key in keys:                                   # parents come before their children
            path, k, sub = key
            if len(path) > 1 and (path[:-1], "o") not in chosen:
                continue
            if rng.random() < dens:
                chosen.add((path, k))
                ent.append({"p": list(path), "k": k, "v": value(key)})
        spell = [[list(path) + [k], path[-1].upper()] for (path, k) in chosen if upper[(path, k)] and rng.random() < 0.5]
        return ent, spell

    events, registered, files = [], set(), []
    for _ in range(length):
        x = rng.random()
        cands = [key for key in keys if key[:2] not in registered
                 and (len(key[0]) == 1 or (key[0][:-1], "o") in registered)]
        if x < 0.35 and cands:
            key = rng.choice(cands)
            registered.add(key[:2])
            ev = {"op": "reg", "p": list(key[0]), "k": key[1], "d": default(key), "s": key[2]}
            if key[1] == "l" and len(ev["d"]) <= 4 and rng.random() < 0.4:
                ev["via"] = "listsv"
            if upper[key[:2]] and rng.random() < 0.3:
                ev["spell"] = list(key[0][:-1]) + [key[0][-1].upper()]
            events.append(ev)
        elif x < 0.42 and files:
            events.append({"op": "bad", "which": rng.randrange(2)})
        elif x < 0.62 and files:
            ent, spell = rng.choice(files[-2:])
            events.append({"op": "load", "f": ent, "spell": spell})
            files.append((ent, spell))
        else:
            ent, spell = random_file()
            files.append((ent, spell))
            events.append({"op": "load", "f": ent, "spell": spell})
    return events


def nontrivial_cases(behaviours):
    """distinct (registrations so far, previous good file, file) triples over all load steps with
    previous file present and at least one registration or entry"""
    seen = set()
    for evs in behaviours:
        regs, prev = [], None
        for ev in evs:
            if ev["op"] == "reg":
                regs.append(("/".join(ev["p"]), ev["k"], ev["s"], tuple(ev["d"])))
            elif ev["op"] == "load":
                f = json.dumps(canon_entries(ev["f"]), separators=(",", ":"))
                if prev is not None and (regs or ev["f"]):
                    seen.add((tuple(sorted(regs)), prev, f))
                prev = f
    return seen


# ---------------------------------------------------------------------------------------------
def run(ctx):
    t0 = time.time()
    thorough = ctx.tier == "thorough"
    universes = THOROUGH_UNIVERSES if thorough else QUICK_UNIVERSES
    ctx.assumptions += [
        "configuration files are rendered in one plain layout (one entry per line, quoted strings); other "
        "layouts are the subject of C14/C16",
        "every parent object is registered before its children (consumers hold the parent pointer); a key is "
        "registered at most once per process; hooks are installed right after registration and on the root",
        "value pools hold no two strings that differ only in case (host/service comparison is case-insensitive) "
        "and only typed values the parsers accept",
        "sanitizers: ASan errors count (trace truncated), leaks are not looked at (detect_leaks=0)",
    ]
    ctx.cov["rule"] = ("distinct (registrations with defaults, previous good file, file) triples over all replayed "
                       "load steps that have a previous good file")
    nontrivial = set()
    ctx.cov["universes"] = {}

    # 1+2+3: exhaustive universes.  TLC runs of different universes go in parallel.
    def gen(uni):
        return uni, generate(ctx, uni)

    with ThreadPoolExecutor(4) as ex:
        gens = list(ex.map(gen, universes))
    ctx.cov["exhaustive"] = True
    ctx.note("model: %d distinct states, %d transitions over %d universes (%.0fs)"
             % (ctx.cov["states"], ctx.cov["transitions"], len(universes), time.time() - t0))

    everything = []
    for uni, (r, behaviours) in gens:
        nontrivial |= nontrivial_cases(behaviours)
        ctx.cov["universes"][uni] = {"distinct_states": r.distinct, "transitions": r.generated,
                                     "histories_replayed": len(behaviours), "tlc_wall_s": round(r.wall_s, 1)}
        ctx.note("%s: %d states / %d transitions model-checked, %d histories emitted"
                 % (uni, r.distinct, r.generated, len(behaviours)))
        if behaviours:
            ctx.sample(short(behaviours[len(behaviours) // 2]), limit=4)
        everything += behaviours

    # 4: random long histories
    n_rand, length = (6000, 30) if thorough else (400, 16)
    rnd = [random_history(ctx.rng, ctx.rng.randrange(length // 2, length + 1)) for _ in range(n_rand)]
    nontrivial |= nontrivial_cases(rnd)
    ctx.sample(short(rnd[0])[:600])
    everything += rnd

    t1 = time.time()
    camp = Campaign(ctx, "all")
    fails, drifts, nf, nd = camp.run(everything)
    ctx.cov["replay"] = {"histories_from_model": len(everything) - len(rnd), "random_histories": len(rnd),
                         "random_steps": sum(len(b) for b in rnd), "steps_executed": camp.steps,
                         "failing_steps": nf, "drifting_steps": nd,
                         "replay_and_validate_s": round(time.time() - t1, 1)}
    ctx.note("%d histories (%d from the model, %d random) replayed as prefix trees: %d steps executed on the real "
             "code and judged by TLC in %.1fs; %d fail, %d drift"
             % (len(everything), len(everything) - len(rnd), len(rnd), camp.steps, time.time() - t1, nf, nd))
    for names, events in drifts[:3]:
        ctx.drift("B predicts a different %s for: %s" % ("/".join(names), short(events)[:800]))
    if fails:
        camp.report(fails)

    ctx.cov["traces_validated_against_impl"] = len(everything)
    ctx.cov["evaluations"] = camp.steps
    ctx.cov["distinct_nontrivial"] = len(nontrivial)


def replay(ctx, body):
    """Re-run the history of a replay file on a fresh build and let TLC judge it again."""
    events = body["replay"]["events"]
    camp = Campaign(ctx, "replay")
    conj, err = camp.confirm(events)
    ctx.cov["evaluations"] = len(events)
    ctx.cov["traces_validated_against_impl"] = 1
    if conj is None:
        ctx.note("the history no longer violates the contract")
        return
    ctx.violation("replayed: the contract conjunct %s fails; history: %s" % (conj, short(events)), conj,
                  "%s | %s" % (conj, short(events)), {"events": events, "sanitizer": err[-3000:]})
