------------------------------ MODULE MCReload ------------------------------
(***************************************************************************)
(* Property C17, service table: model checking.                            *)
(*                                                                         *)
(* Two copies of the request engine IAuth.tla run side by side:            *)
(*   L  (the variables of IAuth itself)  the LONG-RUNNING daemon: started  *)
(*      on file `old` (every table over NameOrder x TypeWords), optionally *)
(*      serves a client (id PreId: C, P, H, then OK replies in any order   *)
(*      and number, or a disconnect while awaited), is reloaded 1..MaxRl   *)
(*      times at ANY point of that activity with ANY table (Reload!MergeSvc*)
(*      - the real walk of config.c with its hook deliveries);             *)
(*   F  (fserial, freq, fslots, fev, fout)  the FRESH daemon: re-created   *)
(*      at every reload as Reload!FreshSvc(new file).                      *)
(* After the last reload a PROBE client (id ProbeId) arrives and both      *)
(* copies take the same events in lock-step (routing tags translated):     *)
(* "-1 ? config", then either the scripted probe C, P, H, OK replies in    *)
(* any order (Free = FALSE) or every event of a free environment for that  *)
(* id (Free = TRUE: every arrival order of the data items, passwords,      *)
(* every reply kind, timeout).  The earlier client may still be awaited    *)
(* while the probe runs; its replies are steps of L only.                  *)
(*                                                                         *)
(* Checked (each a named INVARIANT):                                       *)
(*   ProbeEq       every lock-step step prints the same messages in L and  *)
(*                 F, as a multiset, routing tags erased (slots are        *)
(*                 reused, so the order of the X lines of one step may     *)
(*                 differ), unconfigured "-name" report lines ignored; and *)
(*                 the probe client is live in L iff it is live in F       *)
(*   SlotsRefine   the configured (name, type) set of L's slot table is    *)
(*                 that of the file in force   (refinement mapping to the  *)
(*                 contract's cfg.svcs)                                    *)
(*   FreshWhenIdle with no query outstanding, L's table equals the fresh   *)
(*                 table up to slot permutation / unused slots / refs      *)
(*   SlotsSane     no two records with one name; a record that is neither  *)
(*                 configured nor referenced has been freed                *)
(*   TreeFollows   the live configuration section equals the file          *)
(*   AbstractAgrees the walk's result has the same configured set as       *)
(*                 IAuth!ServicesChanged (the one-step Reload of IAuth.tla)*)
(*   P06_queries, P17_config, ... the contract (IAuthContract, its "RL"    *)
(*                 event) on L's steps about the probe client and on       *)
(*                 "? config"; steps about the client that was already     *)
(*                 there when the file changed are not judged (the         *)
(*                 property does not determine their treatment)            *)
(* With RBug = {"D10"}, {"D11"}, ... (Reload.tla) TLC must find a          *)
(* counterexample: the invariants are not vacuous.                         *)
(***************************************************************************)
EXTENDS Reload, Json

CONSTANTS
    MaxInst,      \* free probe: announcements of the probe id
    MaxPw,        \* free probe: password lines per instance
    EmitMod,      \* print every EmitMod-th complete behaviour (1 = all, 0 = none)
    TypeWords,    \* type words an entry may carry (known types and unknown words)
    MaxRl,        \* number of reloads
    PreOn,        \* BOOLEAN: the earlier client
    Free,         \* BOOLEAN: free probe environment (FreeEvents) instead of the scripted probe
    KeepOld       \* BOOLEAN: keep behaviours from different initial files apart (emission runs)

VARIABLES
    cst,          \* contract state (IAuthContract) fed with L's steps
    cviol,        \* contract conjuncts violated by the last judged step
    inst, npw,    \* free probe bookkeeping: announcements so far, password lines in the current instance
    hist,         \* history ghost: sequence of [e |-> event, o |-> L's output, n |-> in use, w |-> "init"|"pre"|"rl"|"probe"]
    tree,         \* L's live iauth_xquery section
    file,         \* the file in force (last successfully loaded)
    fserial, freq, fslots, fev, fout,      \* the fresh daemon F
    phase,        \* "pre" | "probe" | "done"
    nrl,          \* reloads so far
    pst,          \* stage of the earlier client: 0 none yet, 1 announced, 2 password sent, 3 hurried
    pp,           \* scripted probe: next step
    pviol,        \* probe conjuncts violated by the last step
    absok         \* ghost: the last reload agreed with IAuth!ServicesChanged

A == INSTANCE IAuthContract
F == INSTANCE IAuth WITH serial <- fserial, req <- freq, slots <- fslots, ev <- fev, out <- fout

PreId == 5
ProbeId == 6

rvars == <<serial, req, slots, ev, out, cst, cviol, inst, npw, hist,
           tree, file, fserial, freq, fslots, fev, fout, phase, nrl, pst, pp, pviol, absok>>

FileEntries == {NoFileEntry} \cup {[in |-> TRUE, type |-> w] : w \in TypeWords}
Files == [1..NN -> FileEntries]

CfgOf(f) == [svcs |-> FileSeq(f), required |-> {"host", "ident", "nick", "user"}, timeout |-> TimeoutOn]

RInit == /\ file \in Files
         /\ LET st == FreshSvc(file) IN
              /\ tree = st.tree
              /\ slots = st.sl
              /\ fslots = st.sl
         /\ serial = 0 /\ req = <<>> /\ ev = [e |-> "init"] /\ out = <<>>
         /\ fserial = 0 /\ freq = <<>> /\ fev = [e |-> "init"] /\ fout = <<>>
         /\ cst = A!CInit(CfgOf(file))
         /\ cviol = {}
         /\ inst = 0 /\ npw = 0
         /\ hist = << [e |-> [e |-> "init", svcs |-> FileSeq(file)], o |-> <<>>, n |-> 0, w |-> "init"] >>
         /\ phase = "pre" /\ nrl = 0 /\ pst = (IF PreOn THEN 0 ELSE 9) /\ pp = 0
         /\ pviol = {} /\ absok = TRUE

-----------------------------------------------------------------------------
(* the contract monitor on L; only steps about the probe client and "? config" are judged *)
Judged(e) == e.e = "QC" \/ ("id" \in DOMAIN e /\ e.id = ProbeId) \/ (e.e = "X" /\ e.oid = ProbeId)
Monitor(e) ==
    LET r == A!CStep(cst, e, out', Cardinality(DOMAIN req')) IN
    /\ cst' = r.c
    /\ cviol' = IF ~Judged(e) THEN {}
                ELSE IF PreId \in DOMAIN req' \/ PreId \in DOMAIN r.c.cl THEN r.v \ {"P10_count"}
                ELSE r.v

FStutter == UNCHANGED <<fserial, freq, fslots, fev, fout>>

-----------------------------------------------------------------------------
(* the earlier client (L only) *)
OkReply(i, sname, tag) == [e |-> "X", svc |-> sname, tag |-> tag, kind |-> "OKA", acct |-> <<"ac1", 8>>, text |-> <<"t1", 9>>,
                           trail |-> "", oid |-> i, st |-> 0]
PwEvent(i) == [e |-> "P", id |-> i, shape |-> "ok", modes |-> <<"+", "x">>, cred |-> <<"p1", 10>>, raw |-> <<"P+xp1", 0>>]

PreEvents ==
    IF pst = 0 THEN {[e |-> "C", id |-> PreId, addr |-> "A" \o Hex(PreId), port |-> 1000 + PreId]}
    ELSE IF pst = 1 THEN {PwEvent(PreId)}
    ELSE IF pst = 2 THEN {[e |-> "H", id |-> PreId]}
    ELSE IF pst = 3 /\ Live(PreId)
    THEN {OkReply(PreId, slots[s].name, Routing(PreId, req[PreId].serial)) : s \in req[PreId].ref}
         \cup (IF req[PreId].ref # {} THEN {[e |-> "D", id |-> PreId]} ELSE {})
    ELSE {}

PreStep ==
    /\ phase \in {"pre", "probe"}
    /\ \E e \in PreEvents :
         /\ Step(e)
         /\ Monitor(e)
         /\ pst' = IF pst < 3 THEN pst + 1 ELSE pst
         /\ hist' = Append(hist, [e |-> e, o |-> out', n |-> Cardinality(DOMAIN req'), w |-> "pre"])
    /\ pviol' = {}
    /\ FStutter
    /\ UNCHANGED <<tree, file, phase, nrl, pp, absok, inst, npw>>

-----------------------------------------------------------------------------
(* SIGUSR1 with a new file: the walk of config.c on L; F is re-created *)
ReloadStep ==
    /\ phase = "pre" /\ nrl < MaxRl
    /\ \E nf \in Files :
         LET st == ReloadSvc(tree, slots, nf)
             e == [e |-> "RL", svcs |-> FileSeq(nf)]
             fr == FreshSvc(nf)
         IN /\ tree' = st.tree
            /\ slots' = st.sl
            /\ file' = nf
            /\ ev' = e /\ out' = <<>>
            /\ UNCHANGED <<serial, req>>
            /\ absok' = (ConfiguredSet(st.sl) = ConfiguredSet(ServicesChanged(e.svcs)))
            /\ fslots' = fr.sl /\ fserial' = 0 /\ freq' = <<>> /\ fev' = [e |-> "init"] /\ fout' = <<>>
            /\ Monitor(e)
            /\ hist' = Append(hist, [e |-> e, o |-> <<>>, n |-> Cardinality(DOMAIN req), w |-> "rl"])
    /\ nrl' = nrl + 1
    /\ pviol' = {}
    /\ UNCHANGED <<phase, pst, pp, inst, npw>>

-----------------------------------------------------------------------------
(* the probe client: both copies, lock-step *)
ForF(e) == IF e.e = "X"
           THEN [e EXCEPT !.tag = IF ProbeId \in DOMAIN freq /\ e.tag = Routing(ProbeId, req[ProbeId].serial)
                                  THEN Routing(ProbeId, freq[ProbeId].serial) ELSE "0_0"]
           ELSE e

ScriptEvents ==
    IF pp = 0 THEN {[e |-> "QC"]}
    ELSE IF pp = 1 THEN {[e |-> "C", id |-> ProbeId, addr |-> "A" \o Hex(ProbeId), port |-> 1000 + ProbeId]}
    ELSE IF pp = 2 THEN {PwEvent(ProbeId)}
    ELSE IF pp = 3 THEN {[e |-> "H", id |-> ProbeId]}
    ELSE IF Live(ProbeId)
    THEN {OkReply(ProbeId, n, Routing(ProbeId, req[ProbeId].serial)) :
             n \in {slots[s].name : s \in req[ProbeId].ref}
                   \cup (IF ProbeId \in DOMAIN freq THEN {fslots[s].name : s \in freq[ProbeId].ref} ELSE {})}
    ELSE {}


\* free probe environment (one id): every data item in every order, well- and ill-shaped passwords, every reply kind
\* from every awaited service, the request timeout, disconnect / registered, re-announcement up to MaxInst
ReplyKinds == {"OK", "OKA", "OKE", "NO", "AGAIN", "MORE", "UNL", "JUNK"}
FreeEvents ==
    LET i == ProbeId IN
    (IF inst < MaxInst THEN {[e |-> "C", id |-> i, addr |-> "A" \o Hex(i), port |-> 1000 + i]} ELSE {})
    \cup (IF Live(i)
          THEN {[e |-> "N", id |-> i, host |-> <<"h1", 12>>], [e |-> "d", id |-> i], [e |-> "u", id |-> i, ident |-> <<"i1", 4>>],
                [e |-> "u0", id |-> i], [e |-> "n", id |-> i, nick |-> <<"n1", 5>>],
                [e |-> "U", id |-> i, user |-> <<"c1", 6>>, tilde |-> 0, real |-> <<"r1", 11>>],
                [e |-> "H", id |-> i], [e |-> "D", id |-> i], [e |-> "T", id |-> i]}
          ELSE {})
    \cup (IF Live(i) /\ npw < MaxPw
          THEN {[e |-> "P", id |-> i, shape |-> "ok", modes |-> m, cred |-> <<"p1", 10>>, raw |-> <<"Pp1", 0>>]
                  : m \in {<<"+", "x">>, <<"+", "!">>}}
               \cup {[e |-> "P", id |-> i, shape |-> "nomode", modes |-> <<>>, cred |-> <<"p1", 10>>, raw |-> <<"Pnomodep1", 0>>]}
          ELSE {})
    \cup (IF Live(i) /\ req[i].timer = "armed" THEN {[e |-> "TO", id |-> i]} ELSE {})
    \cup (IF Live(i)
          THEN {[e |-> "X", svc |-> n, tag |-> Routing(i, req[i].serial), kind |-> k, acct |-> <<"ac1", 8>>, text |-> <<"t1", 9>>,
                 trail |-> "", oid |-> i, st |-> IF k = "JUNK" THEN 1 ELSE 0]
                  : n \in {slots[s].name : s \in req[i].ref}
                          \cup (IF i \in DOMAIN freq THEN {fslots[s].name : s \in freq[i].ref} ELSE {}),
                    k \in ReplyKinds}
          ELSE {})

ProbeEvents == IF Free THEN FreeEvents \cup (IF pp = 0 THEN {[e |-> "QC"]} ELSE {}) ELSE ScriptEvents

EraseTag(m) == IF m.k = "X" THEN [m EXCEPT !.tag = "*"] ELSE m
\* the comparable part of a step's output: unconfigured "-name type" report lines are not compared
Proj(o) == LET p == SelectSeq(o, LAMBDA m : ~(m.k = "A" /\ m.mod = "xquery" /\ ~m.conf))
           IN [k \in 1..Len(p) |-> EraseTag(p[k])]

ProbeStep ==
    /\ phase \in {"pre", "probe"} /\ nrl >= 1
    /\ \E e \in ProbeEvents :
         /\ Step(e)
         /\ F!Step(ForF(e))
         /\ Monitor(e)
         /\ pviol' = (IF A!SameBag(Proj(out'), Proj(fout')) THEN {} ELSE {"ProbeEq"})
                     \cup (IF (ProbeId \in DOMAIN req') = (ProbeId \in DOMAIN freq') THEN {} ELSE {"ProbeLive"})
         /\ inst' = IF e.e = "C" THEN inst + 1 ELSE inst
         /\ npw' = IF e.e = "C" THEN 0 ELSE IF e.e = "P" /\ Live(ProbeId) THEN npw + 1 ELSE npw
         /\ hist' = Append(hist, [e |-> e, o |-> out', n |-> Cardinality(DOMAIN req'), w |-> "probe"])
         /\ pp' = IF pp < 4 THEN pp + 1 ELSE pp
         /\ phase' = IF Free
                     THEN (IF inst' >= MaxInst /\ ProbeId \notin DOMAIN req' THEN "done" ELSE "probe")
                     ELSE (IF pp >= 3 /\ ProbeId \notin DOMAIN req' /\ ProbeId \notin DOMAIN freq' THEN "done" ELSE "probe")
    /\ UNCHANGED <<tree, file, nrl, pst, absok>>

RNext == PreStep \/ ReloadStep \/ ProbeStep
RSpec == RInit /\ [][RNext]_rvars

-----------------------------------------------------------------------------
(* state identity: ghosts out; the verdict sets stay in so that a violating step is never deduplicated away *)
FSlotsNoRefs == [s \in 1..Len(fslots) |-> [fslots[s] EXCEPT !.refs = 0]]
RView == <<serial, req, slots, cst, cviol, inst, npw, tree, file, fserial, freq, FSlotsNoRefs,
           phase, nrl, pst, pp, pviol, absok, IF KeepOld THEN hist[1] ELSE 0>>

\* one complete behaviour per explored transition that ends a probe
REmit == \/ EmitMod = 0
         \/ ~(phase' = "done" /\ phase # "done")
         \/ (EmitMod > 1 /\ RandomElement(1..EmitMod) # 1)
         \/ PrintT("@@E" \o ToJson(hist'))

-----------------------------------------------------------------------------
ProbeEq        == "ProbeEq" \notin pviol
ProbeLive      == "ProbeLive" \notin pviol
SlotsRefine    == ConfiguredSet(slots) = FileConfigured(file)
FreshWhenIdle  == (\A s \in 1..Len(slots) : slots[s].refs = 0) => CanonSlots(slots) = CanonSlots(FreshSvc(file).sl)
SlotsSane      == NoDupNames(slots) /\ NoGarbage(slots)
TreeFollows    == TreeIsFile(tree, file)
AbstractAgrees == absok
FreshIsFresh   == phase = "pre" => fslots = FreshSvc(file).sl

\* contract conjuncts, one invariant each so that TLC names the property
P01_once    == "P01_once" \notin cviol
P02_gate    == "P02_gate" \notin cviol
P03_prompt  == "P03_prompt" \notin cviol
P04_stray   == "P04_stray" \notin cviol
P05_content == "P05_content" \notin cviol
P06_queries == "P06_queries" \notin cviol
P07_scope   == "P07_scope" \notin cviol
P09_wire    == "P09_wire" \notin cviol
P10_count   == "P10_count" \notin cviol
P17_config  == "P17_config" \notin cviol

-----------------------------------------------------------------------------
(* configurations *)
Names1 == << "a.svc" >>
Names2 == << "a.svc", "b.svc" >>
Names3 == << "a.svc", "b.svc", "c.svc" >>
Words5 == {"login", "login-ipr", "dronecheck", "combined", "bogus"}
Words3 == {"login", "dronecheck", "bogus"}
Words2 == {"login", "dronecheck"}
NoBug == {}
NoServices == << >>
RB_none == {}
RB_D10 == {"D10"}
RB_D11 == {"D11"}
RB_KEEPCONF == {"KEEPCONF"}
RB_NORETYPE == {"NORETYPE"}
=============================================================================
