"""C16  Config text means what it says.

spec/ConfSyntax.tla: the documented grammar (trees, Meaning, Render, an independent Parse,
typed values).  TLC (spec/MCConfSyntax) checks Meaning(Parse(Render(t, l))) = Meaning(t) for all
trees up to the bound and all layouts of the chosen sets, and prints the renderings; each
printed (tree, layout, bytes) is loaded by the real conf_read() (harness/h_confparse, fresh
state per file), and TLC (spec/ConfParseTrace) judges the recorded trace: bytes = Render(tree,
layout), rc = 0, dump of the present nodes = Meaning(tree), typed settings deliver the
component sum, unparsable typed values leave the previous parsed value.
"""
import hashlib
import json
import time

from vlib import confparse as cp
from vlib import core

LEVEL = "model_checking"
TITLE = "Config text means what it says (documented syntax read back exactly; typed values)"

CONJ_TEXT = {
    "C16_Accepted": "a file written in the documented syntax was rejected",
    "C16_ReadBack": "the configuration read back differs from the tree that was written",
    "C16_Spelling": "a name was delivered with a spelling the file does not contain",
    "C16_TypedGood": "a typed setting did not deliver the value written",
    "C16_TypedBad": "an unparsable typed value changed the value in force",
    "C14_Total": "loading a file written in the documented syntax did not complete (crash, sanitizer abort or hang)",
    "C14_Atomic": "a failed load changed the live configuration",
    "C14_NoNotify": "a failed load delivered a change notification",
    "C14_PostState": "a successful load left a malformed live tree",
}


def _plan(ctx):
    if ctx.tier == "quick":
        return dict(model=dict(mode="cyc", total=2, tapelen=3, tapemax=6),
                    gens=[("rnd", dict(total=3, ntapes=1)), ("big", dict(nbig=600, ntapes=1)), ("typed", dict(nbig=120)), ("wide", dict(nbig=24))])
    return dict(model=dict(mode="cyc", total=3, tapelen=3, tapemax=6),
                gens=[("rnd", dict(total=3, ntapes=10)), ("big", dict(nbig=12000, ntapes=3)), ("typed", dict(nbig=1500)), ("wide", dict(nbig=96))])


def _cases_from(emitted, mode, start):
    """Emitted records -> forked cases (one file each; typed: two files per case)."""
    cases = []
    if mode == "typed":
        by = {}
        for e in emitted:
            by.setdefault(e["id"], {})[e["k"]] = e
        for j in sorted(by):
            if 0 in by[j] and 1 in by[j]:
                cases.append(cp.Case("ty%d" % j, [by[j][0]["b"], by[j][1]["b"]], [by[j][0], by[j][1]], group="typed"))
    else:
        for i, e in enumerate(emitted):
            cases.append(cp.Case("%s%d" % (mode, start + i), [e["b"]], [e], group=mode))
    return cases


def _features(cases):
    """What the generated cases exercise (recorded in the evidence; a zero is a machinery error)."""
    import re
    ft = {"string": 0, "pair": 0, "list": 0, "empty_list": 0, "object": 0, "empty_object": 0, "depth2_object": 0,
          "duplicate_key": 0, "repeated_object": 0, "same_name_other_kind": 0, "typed_good": 0, "typed_bad": 0,
          "c_comment": 0, "cpp_comment": 0, "crlf": 0, "value_touching_rbrace": 0, "hex_escape": 0, "named_escape": 0,
          "bare_comma_list": 0, "semicolon": 0}

    def walk(ents, depth):
        seen = {}
        for e in ents:
            k = e["k"]
            key = (bytes(e["n"]).lower(), k)
            if key in seen:
                ft["repeated_object" if k == "o" else "duplicate_key"] += 1
            elif any(n == key[0] for n, _ in seen):
                ft["same_name_other_kind"] += 1
            seen[key] = 1
            if k == "s":
                ft["string"] += 1
            elif k == "p":
                ft["pair"] += 1
            elif k == "l":
                ft["list"] += 1
                if not e["items"]:
                    ft["empty_list"] += 1
            else:
                ft["object"] += 1
                if not e["ents"]:
                    ft["empty_object"] += 1
                if depth == 1:
                    ft["depth2_object"] += 1
                walk(e["ents"], depth + 1)

    for c in cases:
        for f, g in zip(c.files, c.gens):
            walk(g["t"], 0)
            for ty in g.get("typed", []):
                ft["typed_good" if ty["good"] else "typed_bad"] += 1
                if ty["good"] == 2:
                    ft["typed_wide"] = ft.get("typed_wide", 0) + 1
            ft["c_comment"] += b"/*" in f
            ft["cpp_comment"] += b"//" in f
            ft["crlf"] += b"\r\n" in f
            ft["value_touching_rbrace"] += bool(re.search(rb'[A-Za-z0-9_.#")-]\}', f))
            ft["hex_escape"] += b"\\x" in f
            ft["named_escape"] += bool(re.search(rb'\\[abfnrtv]', f))
            ft["bare_comma_list"] += any(e["k"] == "l" and len(e["items"]) >= 2 for e in g["t"]) and b"(" not in f
            ft["semicolon"] += b";" in f
    return ft


def _report(ctx, ts, viols, setup):
    """Confirm on a fresh process and report, one violation per conjunct (shortest input first)."""
    gen_fail = [(ci, inv, ln) for ci, inv, ln in viols if inv.startswith("Gen_")]
    bad = {}
    for ci, inv, ln in viols:
        if not inv.startswith(cp.CONTRACT_PREFIXES):
            continue
        context, case, cid = ts.locate(ci, ln)
        if case is None:
            raise core.MachineryError("TLC rejected line %d (%s) of a chunk that belongs to no case" % (ln, inv))
        size = sum(len(f) for f in case.files)
        if inv not in bad or size < bad[inv][0]:
            bad[inv] = (size, case)
    if gen_fail and not bad:
        ci, inv, ln = gen_fail[0]
        raise core.MachineryError("%s failed on line %d: the bytes loaded are not the rendering the generator recorded"
                                  % (inv, ln))
    for inv, (size, case) in sorted(bad.items()):
        again, lines, err = cp.rerun(ctx, setup, case, "c16-" + inv)
        again = [a for a in again if a.startswith(cp.CONTRACT_PREFIXES)]
        if not again:
            ctx.note("%s on case %s was not reproduced on a fresh process - not reported" % (inv, case.id))
            continue
        conj = inv if inv in again else again[0]
        k = 0
        what = "%s; file: %s" % (CONJ_TEXT.get(conj, conj), cp.show(case.files[-1] if len(case.files) > 1 and conj == "C16_TypedBad" else case.files[k]))
        san = cp.sanitizer_summary(err)
        if san:
            what += "; " + san
        sig = "%s|%s" % (conj, "|".join(cp.show(f, 300) for f in case.files))
        ctx.violation(what, conj, sig, {"setup": setup, "id": case.id, "files": [f.hex() for f in case.files],
                                        "gens": case.gens, "conjuncts": again})


def run(ctx):
    plan = _plan(ctx)
    t0 = time.time()
    # 1. exhaustive model run: all shapes of the bound x all cyclic tapes
    rm = cp.model_check(ctx, **plan["model"])
    ctx.model_checked(rm)
    ctx.cov["model"] = dict(plan["model"], cases=rm.distinct, wall_s=round(rm.wall_s, 1))
    ctx.note("model: %s -> %d states, all satisfy Meaning(Parse(Render(t,l))) = Meaning(t) (%.0fs)"
             % (plan["model"], rm.distinct, rm.wall_s))
    # 2. renderings for the real parser (each one checked by TLC as it is printed)
    cases = []
    for mode, params in plan["gens"]:
        emitted, r = cp.generate(ctx, mode, mode, workers=16, **params)
        ctx.model_checked(r)
        cs = _cases_from(emitted, mode, len(cases))
        ctx.note("generated %d %s cases (%.0fs)" % (len(cs), mode, r.wall_s))
        cases += cs
    ctx.cov["gen_s"] = round(time.time() - t0, 1)
    ft = _features(cases)
    ctx.cov["features"] = ft
    if min(ft.values()) == 0:
        raise core.MachineryError("the generated cases never exercise: %s" % [k for k, v in ft.items() if not v])
    # 3. the real parser, fresh state for every case (fork of a process that only registered the typed settings)
    setup = cp.typed_setup()
    t1 = time.time()
    res = cp.run_cases(ctx, setup, cases, "c16", nproc=16)
    ts = cp.TraceSet(ctx, "c16", chunk_lines=6000)
    missing = []
    for i, (outp, errp, rc, part) in enumerate(res):
        missing += ts.add_process_output(outp, errp, part, "p%d" % i)
    ts.finish()
    ctx.cov["replay_s"] = round(time.time() - t1, 1)
    # 4. TLC judges
    viols = cp.validate(ctx, ts, "ConfParseTrace.cfg")
    if not viols:
        cp.oracle_selftest(ctx, ts, "ConfParseTrace.cfg", True)
    _report(ctx, ts, viols, setup)
    if missing and not (ctx.violations or ctx.known_hits):
        raise core.MachineryError("%d cases produced no output (harness died?), e.g. %s" % (len(missing), missing[:3]))
    # evidence
    files = set()
    for c in cases:
        for f in c.files:
            files.add(hashlib.sha1(f).digest())
    ctx.cov["evaluations"] = ts.loads
    ctx.cov["traces_validated_against_impl"] = sum(1 for c in cases) - len(missing)
    ctx.cov["distinct_nontrivial"] = len(files)
    ctx.cov["rule"] = ("cases = (tree, layout) pairs rendered by TLC from spec/ConfSyntax.tla: every tree shape with <= 3 entries in "
                       "total (rnd), pseudo-random larger trees with <= 3 entries per object and nesting depth <= 2 (big), and "
                       "files of typed settings (typed, two loads per case); layouts are pseudo-random choice tapes seeded with the "
                       "run's seed.  Counted: distinct file byte strings loaded by the real parser (every file has >= 1 entry).")
    ctx.cov["rc_histogram"] = {str(k): v for k, v in sorted(ts.rcs.items(), key=lambda kv: str(kv[0]))}
    ctx.cov["exhaustive"] = False
    for c in cases[:2] + cases[len(cases) // 2:len(cases) // 2 + 2] + cases[-2:]:
        ctx.sample({"id": c.id, "files": [cp.show(f, 400) for f in c.files],
                    "tree": c.gens[0]["t"] if len(json.dumps(c.gens[0]["t"])) < 1500 else "(large)"})
    ctx.assumptions += [
        "documented syntax = grammar comment of doc/iauthd-c.conf.example plus the escapes shown in tests/unit-tests.conf; where "
        "that text is silent the reading under which the unchanged parser is not blamed is taken (DESIGN.md section 9)",
        "every file loaded was rendered by TLC from spec/ConfSyntax.tla and re-checked (bytes = Render(tree, layout)) during trace validation; "
        "Python only moves the bytes",
        "fresh state per file = fork() of a harness process that has only registered the typed settings (and log.c's own 'logs' section)",
        "names differing only in letter case are not generated for the real parser; the empty string as a name, NUL bytes, raw control "
        "characters inside quotes, escapes other than \\a \\b \\f \\n \\r \\t \\v \\xHH \\\" \\\\ are not generated",
        "integers are written in decimal (strtoul base 0 also takes 0x.. and 0.. forms: not generated); typed values below 2^31 are drawn pseudo-randomly; intervals and volumes from 2^31 to 2^32 - 1 come from ConfSyntax!WidePool (largest fitting count of every unit, 2^31, 2^32 - 1; decimal digit sequences with schoolbook arithmetic, since TLC integers are 32 bits wide)",
        "ASan: detect_leaks=0 (leaks are not part of this property)",
    ]


def replay(ctx, body):
    rp = body["replay"]
    case = cp.Case(rp["id"], [bytes.fromhex(f) for f in rp["files"]], rp.get("gens"))
    again, lines, err = cp.rerun(ctx, rp["setup"], case, "replay")
    again = [a for a in again if a.startswith(cp.CONTRACT_PREFIXES)]
    for ln in lines:
        print("  " + ln[:400])
    if err.strip():
        print("  stderr: " + err.strip()[:1500])
    if again:
        ctx.violation(body.get("what", ""), again[0], body.get("signature", ""), rp)
    else:
        ctx.note("replay: the contract holds on this case now")
    ctx.cov["evaluations"] = len(case.files)
    ctx.cov["distinct_nontrivial"] = len(lines)
    ctx.cov["rule"] = "replay of one recorded case; counted: trace lines judged by TLC"
    ctx.sample({"files": [cp.show(f) for f in case.files]})
