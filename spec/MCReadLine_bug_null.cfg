CONSTANTS
  ARGV = 2
  Bug <- BugNullStore
  Alphabet <- Sigma4
  MaxLen = 5
  MaxChunk = 5
  Streams <- AllStreams
  LiveIds <- Live05
INIT RInit
NEXT RNext
INVARIANT DeliveredIsContract
INVARIANT BufferIsTail
INVARIANT NoLineWaiting
INVARIANT ArgvInBounds
INVARIANT AbsentParamIsNull
INVARIANT EofClean
