"""C19  The set container (src/set.c) is an ordered map for every history.

Technique (docs/BUILDER_GUIDE.md):
  (A) spec/SetMap.tla    contract: sorted map with element identities + bag of cleanup calls
  (B) spec/Splay.tla     implementation-shaped: root, l, r, prev, next, count; set_splay transcribed
  TLC explores B completely over 7 keys (every call from every reachable tree shape), checks the
  structural audit in every state and that every transition refines A.  Insert takes the link values
  found in the node object handed in; TLC checks that the outcome never depends on them (all four links
  are written on every path; 3 keys: every combination of NULL / non-node / live node) and refutes the
  Bug switch "no link written when a replacement emptied the tree".
  harness/h_set.c explores the REAL structure breadth-first over the same 7 keys (every call from
  every reachable shape, each on a fresh set) for each stock comparator and logs every call;
  TLC (spec/SetTrace.tla) evaluates the contract on every logged line: this is the oracle.
  Every node the harness allocates has its links pointed at decoy objects; from every shape and every
  key in it the node is taken out with no_dispose and inserted again with its stale links (as a new
  key, as a replacement, into the emptied set, as a replacement of the only element); random histories
  recycle kept nodes too.  A recycled node is a NEW element identity (fresh id).
  String keys: spec/KeyOrder.tla states strcasecmp's C-locale order over character codes; TLC checks
  every logged rank -> key table against it.  Universes 1..3 (7 keys each) are built from the
  characters adjacent to the letter ranges (@ [ \ ] ^ _ ` { | digits, "", prefixes, case variants);
  random histories draw 64..200 keys from all strings of length <= 2 over those characters.
  The real transition relation over shapes is compared with the model's (difference = DRIFT),
  model-generated behaviours are replayed on the real code (shape after every call = DRIFT check,
  contract = VIOLATION check), and long random call sequences over 64 (thorough: up to 200) keys
  are validated against the contract and against B (spec/SplayTrace.tla, drift).
"""
import json
import os
import re
import subprocess
import time
from concurrent.futures import ThreadPoolExecutor

from vlib import core

LEVEL = "model_checking"
TITLE = "set container is an ordered map: TLC-explored splay model + contract validation of real traces"

CMPS = ["int", "charp", "voidp", "ptr"]
OPC = {"ins": "I", "find": "F", "lower": "L", "rem": "D", "clear": "C", "iter": "W"}
CONJUNCT_TEXT = {
    "C19_completes": "a call did not return (crash, assertion, sanitizer abort or hang)",
    "C19_pre": "first/next walk before the call differs from the set the history built",
    "C19_result": "result of find / lower / remove differs from the mathematical set",
    "C19_size": "set_size differs from the number of members",
    "C19_order": "first/next/prev order differs from the sorted members",
    "C19_cleanup": "cleanup calls of the call are not exactly the removed / replaced / cleared elements",
    "C19_tree": "structural audit: tree is not a search tree over exactly the members",
    "C19_list": "structural audit: threaded list is not the in-order walk",
    "C19_cleanup_once": "an element was cleaned up more than once",
    "C19_cleanup_not_member": "cleanup ran on an element still in the set",
    "C19_cleanup_not_kept": "cleanup ran on an element taken out with no_dispose",
}


# deep chains (sorted fills of up to 200 keys) make the structural audit recurse as deep as the tree
JOPTS = ["-XX:ParallelGCThreads=2", "-XX:CICompilerCount=2", "-Xss512m"]


def _tlc(ctx, module, cfg, **kw):
    """ctx.tlc, retried once if the JVM was killed from outside (SIGTERM/SIGKILL: shared sandbox)."""
    try:
        return ctx.tlc(module, cfg, **kw)
    except Exception as e:   # vlib.tlc.TLCError
        if "TLC exited 143" in str(e) or "TLC exited 137" in str(e):
            return ctx.tlc(module, cfg, **kw)
        raise


def _chain_script(rng, cmp_, n, ncalls):
    """Histories that make the tree as deep as it can get: keys inserted in ascending or descending order (the daemon's
    request table, keyed by client ids handed out in order, is filled exactly so), or from the outside in, and then
    - before anything has splayed it up - a call about an element at every depth of the chain: for m = 2..n a fresh set is
    filled with m keys and one of find / lower / remove / replace is made for the deepest key, its neighbour, or a key at
    a random depth; then a few more calls walk back along what is left of the chain."""
    out = []
    made = 0
    ms = list(range(2, n + 1))
    rng.shuffle(ms)
    for m in ms:
        if made >= ncalls:
            break
        out.append("R")
        lo = rng.randint(1, n - m + 1)
        ks = list(range(lo, lo + m))
        order = rng.choice(["asc", "asc", "desc", "desc", "outside-in"])
        if order == "desc":
            ks.reverse()
        elif order == "outside-in":
            a, b, z = ks[:], [], True
            while a:
                b.append(a.pop(0) if z else a.pop())
                z = not z
            ks = b
        out += ["I %d" % k for k in ks]
        made += m
        probes = [ks[0], ks[1 % m], ks[rng.randrange(m)]]
        present = set(ks)
        for k in probes[:rng.randint(1, 3)]:
            op = rng.choice(["F", "F", "L", "D", "I"] if cmp_ != "ptr" else ["F", "F", "L", "D"])
            if op == "D":
                if k in present:
                    out.append("D %d 0" % k)
                    present.discard(k)
            elif op == "I":
                if k in present:
                    out.append("I %d" % k)
            else:
                out.append("%s %d" % (op, k))
            made += 1
        out.append("W")
    return out


# ------------------------------------------------------------------------------------------------
def _harness(ctx, args, timeout=600):
    """Run h_set; returns (rc, summary dict or None, stderr text)."""
    exe = ctx.build.harness("h_set")
    env = dict(os.environ)
    env["ASAN_OPTIONS"] = "detect_leaks=1:abort_on_error=0:allocator_may_return_null=1"
    env["UBSAN_OPTIONS"] = "print_stacktrace=1"
    try:
        p = subprocess.run([exe] + args, stdout=subprocess.PIPE, stderr=subprocess.PIPE, text=True,
                           errors="replace", timeout=timeout, env=env, cwd=ctx.scratch)
    except subprocess.TimeoutExpired:
        raise core.MachineryError("h_set timed out: %s" % " ".join(args))
    summ = None
    for ln in p.stdout.splitlines():
        if ln.startswith("{"):
            try:
                summ = json.loads(ln)
            except ValueError:
                pass
    if p.returncode == 2:
        raise core.MachineryError("h_set usage/script error: %s\n%s" % (" ".join(args), p.stderr[-2000:]))
    return p.returncode, summ, p.stderr


def _last_line(path):
    with open(path, "rb") as f:
        f.seek(0, 2)
        n = f.tell()
        f.seek(max(0, n - 4096))
        tail = f.read().decode(errors="replace")
    lines = [x for x in tail.split("\n") if x]
    return lines[-1] if lines else ""


def _kargs(u, x):
    """harness arguments selecting the string-key universe"""
    return ["-u", str(u), "-x", str(x)] if u else []


def _keys_text(trace, calls):
    """The concrete string keys the calls name, for the violation message (syntactic rendering of the Keys line)."""
    try:
        with open(trace) as f:
            d = json.loads(f.readline())
        if d.get("e") != "Keys" or d.get("cmp") != "charp":
            return ""
        used = sorted(set(int(c.split()[1]) for c in calls if c[0] in "IJFLD"))

        def sp(codes):
            return json.dumps("".join(chr(c) for c in codes))
        return "; string keys by rank: " + ", ".join(
            "%d=%s" % (k, "/".join(sorted(set(sp(v) for v in d["keys"][k - 1])))) for k in used[:24])
    except (OSError, ValueError, KeyError, IndexError):
        return ""


def _as_run(trace, calls):
    """The call sequence as the harness executed it: "J k" without a kept node of rank k is "I k"."""
    try:
        got = []
        with open(trace) as f:
            for ln in f:
                d = json.loads(ln)
                if d.get("e") in ("Op", "Begin"):
                    got.append(_op_cmd(d))
    except (OSError, ValueError, KeyError):
        return calls
    if len(got) != len(calls):
        return calls
    return [g if c.startswith("J") and g.startswith("I") and g[1:] == c[1:] else c for g, c in zip(got, calls)]


def _validate(ctx, trace, timeout=900):
    """TLC evaluates the contract on a recorded trace.  Returns None if accepted, else
    (conjunct, rejected line number (1-based), TLC text)."""
    r = _tlc(ctx, "SetTrace", "SetTrace.cfg", workers=1, timeout=timeout, env={"TRACE": trace}, heap="2g", java_opts=JOPTS)
    if r.ok:
        return None, r
    if r.violated and r.violated.startswith("C19_"):
        last = r.trace[-1] if r.trace else r.violation_text
        if r.violated == "C19_completes":
            m = re.search(r"/\\ pos = (\d+)", last)
            line = int(m.group(1)) if m else 0
        else:
            m = re.search(r"line \|-> (\d+)", last)
            line = int(m.group(1)) if m else 0
        if not line:
            raise core.MachineryError("cannot locate the rejected line:\n" + r.violation_text[:2000])
        return (r.violated, line, "TLC: invariant %s of SetTrace.tla is violated by trace line %d" % (r.violated, line)), r
    raise core.MachineryError("trace validation failed without a contract verdict (%s) on %s:\n%s"
                              % (r.violated, trace, r.violation_text[:3000]))


def _op_cmd(d):
    o = d["o"]
    if o == "ins" and d.get("rc") == 1:
        return "J %d" % d["k"]          # the node object was a recycled one (taken out with no_dispose before)
    if o in ("ins", "find", "lower"):
        return "%s %d" % (OPC[o], d["k"])
    if o == "rem":
        return "D %d %d" % (d["k"], d["nd"])
    if o == "clear":
        return "C %d" % d["nd"]
    return "W"


def _history_of(trace, lineno):
    """The call sequence (from a fresh set) that ends with the call logged at line lineno."""
    path, marked, cur = [], None, []
    with open(trace) as f:
        for i, ln in enumerate(f, 1):
            d = json.loads(ln)
            e = d.get("e")
            if e == "Reset":
                cur, marked = [], None
            elif e == "Mark":
                marked = list(cur)
            elif e in ("Op", "Begin"):
                if e == "Op" and d.get("b") == 1 or (e == "Begin" and marked is not None):
                    cur = list(marked or [])
                cur.append(_op_cmd(d))
            if i == lineno:
                return cur
    return cur


def _run_script(ctx, cmp_, n, cmds, tag, u=0, x=0):
    """Run a linear call sequence on a fresh harness process and validate it; returns (verdict, stderr)."""
    sp = os.path.join(ctx.scratch, "confirm-%s.script" % tag)
    tp = os.path.join(ctx.scratch, "confirm-%s.ndjson" % tag)
    with open(sp, "w") as f:
        f.write("R\n" + "\n".join(cmds) + "\n")
    rc, summ, err = _harness(ctx, ["script", "-c", cmp_, "-n", str(n), "-o", tp, "-s", sp] + _kargs(u, x))
    if rc != 0 and not _last_line(tp).startswith('{"e":"Begin"'):
        raise core.MachineryError("h_set failed (rc %d) outside a call:\n%s" % (rc, err[-3000:]))
    v, _ = _validate(ctx, tp)
    return v, err


def _minimise(ctx, cmp_, n, cmds, conjunct, budget_s=45, u=0, x=0):
    """Greedy shortening of a failing call sequence (same conjunct must keep failing)."""
    t0 = time.time()
    cur = list(cmds)
    chunk = max(1, len(cur) // 2)
    k = 0
    while chunk >= 1 and len(cur) > 1 and time.time() - t0 < budget_s:
        i, changed = 0, False
        while i < len(cur) - 1 and time.time() - t0 < budget_s:
            cand = cur[:i] + cur[i + chunk:]
            if not cand:
                break
            if cmp_ == "ptr" and not _ptr_ok(cand):
                i += chunk
                continue
            k += 1
            v, _ = _run_script(ctx, cmp_, n, cand, "min%d" % (k % 4), u, x)
            if v and v[0] == conjunct:
                cur, changed = cand, True
            else:
                i += chunk
        if not changed:
            chunk //= 2
    return cur


def _ptr_ok(cmds):
    """set_compare_ptr: the key is the node's own address, so a node can be inserted only while it is
    not in the set, and never again after it was disposed (input well-formedness, not a judgement)."""
    present, dead = set(), set()
    for c in cmds:
        w = c.split()
        if w[0] in ("I", "J"):
            k = int(w[1])
            if k in present or k in dead:
                return False
            present.add(k)
        elif w[0] == "D":
            k = int(w[1])
            if k in present:
                present.discard(k)
                if int(w[2]) == 0:
                    dead.add(k)
        elif w[0] == "C":
            if int(w[1]) == 0:
                dead |= present
            present = set()
    return True


def _sig(cmp_, n, u, x, calls):
    return "cmp=%s n=%d%s calls=%s" % (cmp_, n, " keys=u%d.x%d" % (u, x) if u else "",
                                       ",".join(c.replace(" ", "") for c in calls))


def _report(ctx, cmp_, n, cmds, verdict, origin, stderr="", u=0, x=0):
    """Confirm on a fresh process, minimise, report."""
    conjunct = verdict[0]
    v2, err2 = _run_script(ctx, cmp_, n, cmds, "re", u, x)
    if not v2:
        ctx.note("rejection (%s, %s) did not reproduce on a fresh process: not reported" % (cmp_, conjunct))
        return
    conjunct = v2[0]
    small = _minimise(ctx, cmp_, n, cmds, conjunct, u=u, x=x) if len(cmds) > 3 else cmds
    v3, err3 = _run_script(ctx, cmp_, n, small, "fin", u, x)
    if not v3:          # cannot happen (the minimiser only keeps failing sequences); be safe
        small, v3, err3 = cmds, v2, err2
    conjunct = v3[0]
    fin = os.path.join(ctx.scratch, "confirm-fin.ndjson")
    small = _as_run(fin, small)
    legend = (" (J k = insert the node object of key k that an earlier call took out with no_dispose)"
              if any(c.startswith("J") for c in small) else "")
    what = "%s; comparator %s, %d keys%s, %s; call sequence from an empty set%s: %s" % (
        CONJUNCT_TEXT.get(conjunct, conjunct), cmp_, n,
        _keys_text(fin, small), origin, legend, " ; ".join(small))
    san = (err3 or stderr or "")[-1500:]
    ctx.violation(what, conjunct, _sig(cmp_, n, u, x, small),
                  {"cmp": cmp_, "n": n, "u": u, "x": x, "calls": small, "conjunct": conjunct,
                   "sanitizer": san, "tlc": v3[2][:600]})


# ------------------------------------------------------------------------------------------------
def _model_transitions(path):
    """Parse TLC's per-transition behaviours; returns (set of transition strings, list of behaviours)."""
    trans, behs = set(), []
    with open(path, errors="replace") as f:
        for ln in f:
            if not ln.startswith('"@@E'):
                continue
            h = json.loads(json.loads(ln)[3:])
            pre = h[-2]["s"] if len(h) > 1 else [0]
            e = h[-1]
            trans.add("%s;%s;%d;%d;%s" % (",".join(map(str, pre)), e["o"], e["k"], e["nd"], ",".join(map(str, e["s"]))))
            behs.append(h)
    return trans, behs


def _beh_script(behs):
    """Group behaviours (shortest prefix + one transition) by prefix: R, prefix, M, then B + last call each.
    Every call is followed by the model's shape (S ...)."""
    groups = {}
    for h in behs:
        key = tuple((e["o"], e["k"], e["nd"]) for e in h[:-1])
        groups.setdefault(key, (h[:-1], []))[1].append(h[-1])
    out = []
    for key in sorted(groups, key=lambda k: (len(k), k)):
        prefix, lasts = groups[key]
        out.append("R")
        for e in prefix:
            out.append(_op_cmd(e))
            out.append("S " + " ".join(map(str, e["s"])))
        out.append("M")
        for e in lasts:
            out.append("B")
            out.append(_op_cmd(e))
            out.append("S " + " ".join(map(str, e["s"])))
    return out, len(groups)


def _random_script(rng, cmp_, n, ncalls):
    """A long random history (well-formed for the comparator)."""
    out = ["R"]
    present, dead = set(), set()
    keptk = set()     # ranks of which the harness holds a node taken out with no_dispose (links stale)
    keys = list(range(1, n + 1))
    # phases with different mixes so that the set grows large, shrinks, and is cleared now and then
    made = 0
    while made < ncalls:
        grow = rng.choice([0.7, 0.5, 0.3])
        for _ in range(rng.randint(50, 400)):
            if made >= ncalls:
                break
            x = rng.random()
            if x < 0.45:
                k = rng.choice(keys)
                if x < 0.45 * grow or not present:
                    if cmp_ == "ptr" and (k in present or k in dead):
                        free = [q for q in keys if q not in present and q not in dead]
                        if not free:
                            out.append("R")
                            present, dead = set(), set()
                            keptk = set()
                            continue
                        k = rng.choice(free)
                    if cmp_ != "ptr" and keptk and rng.random() < 0.5:
                        # recycle a kept node: as a new key, or replacing the element with the equal key
                        k = rng.choice(sorted(keptk))
                        keptk.discard(k)
                        out.append("J %d" % k)
                    else:
                        out.append("I %d" % k)
                    present.add(k)
                else:
                    k = rng.choice(sorted(present)) if rng.random() < 0.8 else k
                    nd = rng.randint(0, 1)
                    out.append("D %d %d" % (k, nd))
                    if k in present:
                        present.discard(k)
                        if nd == 0:
                            dead.add(k)
                        else:
                            keptk.add(k)
                    # drain: now and then take everything out and recycle the kept node into the empty set, or
                    # let it replace the only element (a fresh one with the equal key)
                    if cmp_ != "ptr" and k in keptk and len(present) <= 3 and rng.random() < 0.5:
                        for q in sorted(present):
                            nd2 = rng.randint(0, 1)
                            out.append("D %d %d" % (q, nd2))
                            if nd2:
                                keptk.add(q)
                            made += 1
                        present = set()
                        if rng.random() < 0.5:
                            out.append("I %d" % k)
                            made += 1
                        out.append("J %d" % k)
                        made += 1
                        keptk.discard(k)
                        present.add(k)
            elif x < 0.65:
                out.append("F %d" % rng.choice(keys))
            elif x < 0.85:
                out.append("L %d" % rng.choice(keys))
            elif x < 0.93:
                # replace an equal key (not possible with the node-address comparator)
                if present and cmp_ != "ptr":
                    both = sorted(present & keptk)
                    if both and rng.random() < 0.8:
                        k = rng.choice(both)
                        keptk.discard(k)
                        out.append("J %d" % k)
                    else:
                        out.append("I %d" % rng.choice(sorted(present)))
                else:
                    out.append("W")
            elif x < 0.995:
                out.append("W")
            else:
                nd = rng.randint(0, 1)
                out.append("C %d" % nd)
                if nd == 0:
                    dead |= present
                else:
                    keptk |= present
                present = set()
            made += 1
    return out


# ------------------------------------------------------------------------------------------------
def run(ctx):
    thorough = ctx.tier == "thorough"
    ctx.build  # build first (shared)
    h = ctx.build.harness("h_set")
    if not os.path.exists(h):
        raise core.MachineryError("harness h_set was not built")
    sc = ctx.scratch
    NK = 7
    ex = ThreadPoolExecutor(max_workers=16)
    failures = []          # (cmp, n, calls, verdict, origin, stderr, string universe u, key draw x)
    abnormal = []          # explorations that met shapes which cannot be a set (must come with a rejection)

    # ---- 1. model: exhaustive TLC runs (in the background) ---------------------------------------
    emit_path = os.path.join(sc, "model7.out")
    f_model = ex.submit(_tlc, ctx, "MCSplay", "MCSplay7emit.cfg", workers=6, timeout=800, heap="4g",
                        stdout_path=emit_path, java_opts=["-XX:ParallelGCThreads=4"])
    f_model8 = None
    if thorough:
        emit8_path = os.path.join(sc, "model8.out")
        f_model8 = ex.submit(_tlc, ctx, "MCSplay", "MCSplay8emit.cfg", workers=8, timeout=1500, heap="8g",
                             stdout_path=emit8_path, java_opts=["-XX:ParallelGCThreads=4"])
    f_contract = ex.submit(_tlc, ctx, "MCSetMap", "MCSetMap.cfg", workers=2, timeout=600, heap="2g", java_opts=JOPTS)
    # the order the string comparator stands for (KeyOrder.tla) is a strict total order on case classes
    f_order = ex.submit(_tlc, ctx, "MCKeyOrder", "MCKeyOrder.cfg", workers=1, timeout=300, heap="1g", java_opts=JOPTS)
    # set_insert writes every link of the node it is given: any stale link values (NULL / non-node / live node)
    f_stale = ex.submit(_tlc, ctx, "MCSplay", "MCSplay4stale.cfg" if thorough else "MCSplay3stale.cfg", workers=4,
                        timeout=900, heap="2g", java_opts=JOPTS)
    # ... and the model can tell: the Bug switch must be refuted (structural audit; the explicit statement)
    f_bug = [ex.submit(_tlc, ctx, "MCSplay", c, workers=1, timeout=300, heap="1g", java_opts=JOPTS)
             for c in ("MCSplay3bug.cfg", "MCSplay3bugI.cfg")]

    # ---- 2. real code: own breadth-first exploration, every comparator ----------------------------
    def bfs_job(cmp_, n, parts, u, recycle):
        base = os.path.join(sc, "bfs-%s-%d-u%d" % (cmp_, n, u))
        rc, summ, err = _harness(ctx, ["bfs", "-c", cmp_, "-n", str(n), "-o", base, "-P", str(parts),
                                       "-t", base + ".trans", "-r", str(recycle)] + _kargs(u, 0))
        return cmp_, n, base, rc, summ, err, parts, u

    def val_job(cmp_, n, path, origin, err, u):
        v, r = _validate(ctx, path)
        return cmp_, n, path, v, origin, err, r, u

    # (comparator, keys, trace parts, string universe, with the recycling sequences)
    # quick: the two pointer comparators over 6 keys (7 in thorough); int and char* always over 7; the string
    # comparator over universes 0, 1, 2 (thorough: 3 as well) without the recycling sequences (how set_insert
    # treats the links of the node it is given does not depend on the comparator; int, void* and node-address
    # keys have them; thorough: every exploration has them)
    if thorough:
        plan_bfs = [(c, NK, 8, 0, 1) for c in CMPS] + [("charp", NK, 8, u, 1) for u in (1, 2, 3)] + [("int", 8, 16, 0, 1)]
    else:
        plan_bfs = [("int", NK, 6, 0, 1), ("voidp", 6, 2, 0, 1), ("ptr", 6, 1, 0, 1)] \
                   + [("charp", NK, 3, u, 0) for u in (0, 1, 2)]
    bfs_runs = [ex.submit(bfs_job, *a) for a in plan_bfs]
    vals = []
    real_trans = {}
    stats = {}
    for fu in bfs_runs:
        cmp_, n, base, rc, summ, err, parts, u = fu.result()
        crashed = rc != 0
        if crashed:
            begun = [p for p in range(parts) if _last_line("%s.%d" % (base, p)).startswith('{"e":"Begin"')]
            if not begun:
                raise core.MachineryError("h_set bfs failed (rc %d) outside a call:\n%s" % (rc, err[-3000:]))
        else:
            stats[(cmp_, n, u)] = summ
            with open(base + ".trans") as f:
                real_trans[(cmp_, n, u)] = set(x.strip() for x in f)
            if summ["capped"] or summ["not_expanded"]:
                abnormal.append((cmp_, n, summ))
        for p in range(parts):
            vals.append(ex.submit(val_job, cmp_, n, "%s.%d" % (base, p), "exhaustive exploration of the real structure"
                                  + (" (string universe %d)" % u if u else ""), err, u))

    # ---- 3. long random histories over larger universes (seeded) -----------------------------------
    # (comparator, keys, calls, repetitions, string universe): universe 1 = keys drawn (per repetition) from all
    # strings of length <= 2 over the characters adjacent to the letter ranges
    rnd = []
    if thorough:
        plan = [(c, 64, 4000, 6, 0) for c in CMPS] + [(c, 200, 3000, 2, 0) for c in CMPS] \
               + [("charp", 64, 4000, 6, 1), ("charp", 200, 3000, 2, 1), ("charp", 20, 2000, 4, 1)]
    else:
        plan = [(c, 64, 1000, 1, 0) for c in CMPS] + [("charp", 64, 1000, 2, 1), ("charp", 20, 600, 2, 1)]
    for cmp_, n, ncalls, reps, u in plan:
        for rep in range(reps):
            cmds = _random_script(ctx.rng, cmp_, n, ncalls)
            rnd.append((cmp_, n, rep, cmds, u, ctx.rng.randrange(1, 1 << 30) if u else 0))
    # chains (sorted fills of 2..n keys, then a call about an element at every depth)
    for cmp_, n, ncalls in ([(c, 200, 30000) for c in CMPS] + [(c, 64, 3000) for c in CMPS] if thorough
                            else [(c, 48, 1300) for c in CMPS]):
        rnd.append((cmp_, n, 100, _chain_script(ctx.rng, cmp_, n, ncalls), 0, 0))

    def rnd_job(cmp_, n, rep, cmds, u, x):
        sp = os.path.join(sc, "rnd-%s-%d-u%d-%d.script" % (cmp_, n, u, rep))
        tp = os.path.join(sc, "rnd-%s-%d-u%d-%d.ndjson" % (cmp_, n, u, rep))
        with open(sp, "w") as f:
            f.write("\n".join(cmds) + "\n")
        rc, summ, err = _harness(ctx, ["script", "-c", cmp_, "-n", str(n), "-o", tp, "-s", sp] + _kargs(u, x))
        if rc != 0 and not _last_line(tp).startswith('{"e":"Begin"'):
            raise core.MachineryError("h_set script failed (rc %d) outside a call:\n%s" % (rc, err[-3000:]))
        v, r = _validate(ctx, tp)
        if not v and summ and summ.get("stopped_at_line"):
            raise core.MachineryError("h_set stopped a %s history at script line %d but TLC rejected no line"
                                      % (cmp_, summ["stopped_at_line"]))
        d = None
        if not v and rc == 0:
            d = _drift_check(ctx, tp)
        return cmp_, n, tp, v, "random history (seed %d)" % ctx.seed, err, r, summ, d, u, x

    rnd_runs = [ex.submit(rnd_job, *a) for a in rnd]

    # ---- collect model results ----------------------------------------------------------------------
    rm = f_model.result()
    if not rm.ok:
        raise core.MachineryError("model-only TLC run of Splay.tla failed (%s): the specification is wrong, "
                                  "not the code\n%s" % (rm.violated, rm.violation_text[:3000]))
    rc_ = f_contract.result()
    if not rc_.ok:
        raise core.MachineryError("model-only TLC run of SetMap.tla failed (%s)\n%s" % (rc_.violated, rc_.violation_text[:2000]))
    ro = f_order.result()
    if not ro.ok:
        raise core.MachineryError("KeyOrder.tla: the stated string order is not a strict total order on case classes "
                                  "(%s)\n%s" % (ro.violated, ro.violation_text[:2000]))
    rs = f_stale.result()
    if not rs.ok:
        raise core.MachineryError("model-only TLC run of Splay.tla with arbitrary stale links failed (%s): the "
                                  "specification is wrong, not the code\n%s" % (rs.violated, rs.violation_text[:3000]))
    refuted = []
    for fu, want in zip(f_bug, (("TypeOK", "SearchTreeOrder", "TreeIsAllNodes", "ListIsInOrder", "CountOK", "Refines"),
                                ("InsertIgnoresStale",))):
        rb = fu.result()
        if rb.ok or rb.violated not in want:
            raise core.MachineryError("Splay.tla with BugStaleLinks = TRUE was not refuted by TLC (%s): the model "
                                      "cannot see unwritten links\n%s" % (rb.violated, rb.violation_text[:1500]))
        refuted.append(rb.violated)
    ctx.model_checked(rm)
    ctx.model_checked(rc_)
    ctx.model_checked(rs)
    ctx.cov["stale_link_model"] = {"cfg": "MCSplay4stale.cfg" if thorough else "MCSplay3stale.cfg",
                                   "shapes": rs.distinct, "transitions": rs.generated - 1,
                                   "bug_switch_refuted_by": refuted}
    ctx.note("Splay.tla with every combination of stale links in the inserted node (%s): %d shapes, %d transitions, "
             "InsertIgnoresStale + audit + refinement hold; BugStaleLinks refuted (%s)"
             % (ctx.cov["stale_link_model"]["cfg"], rs.distinct, rs.generated - 1, ", ".join(refuted)))
    ctx.cov["exhaustive"] = True
    ctx.cov["model_shapes_7_keys"] = rm.distinct
    ctx.cov["model_transitions_7_keys"] = rm.generated - 1
    ctx.note("Splay.tla over 7 keys: %d reachable shapes, %d transitions, depth %d, audit + refinement to SetMap hold (%.0fs)"
             % (rm.distinct, rm.generated - 1, rm.depth, rm.wall_s))
    model_trans, behs = _model_transitions(emit_path)
    if len(model_trans) != rm.generated - 1:
        raise core.MachineryError("emitted %d behaviours for %d transitions" % (len(model_trans), rm.generated - 1))

    # ---- 4. model-generated behaviours replayed on the real code ---------------------------------------
    def beh_job(cmp_, sample):
        cmds, ngroups = _beh_script(sample)
        sp = os.path.join(sc, "beh-%s.script" % cmp_)
        tp = os.path.join(sc, "beh-%s.ndjson" % cmp_)
        with open(sp, "w") as f:
            f.write("\n".join(cmds) + "\n")
        rc, summ, err = _harness(ctx, ["script", "-c", cmp_, "-n", str(NK), "-o", tp, "-s", sp])
        if rc != 0 and not _last_line(tp).startswith('{"e":"Begin"'):
            raise core.MachineryError("h_set script failed (rc %d) outside a call:\n%s" % (rc, err[-3000:]))
        v, r = _validate(ctx, tp)
        return cmp_, NK, tp, v, "replay of TLC-generated behaviours of Splay.tla", err, r, summ, len(sample)

    if thorough:
        beh_runs = [ex.submit(beh_job, c, behs[i::2]) for i, c in enumerate(["int", "charp"])]
        beh_runs += [ex.submit(beh_job, "voidp", ctx.rng.sample(behs, 20000))]
    else:
        beh_runs = [ex.submit(beh_job, "int", ctx.rng.sample(behs, min(len(behs), 5000)))]

    # ---- collect validation of the real traces ---------------------------------------------------------
    lines = 0
    traces = 0
    rnd_rc = {}
    for fu in vals:
        cmp_, n, path, v, origin, err, r, u = fu.result()
        lines += r.distinct - 1
        if v:
            failures.append((cmp_, n, _history_of(path, v[1]), v, origin, err, u, 0))
    for fu in rnd_runs:
        cmp_, n, path, v, origin, err, r, summ, d, u, x = fu.result()
        lines += r.distinct - 1
        if v:
            failures.append((cmp_, n, _history_of(path, v[1]), v, origin, err, u, x))
        else:
            ctx.cov["random_calls"] = ctx.cov.get("random_calls", 0) + summ["logged"]
            ctx.cov["evaluations"] += summ["calls"]
            traces += summ["histories"]
            for key, c in summ["recycled"].items():
                rnd_rc[key] = rnd_rc.get(key, 0) + c
            if u:
                ctx.cov["random_calls_boundary_strings"] = ctx.cov.get("random_calls_boundary_strings", 0) + summ["logged"]
            if d:
                ctx.drift("random history over %d keys (%s): tree shape differs from Splay.tla at trace line %d"
                          % (n, cmp_, d), {"trace": os.path.basename(path)})
    beh_replayed = 0
    for fu in beh_runs:
        cmp_, n, path, v, origin, err, r, summ, nb = fu.result()
        lines += r.distinct - 1
        if v:
            failures.append((cmp_, n, _history_of(path, v[1]), v, origin, err, 0, 0))
        else:
            beh_replayed += nb
            ctx.cov["evaluations"] += summ["calls"]
            traces += nb
            if summ["shape_drift"]:
                ctx.drift("replay of model behaviours (%s): real tree shape differs from Splay.tla after %d of %d calls "
                          "(first at script line %d)" % (cmp_, summ["shape_drift"], summ["shape_compared"], summ["first_drift_line"]))
    ctx.cov["model_behaviours_replayed"] = beh_replayed
    ctx.cov["trace_lines_validated_by_tlc"] = lines

    # ---- drift: real transition relation over shapes == model's -------------------------------------------
    model_by_n = {NK: model_trans}
    if f_model8 is not None:
        r8 = f_model8.result()
        if not r8.ok:
            raise core.MachineryError("model-only TLC run of Splay.tla (8 keys) failed (%s)\n%s" % (r8.violated, r8.violation_text[:3000]))
        ctx.model_checked(r8)
        ctx.note("Splay.tla over 8 keys: %d reachable shapes, %d transitions, depth %d (%.0fs)"
                 % (r8.distinct, r8.generated - 1, r8.depth, r8.wall_s))
        model_by_n[8], _b8 = _model_transitions(emit8_path)
        del _b8
    # Splay.tla over keys 1..6 is the 7-key model restricted to shapes without key 7 and calls with k # 7
    # (reachability from the empty tree re-computed within the restriction)
    by_pre = {}
    for t in model_trans:
        f = t.split(";")
        if "7" not in f[0].split(",") and f[2] != "7":
            by_pre.setdefault(f[0], []).append((t, f[4]))
    m6, seen6, todo = set(), {"0"}, ["0"]
    while todo:
        for t, post in by_pre.get(todo.pop(), ()):
            m6.add(t)
            if post not in seen6:
                seen6.add(post)
                todo.append(post)
    model_by_n[6] = m6
    distinct = 0
    bfs_rc = {}
    for (cmp_, n, u), rt in sorted(real_trans.items()):
        s = stats[(cmp_, n, u)]
        ctx.cov["evaluations"] += s["calls"]
        # one history to each shape + one per branch call from it + one per recycling sequence
        traces += s["histories"] + len(rt) + s["composites"]
        distinct += sum(1 for t in rt if not t.startswith("0;") or ";ins;" in t)
        ctx.cov.setdefault("real_shapes", {})["%s/%d%s" % (cmp_, n, "/u%d" % u if u else "")] = s["shapes"]
        for key in ("cleanup_calls", "replacing_inserts", "hits", "misses", "poisoned_inserts"):
            ctx.cov[key] = ctx.cov.get(key, 0) + s[key]
        ctx.cov["recycling_sequences"] = ctx.cov.get("recycling_sequences", 0) + s["composites"]
        for key, c in s["recycled"].items():
            bfs_rc[key] = bfs_rc.get(key, 0) + c
        for o, c in s["ops"].items():
            ctx.cov.setdefault("calls_logged_by_kind", {}).setdefault(o, 0)
            ctx.cov["calls_logged_by_kind"][o] += c
        if n not in model_by_n:
            continue
        mt = model_by_n[n] if cmp_ != "ptr" else set(t for t in model_by_n[n] if _ptr_transition_possible(t))
        missing = mt - rt
        extra = rt - mt
        if missing or extra:
            ex1 = sorted(extra)[:2] + sorted(missing)[:2]
            ctx.drift("transition relation over tree shapes (%s, %d keys): %d real transitions unknown to Splay.tla, "
                      "%d model transitions not taken by the code; e.g. %s"
                      % (cmp_ + ("/u%d" % u if u else ""), n, len(extra), len(missing), ex1))
    ctx.cov["recycled_inserts_exhaustive"] = bfs_rc
    ctx.cov["recycled_inserts_random"] = rnd_rc
    ctx.cov["distinct_nontrivial"] = distinct
    ctx.cov["rule"] = ("distinct (comparator, tree shape before, call with arguments) transitions executed on the real "
                       "set.c by the harness's own breadth-first exploration (every call from every reachable shape over "
                       "7 keys per stock comparator and, for the string comparator, per key universe; the calls of the "
                       "recycling sequences count as transitions from the shape before them); non-trivial = the set is "
                       "non-empty before the call or the call inserts. "
                       "evaluations = API calls executed on the real code (including rebuilding each shape along its "
                       "shortest history). traces_validated_against_impl = histories from an empty set validated by TLC "
                       "(one per reachable shape, one per branch call from it, one per recycling sequence, model "
                       "behaviours, random histories). recycled_inserts_*: insertions of a node object taken out with "
                       "no_dispose earlier; 'stale' = its links were not all NULL; by the set it went into.")
    ctx.cov["traces_validated_against_impl"] = traces
    if not failures:
        # anti-vacuity: every kind of call, cleanup and replacement must have been exercised
        if set(stats) != set((a[0], a[1], a[3]) for a in plan_bfs):
            raise core.MachineryError("an exploration of the real structure is missing: %s" % sorted(stats))
        for key in ("into_empty", "replace_only_element", "new_key", "replace"):
            if not bfs_rc.get(key) or not rnd_rc.get(key):
                raise core.MachineryError("recycled node with stale links never inserted (%s): exhaustive %s, random %s"
                                          % (key, bfs_rc, rnd_rc))
        if not ctx.cov.get("poisoned_inserts") or not ctx.cov.get("random_calls_boundary_strings"):
            raise core.MachineryError("poisoned node links / boundary-character string keys never exercised")
        for o in OPC:
            if not ctx.cov["calls_logged_by_kind"].get(o):
                raise core.MachineryError("call kind %s was never exercised" % o)
        if not ctx.cov.get("cleanup_calls") or not ctx.cov.get("replacing_inserts") or not ctx.cov.get("hits") \
                or not ctx.cov.get("misses"):
            raise core.MachineryError("cleanup / replace / hit / miss never exercised")
    for t in sorted(model_trans)[1000:1003]:
        ctx.sample({"transition (shape;call;k;no_dispose;shape after)": t})
    if behs:
        ctx.sample({"model behaviour replayed": [(e["o"], e["k"], e["nd"]) for e in behs[len(behs) // 2]]})
    for cmp_, n, rep, cmds, u, x in rnd[:2]:
        ctx.sample({"random history (%s, %d keys), first calls" % (cmp_, n): cmds[:25]})
    ctx.assumptions += [
        "rank -> concrete key tables of harness/h_set.c are ascending in the comparator's mathematical order "
        "(checked by TLC for int and char* keys from the logged table; pointer keys are sorted by address in the harness)",
        "int keys include INT_MIN, -2000000000, -1, 0, 1, 2000000000, INT_MAX; char* keys include case variants that compare equal",
        "set_compare_charp stands for strcasecmp in the C locale as stated in spec/KeyOrder.tla (bytes compared after "
        "mapping A-Z to a-z only); string keys are ASCII: \"\", digits, letters and @ [ \\ ] ^ _ ` { | ~ (bytes >= 128 "
        "and other locales are not exercised)",
        "a node object taken out with no_dispose and inserted again is a NEW element identity: the old identity was handed "
        "back and must never be cleaned up, the new one exactly once when it is disposed",
        "set_compare_ptr: exhaustive exploration uses no_dispose removals only (a freed node's address cannot be re-inserted); "
        "disposal with that comparator is covered by the random histories",
        "memory errors are observed through ASan/UBSan instrumented code only",
    ]
    ex.shutdown()

    for cmp_, n, summ in abnormal:
        if not any(f[0] == cmp_ for f in failures):
            raise core.MachineryError("exploration of the real structure (%s, %d keys) met %d malformed shapes but TLC "
                                      "rejected no line" % (cmp_, n, summ["not_expanded"]))
    # ---- verdicts ------------------------------------------------------------------------------------------
    seen = set()
    failures.sort(key=lambda f: (len(f[2]), f[0]))
    for cmp_, n, cmds, v, origin, err, u, x in failures:
        key = (cmp_, v[0])
        if key in seen:
            continue
        seen.add(key)
        if len(seen) > 8:
            break
        _report(ctx, cmp_, n, cmds, v, origin, err, u, x)


def _ptr_transition_possible(t):
    """Calls the node-address comparator admits in the exhaustive exploration (see assumptions)."""
    pre, o, k, nd, _ = t.split(";")
    if o == "ins":
        return k not in pre.split(",")
    if o in ("rem", "clear"):
        return nd == "1"
    return True


def _drift_check(ctx, trace):
    """Validate a linear real trace against the implementation-shaped spec; returns the first drifting line or None."""
    r = _tlc(ctx, "SplayTrace", "SplayTrace.cfg", workers=1, timeout=900, env={"TRACE": trace}, heap="2g", java_opts=JOPTS)
    if r.ok:
        return None
    if r.violated == "NoDrift":
        m = re.search(r"/\\ drift = (\d+)", r.trace[-1] if r.trace else "")
        return int(m.group(1)) if m else -1
    raise core.MachineryError("SplayTrace failed (%s):\n%s" % (r.violated, r.violation_text[:2000]))


def replay(ctx, body):
    rp = body["replay"]
    u, x = rp.get("u", 0), rp.get("x", 0)
    v, err = _run_script(ctx, rp["cmp"], rp["n"], rp["calls"], "replay", u, x)
    ctx.cov["evaluations"] = len(rp["calls"])
    ctx.cov["distinct_nontrivial"] = len(set(rp["calls"]))
    ctx.cov["rule"] = "replay of one recorded failing call sequence"
    ctx.sample(rp["calls"])
    if v:
        ctx.violation("%s; replayed call sequence%s: %s" % (
            CONJUNCT_TEXT.get(v[0], v[0]), _keys_text(os.path.join(ctx.scratch, "confirm-replay.ndjson"), rp["calls"]),
            " ; ".join(rp["calls"])), v[0], _sig(rp["cmp"], rp["n"], u, x, rp["calls"]),
            dict(rp, sanitizer=err[-1500:], tlc=v[2][:600]))
    else:
        ctx.note("replayed call sequence is accepted by the contract")
