------------------------------ MODULE MCSplay -------------------------------
(* Exhaustive exploration of Splay.tla: all tree shapes reachable over Keys, every call from
   every shape.  Element ids are fresh numbers, so states are identified by a VIEW that names
   nodes by their keys.  hist (hidden by the VIEW) is a shortest call sequence to the state;
   Emit prints one complete behaviour per explored transition (for replay on the real code). *)
EXTENDS Splay, Json

VARIABLE hist

KeyOf(n) == IF n = NULL THEN 0 ELSE IF n \in Nodes THEN key[n] ELSE -9    \* -9: no live node (BugStaleLinks only)
View == <<Shape, {<<key[n], KeyOf(l[n]), KeyOf(r[n]), KeyOf(prv[n]), KeyOf(nxt[n])>> : n \in Nodes}, count>>

MCInit == Init /\ hist = <<>>
MCNext == Next /\ hist' = Append(hist, [o |-> op'.o, k |-> op'.k, nd |-> IF op'.nd THEN 1 ELSE 0, s |-> Shape'])
MCSpec == MCInit /\ [][MCNext]_<<vars, hist>>

Emit == PrintT("@@E" \o ToJson(hist'))
=============================================================================
