--------------------------- MODULE ReadLineTrace ---------------------------
(***************************************************************************)
(* Trace validation for C08 (arbitrary input cannot crash or derail the    *)
(* daemon).  The ndjson file named by TRACE holds runs of the REAL daemon  *)
(* recorded by vlib/bytesrun.py; every line is consumed by one step here.  *)
(*                                                                         *)
(* Stream runs (a history of input lines, junk lines mixed in, delivered   *)
(* as one byte stream cut into read() chunks, possibly ended at any byte): *)
(*   {"e":"Ref","ok":..}      the clean line-at-a-time run it is compared  *)
(*                            with (itself a real run; must be clean)      *)
(*   {"e":"Run","want":W}     a fresh daemon; W steps lie wholly inside    *)
(*                            the bytes that were sent                     *)
(*   {"e":"Prompt","due":D,"got":G,"len":L,"size":4096,"ms":..,"dead":..} *)
(*                            a chunk of L = k * 4096 bytes (the daemon's  *)
(*                            read size) ending in a barrier line has been *)
(*                            read; the input stayed open and nothing else *)
(*                            was written: G of the D barrier answers due  *)
(*                            were seen within the time-out                *)
(*   {"e":"S","k":..,"j":..,"oc":..,"n":..,"roc":..,"rn":..,"g":..}        *)
(*                            step k finished (barrier answered): output   *)
(*                            and in-use count, and those of the same line *)
(*                            in the reference run (oc/roc: canonical JSON *)
(*                            text of the parsed output, compared here);   *)
(*                            g = 1: junk lines were glued in front of the *)
(*                            line (no barrier in between: same read()     *)
(*                            chunk, same call of iauth_read()); ocq/rocq: *)
(*                            the outputs without oper notices (the glued  *)
(*                            junk may print notices of its own)           *)
(*   {"e":"Eof",...}          end of input: exit status, sanitizer report, *)
(*                            hang flag, output after the last barrier     *)
(* Contract conjuncts (printed as @@V when violated):                      *)
(*   complete   every step inside the stream finished, in order            *)
(*   hang       the daemon stopped reading, or did not exit at end of input*)
(*   crash      the daemon died while being fed                            *)
(*   exit       exit status 0 at end of input                              *)
(*   sanitizer  no AddressSanitizer / LeakSanitizer report                 *)
(*   same       a well-formed line gets the output and in-use count it got *)
(*              in the clean run (also when junk lines sit directly in     *)
(*              front of it in the same chunk)                             *)
(*   prompt     ReadLine!NoLineWaiting on the real daemon: once a chunk    *)
(*              has been read - also one that fills the read buffer k      *)
(*              times exactly - every complete line in it is acted upon    *)
(*              (the barrier lines answered) without further input         *)
(*   stutter    a junk line prints nothing but oper notices and leaves the *)
(*              number of requests alone                                   *)
(*   tail       what is printed after the last finished step is the output *)
(*              of the lines whose barrier was cut off; a last line that   *)
(*              lacks only its terminator is dropped or treated as that    *)
(*              line, nothing else                                         *)
(* Drift (@@D): the implementation-shaped spec says an unterminated last   *)
(* line is dropped (ReadLine!Eof); a daemon that processes it once drifts. *)
(*                                                                         *)
(* Byte-level cases ({"e":"Case",...}), see the second half.               *)
(***************************************************************************)
EXTENDS ReadLineOps, Json, IOUtils

VARIABLES l, run, cnt

TraceLog == ndJsonDeserialize(IOEnv.TRACE)
NoBugs == {}

tvars == <<l, run, cnt>>
NoRun == [k |-> 0, n |-> 0, want |-> 0]

\* (IF, not \/: TLC explores both sides of a disjunction inside an action)
Report(v) == IF v = {} THEN TRUE ELSE PrintT("@@V" \o ToJson([l |-> l, v |-> v]))
ReportDrift(d, want) == PrintT("@@D" \o ToJson([l |-> l, d |-> d, want |-> want]))

OnlyNotices(o) == \A k \in 1..Len(o) : o[k].k = ">"

\* anti-vacuity counters, printed (@@N) with the last line: how often each part of the oracle was exercised
NoCnt == [refs |-> 0, runs |-> 0, steps |-> 0, junksteps |-> 0, notices |-> 0, eofs |-> 0, cut |-> 0, tailalt |-> 0,
          tailjunk |-> 0, tailpart |-> 0, cases |-> 0, junkcases |-> 0, predcases |-> 0, prednotices |-> 0, ends |-> 0,
          prompts |-> 0, promptk |-> 0, glued |-> 0, gluedjunk |-> 0]
Bump(f) == [cnt EXCEPT ![f] = @ + 1]
BumpIf(c, f, cond) == IF cond THEN [c EXCEPT ![f] = @ + 1] ELSE c

TInit == l = 1 /\ run = NoRun /\ cnt = NoCnt

TRef == /\ TraceLog[l].e = "Ref"
        /\ Report(IF TraceLog[l].ok = 1 THEN {} ELSE {"refrun"})
        /\ run' = NoRun
        /\ cnt' = Bump("refs")

TRun == /\ TraceLog[l].e = "Run"
        /\ run' = [k |-> 0, n |-> 0, want |-> TraceLog[l].want]
        /\ cnt' = Bump("runs")

\* Promptness.  The record is only meaningful if the chunk was a whole number of read buffers (the driver sees to
\* that; a record that says otherwise is rejected as "promptsetup").  A daemon that died is the Eof record's business.
TPrompt ==
    /\ TraceLog[l].e = "Prompt"
    /\ LET rec == TraceLog[l]
           v == (IF rec.size = ReadSize /\ rec.len > 0 /\ rec.len % ReadSize = 0 /\ rec.due >= 1 THEN {} ELSE {"promptsetup"})
                \cup (IF rec.got >= rec.due \/ rec.dead = 1 THEN {} ELSE {"prompt"})
       IN /\ Report(v)
          /\ cnt' = BumpIf(Bump("prompts"), "promptk", rec.len > ReadSize)
    /\ UNCHANGED run

TStep ==
    /\ TraceLog[l].e = "S"
    /\ LET rec == TraceLog[l]
           v == (IF rec.k = run.k + 1 /\ rec.k <= run.want THEN {} ELSE {"complete"})
                \cup (IF rec.j = 0
                      THEN (IF (IF rec.g = 1 THEN rec.ocq = rec.rocq ELSE rec.oc = rec.roc) /\ rec.n = rec.rn THEN {} ELSE {"same"})
                      ELSE (IF OnlyNotices(rec.o) /\ rec.n = run.n THEN {} ELSE {"stutter"}))
       IN /\ Report(v)
          /\ run' = [run EXCEPT !.k = rec.k, !.n = rec.n]
          /\ cnt' = BumpIf(BumpIf(BumpIf(BumpIf(Bump("steps"), "junksteps", rec.j = 1), "notices", rec.j = 1 /\ rec.o # <<>>),
                                  "glued", rec.g = 1 /\ rec.j = 0), "gluedjunk", rec.g = 1 /\ rec.j = 1)

TEof ==
    /\ TraceLog[l].e = "Eof"
    /\ LET rec == TraceLog[l]
           dropped == rec.restc = rec.rrefc /\ rec.tailstats = 0               \* ReadLine!Eof: the tail is dropped
           once == rec.hasalt = 1 /\ rec.restc = rec.raltc /\ rec.tailstats = rec.altstats
           tailOK == IF rec.rj = 1 THEN OnlyNotices(rec.rest) /\ rec.tailstats = 0
                     ELSE dropped \/ once \/ rec.part = 1
           v == (IF rec.done = rec.want /\ run.k = rec.want THEN {} ELSE {"complete"})
                \cup (IF rec.hang = 0 THEN {} ELSE {"hang"})
                \cup (IF rec.died = 0 THEN {} ELSE {"crash"})
                \cup (IF rec.exit = 0 \/ rec.hang = 1 THEN {} ELSE {"exit"})
                \cup (IF rec.san = "" THEN {} ELSE {"sanitizer"})
                \cup (IF rec.hang = 1 \/ rec.died = 1 \/ tailOK THEN {} ELSE {"tail"})
       IN /\ Report(v)
          /\ IF v # {} \/ rec.rj = 1 \/ dropped THEN TRUE ELSE ReportDrift("tail-processed", rec.rrefc)
          /\ cnt' = BumpIf(BumpIf(BumpIf(BumpIf(Bump("eofs"), "cut", rec.cut = 1), "tailalt", rec.hasalt = 1),
                                  "tailjunk", rec.rj = 1), "tailpart", rec.part = 1)
    /\ run' = NoRun

-----------------------------------------------------------------------------
(* Byte-level cases.  One case = a few barriered steps on a (shared) daemon:  *)
(*   [announce client 5]  ->  the SUBJECT bytes (pre \o s \o LF)  ->           *)
(*   probe A: "5 H Others", "-1 X a1.svc <tag> :OK"  (client 5, if any)  ->    *)
(*   probe B: a complete well-formed client 7  ->  cleanup.                    *)
(* Record fields (byte strings are arrays of integers):                        *)
(*   ctx, live (1: client 5 announced), subj (the subject bytes incl. LF),     *)
(*   pred (1: spec predictions apply: enumerated subject, request table known) *)
(*   done (1: all steps completed), os (output lines of the subject step),     *)
(*   a1 (output lines of "5 H"), tag, pac / rac (probe A output / reference,   *)
(*   canonical), pbc / rbc (probe B output / reference, tags' serials masked)  *)
(* Contract:                                                                   *)
(*   complete  the case's steps all finished (no crash, no hang)               *)
(*   probe     the well-formed client after the subject is treated as on a     *)
(*             fresh daemon                                                    *)
(*   junk      if every line of the subject is junk for the contract's         *)
(*             tokenizer (unknown id, unknown command, no command), client 5   *)
(*             is treated as if the subject had not been sent                  *)
(* Drift: the subject step's oper notices and the fields client 5's query      *)
(* shows differ from what Class / the handlers' field rules predict from       *)
(* BTokenize of the subject's lines.                                           *)

\* text constants as byte strings
B_X_A1    == <<88, 32, 97, 49, 46, 115, 118, 99, 32>>                      \* "X a1.svc "
B_CHECK   == <<32, 58, 67, 72, 69, 67, 75, 32>>                            \* " :CHECK "
B_IP5     == <<49, 46, 50, 46, 51, 46, 52>>                                \* "1.2.3.4"
B_D5      == <<100, 32, 53, 32, 49, 46, 50, 46, 51, 46, 52, 32, 49, 48, 48, 48>>    \* "d 5 1.2.3.4 1000"
B_GARB    == <<62, 32, 58, 105, 114, 99, 100, 32, 115, 101, 110, 116, 32, 103, 97, 114, 98, 97, 103, 101, 58, 32>>  \* "> :ircd sent garbage: "
B_M1      == <<45, 49, 32>>                                                \* "-1 "
B_DOTS    == <<32, 46, 46, 46>>                                            \* " ..."
B_UNOREAL == <<60, 105, 100, 62, 32, 85, 32, 119, 105, 116, 104, 111, 117, 116, 32, 114, 101, 97, 108, 110, 97, 109, 101>>  \* "<id> U without realname"

CutB(t, n) == IF Len(t) <= n THEN t ELSE SubSeq(t, 1, n)     \* strncpy(dst, t, n) into a zeroed field of n + 1

\* the lines the dispatcher gets from the subject bytes (implementation-shaped reading; equal to the contract's
\* for everything MCReadLine covers)
CaseLines(subj) == BDrain(subj, <<>>, {}).dl

NoFields == [host |-> <<>>, ident |-> <<>>, nick |-> <<>>, user |-> <<>>, real |-> <<>>]

\* parse_hostname / parse_ident / parse_nick / parse_user_info on the fields the query shows
Apply(f, ln) ==
    LET c == Cmd(ln.argv)
        argc == Len(ln.argv)
    IN IF c = 78 /\ argc >= 2 THEN (IF f.host = <<>> THEN [f EXCEPT !.host = CutB(ln.argv[2], 63)] ELSE f)
       ELSE IF c = 117 /\ argc >= 2 THEN [f EXCEPT !.ident = CutB(ln.argv[2], 10)]
       ELSE IF c = 110 /\ argc >= 2 THEN [f EXCEPT !.nick = CutB(ln.argv[2], 30)]
       ELSE IF c = 85 /\ argc >= 3 THEN [f EXCEPT !.user = CutB(ln.argv[2], 10), !.real = CutB(ln.argv[3], 50)]
       ELSE f

RECURSIVE Fields(_, _, _, _)
Fields(lines, k, live, f) ==
    IF k > Len(lines) THEN f
    ELSE Fields(lines, k + 1, live,
                IF lines[k].id = 5 /\ Class(5, lines[k].argv, live) = "handler" THEN Apply(f, lines[k]) ELSE f)

\* iauth_xquery_check(): the user name shown in a query
UserShown(f) == IF f.ident # <<>> THEN f.ident
                ELSE IF f.user = <<>> THEN <<>>
                ELSE IF f.user[1] = 126 THEN f.user
                ELSE CutB(<<126>> \o f.user, 10)

CheckLine(f, tag) == B_X_A1 \o tag \o B_CHECK \o f.nick \o <<32>> \o UserShown(f) \o <<32>> \o B_IP5 \o <<32>>
                     \o (IF f.host # <<>> THEN f.host ELSE B_IP5) \o <<32, 58>> \o f.real

\* oper notices of the subject step
NoticeOf(ln, live) ==
    LET cl == Class(ln.id, ln.argv, live) IN
    IF cl = "notice" THEN << B_GARB \o B_M1 \o <<Cmd(ln.argv)>> \o B_DOTS >>
    ELSE IF cl = "noticeU" THEN << B_GARB \o B_UNOREAL >>
    ELSE <<>>
RECURSIVE Notices(_, _, _)
Notices(lines, k, live) == IF k > Len(lines) THEN <<>> ELSE NoticeOf(lines[k], live) \o Notices(lines, k + 1, live)

\* the contract's reading of "junk": by the declarative tokenizer, a line that has no command, an id that is
\* neither -1 nor a known client (and does not announce one), or a command letter the protocol does not have
AllJunk(subj, live) ==
    LET d == ADeliver(subj) IN \A k \in 1..Len(d) : JunkClass(Class(d[k].id, d[k].argv, live))

TCase ==
    /\ TraceLog[l].e = "Case"
    /\ LET rec == TraceLog[l]
           live == IF rec.live = 1 THEN {5} ELSE {}
           junk == rec.done = 1 /\ rec.big = 0 /\ AllJunk(rec.subj, live)
           v == (IF rec.done = 1 THEN {} ELSE {"complete"})
                \cup (IF rec.refok = 1 THEN {} ELSE {"refrun"})
                \cup (IF rec.exit = 0 THEN {} ELSE {"exit"})
                \cup (IF rec.san = "" THEN {} ELSE {"sanitizer"})
                \cup (IF rec.done = 0 \/ rec.pbc = rec.rbc THEN {} ELSE {"probe"})
                \cup (IF junk /\ rec.pac # rec.rac THEN {"junk"} ELSE {})
           lines == CaseLines(rec.subj)
           wantOs == Notices(lines, 1, live)
           wantA1 == IF rec.live = 1 THEN << CheckLine(Fields(lines, 1, live, NoFields), rec.tag), B_D5 >> ELSE <<>>
           d == rec.pred = 1 /\ rec.done = 1 /\ (rec.os # wantOs \/ rec.a1 # wantA1)
       IN /\ Report(v)
          /\ IF ~d \/ v # {} THEN TRUE ELSE ReportDrift("case", [os |-> wantOs, a1 |-> wantA1])
          /\ cnt' = BumpIf(BumpIf(BumpIf(Bump("cases"), "junkcases", junk), "predcases", rec.pred = 1 /\ rec.done = 1),
                           "prednotices", rec.pred = 1 /\ rec.done = 1 /\ wantOs # <<>>)
    /\ UNCHANGED run

\* end of input after a batch of cases on one daemon process
TEnd ==
    /\ TraceLog[l].e = "End"
    /\ Report((IF TraceLog[l].exit = 0 THEN {} ELSE {"exit"}) \cup (IF TraceLog[l].san = "" THEN {} ELSE {"sanitizer"}))
    /\ UNCHANGED run
    /\ cnt' = Bump("ends")

TNext == /\ l <= Len(TraceLog)
         /\ (TRef \/ TRun \/ TPrompt \/ TStep \/ TEof \/ TCase \/ TEnd)
         /\ l' = l + 1
         /\ IF l = Len(TraceLog) THEN PrintT("@@N" \o ToJson(cnt')) ELSE TRUE
=============================================================================
