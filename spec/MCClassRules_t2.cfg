\* thorough: every listing of <= 2 rules named from {a, B2, b}; each rule has at most two of the five criteria (one pattern
\* each), class present or absent, trust_username on or off; clients: 2 values per attribute, 2 reply states per service
CONSTANTS
  CBug <- Bug_none
  Names <- N_3
  AcctP <- Acct_1
  AddrP <- Addr_1
  UserP <- User_1
  HostP <- Host_1
  OkP <- Ok_1
  ClassP <- Class_1
  TrustP <- BoolSet
  MaxRules = 2
  MaxCrit = 2
  Svcs <- S_ld
  CAcct <- CAcct_2
  CAddr <- CAddr_2
  CIdent <- CIdent_2
  CHost <- CHost_2
  CUser <- CUser_1
  LoginSt <- Login_2
  DroneSt <- Drone_2
  EmitMod = 0
INIT Init
NEXT Next
ACTION_CONSTRAINT Emit
INVARIANT VecOrder
INVARIANT OrderIndep
INVARIANT VecIsConf
INVARIANT Unique
INVARIANT ImplClass
INVARIANT ImplUline
INVARIANT ImplExact
