SPECIFICATION TraceSpec
CONSTANTS Keys = {1}
INVARIANTS NoDrift
POSTCONDITION AllConsumed
