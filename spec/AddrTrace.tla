----------------------------- MODULE AddrTrace -----------------------------
(***************************************************************************)
(* Validation of traces of the real irc_ntop / irc_pton / irc_check_mask    *)
(* (harness/h_addr.c) against Addr.tla.  One trace file = one chunk of one  *)
(* domain; the domain, its parameters and the chunk number are constants,    *)
(* the trace file comes from the environment, the chunk bounds are computed here, and every case is        *)
(* re-computed from its index, so a harness that skips, repeats or alters    *)
(* cases is noticed (conjuncts named Bind_... and Seq_...).                    *)
(*                                                                         *)
(* TLC walks the file line by line (variable l).  For every line it          *)
(* evaluates all conjuncts that apply and prints the names of those that     *)
(* fail ("@@V" lines); it never stops early, so one run reports every        *)
(* failing line.  Name prefixes:                                             *)
(*   C12_ / C13_  contract conjuncts (a failure is a VIOLATION candidate)    *)
(*   Drift_       the real result differs from the transcribed algorithm     *)
(*   Bind_ / Seq_ the trace is not the expected enumeration (machinery)      *)
(*   Sane_        Denote disagrees with inet_pton (the oracle itself is off) *)
(* The final "@@S" line carries the totals; a run without it did not finish. *)
(***************************************************************************)
EXTENDS Addr, TLC, Json, IOUtils

TraceLog == ndJsonDeserialize(IOEnv.TRACE)
N        == Len(TraceLog)

(* Run parameters (constants of a per-run configuration file written by the check; reading them *)
(* from IOEnv on every use is slow).                                                             *)
CONSTANTS DOM,       \* "pat" "v4" "edge" "rnd" | "mask" "maskr" | "form" | "str" "mut"
          NC,        \* digit classes (pat, v4)
          CHUNK, NCHUNK,
          COUNT,     \* number of cases for the un-indexed domains (rnd, maskr, mut)
          FULL,      \* mask: TRUE = all 16-bit differences
          MAXLEN,    \* str: maximal length
          ALPHA      \* str: name of the alphabet

Alphabet == IF ALPHA = "A10" THEN << 48, 49, 57, 97, 102, 58, 46, 47, 42, 32 >>     \* 0 1 9 a f : . / * space
            ELSE IF ALPHA = "A6" THEN << 49, 97, 58, 46, 47, 42 >>                   \* 1 a : . / *
            ELSE IF ALPHA = "A3" THEN << 49, 58, 46 >>                               \* 1 : .
            ELSE << 49, 58 >>                                                        \* 1 :

FormOffsets == [k \in 1..(Len(Families) + 1) |->
                  LET RECURSIVE Sum(_)
                      Sum(j) == IF j = 0 THEN 0 ELSE Sum(j - 1) + FamSize(Families[j])
                  IN  Sum(k - 1)]
FormTotal == FormOffsets[Len(Families) + 1]
FormIdx(G) == LET k == CHOOSE j \in 1..Len(Families) : FormOffsets[j] <= G /\ G < FormOffsets[j + 1]
              IN  << Families[k], G - FormOffsets[k] >>

Indexed == DOM \in {"pat", "v4", "edge", "mask", "form", "str"}
Total == IF DOM = "pat" THEN PatCount(NC)
         ELSE IF DOM = "v4" THEN V4Count(NC)
         ELSE IF DOM = "edge" THEN EdgeCount
         ELSE IF DOM = "mask" THEN MaskCaseCount(FULL)
         ELSE IF DOM = "form" THEN FormTotal
         ELSE IF DOM = "str" THEN StrCount(Len(Alphabet), MAXLEN)
         ELSE COUNT
(* chunk CHUNK of NCHUNK equal parts of the domain; NCHUNK = 0: the explicit range CHUNK..COUNT (replays) *)
Lo == IF ~Indexed THEN 0 ELSE IF NCHUNK = 0 THEN CHUNK ELSE (CHUNK * Total) \div NCHUNK
Hi == IF ~Indexed THEN COUNT - 1 ELSE IF NCHUNK = 0 THEN COUNT ELSE (((CHUNK + 1) * Total) \div NCHUNK) - 1

VARIABLES l,       \* next line
          nx,      \* str: first index not yet covered by a blk line
          ns,      \* str: str lines since the last blk line
          lastg,   \* str: index of the last str line
          nbad     \* lines with a failing conjunct so far
vars == << l, nx, ns, lastg, nbad >>

-----------------------------------------------------------------------------
(* conjuncts on an "addr" line (C12) *)
AddrC(rec, pos) ==
    LET t == rec.t
        a == rec.a
    IN  [ Bind_addr   |-> /\ rec.d = DOM
                          /\ IsAddr(a)
                          /\ DOM # "rnd" => /\ rec.i = Lo + pos - 1
                                            /\ a = (IF DOM = "pat" THEN PatAddr(NC, rec.i)
                                                    ELSE IF DOM = "v4" THEN V4Addr(NC, rec.i) ELSE EdgeAddr(rec.i)),
          C12_denotes |-> Denote(t) = Canon(a),
          C12_own     |-> rec.pr = Len(t) /\ rec.pa = Canon(a),
          C12_std     |-> rec.sf # 0 /\ rec.sa = Canon(a),
          C12_nocolon |-> Len(t) > 0 /\ t[1] # Colon,
          C12_fits    |-> rec.n = Len(t) /\ Len(t) <= IRC_NTOP_MAX - 1,
          C12_idem    |-> rec.pr = Len(t) => rec.t2 = t,
          Drift_ntop  |-> t = NtopAlgo(a) ]

(* conjuncts on any line that carries a parsed string (str, mut, form) *)
(* r[k]: k = 1 + 2 * with_bits + trailing *)
StrC(rec) ==
    LET s   == rec.s
        len == Len(s)
        B1  == PtonAlgo(s, FALSE, FALSE)
        B2  == PtonAlgo(s, FALSE, TRUE)
        B3  == PtonAlgo(s, TRUE, FALSE)
        B4  == PtonAlgo(s, TRUE, TRUE)
        ds  == Denote(s)
    IN  [ C13_bounded |-> \A k \in 1..4 : rec.r[k] \in 0..len,
          C13_agree   |-> rec.pl = 1 /\ rec.sf # 0 => Canon(rec.a0) = Canon(rec.sa),
          (* with trailing text allowed the parser stops where the address ends: when what it consumed is itself a   *)
          (* plain address string of the standard syntax (e.g. the "x" of "x/24" with bits = NULL, of "x/a", of "x y") *)
          (* the address delivered is the one the standard parser gives for that text                                *)
          C13_agree_trail |-> /\ (rec.r[2] \in 1..len /\ Denote(SubSeq(s, 1, rec.r[2])) # Bad)
                                    => Canon(rec.a1) = Canon(Denote(SubSeq(s, 1, rec.r[2])))
                              /\ (rec.r[4] \in 1..len /\ Denote(SubSeq(s, 1, rec.r[4])) # Bad)
                                    => Canon(rec.a3) = Canon(Denote(SubSeq(s, 1, rec.r[4]))),
          C12_idem_s  |-> rec.pl = 1 => /\ Denote(rec.t) = Canon(rec.a0)
                                        /\ rec.qr = Len(rec.t)
                                        /\ rec.qa = Canon(rec.a0)
                                        /\ rec.t2 = rec.t
                                        /\ Len(rec.t) > 0 /\ rec.t[1] # Colon
                                        /\ rec.n = Len(rec.t) /\ Len(rec.t) <= IRC_NTOP_MAX - 1,
          Sane_std    |-> IF rec.sf # 0 THEN ds = rec.sa ELSE ds = Bad,
          Drift_pton  |-> /\ ~B1.ub => rec.r[1] = B1.ret /\ (B1.ret > 0 => rec.a0 = B1.addr)
                          /\ ~B2.ub => rec.r[2] = B2.ret
                          /\ ~B3.ub => rec.r[3] = B3.ret /\ (B3.ret > 0 => rec.a2 = B3.addr /\ rec.b2 = B3.bits)
                          /\ ~B4.ub => rec.r[4] = B4.ret /\ (B4.ret > 0 => rec.b3 = B4.bits) ]

FormC(rec, pos) ==
    LET fi  == FormIdx(Lo + pos - 1)
        f   == FormAt(fi[1], fi[2])
        d   == Doc(f)
        s   == rec.s
        len == Len(s)
    IN  [ Bind_form       |-> rec.fam = fi[1] /\ rec.g = fi[2] /\ s = Render(f),
          C13_form_len    |-> d.ok => rec.r[3] = len /\ rec.r[4] = len,
          C13_form_bits   |-> d.ok /\ rec.r[3] = len => rec.b2 = d.bits /\ rec.b3 = d.bits,
          C13_form_net    |-> d.ok /\ rec.r[3] = len /\ rec.b2 = d.bits => PrefixEq(rec.a2, d.net, d.bits),
          (* C13 allows "every other string" to be rejected OR parsed harmlessly, so the documented     *)
          (* rejections are not contract conjuncts: a text of a reject family that is accepted is DRIFT. *)
          Drift_form_reject |-> /\ ~d.ok => rec.r[3] = 0
                                /\ f.k \in {"c6", "c4"} => rec.r[1] = 0,
          C13_form_plain  |-> f.k \in {"p6", "p4"} => rec.r[1] = len /\ rec.r[2] = len /\ rec.a0 = d.net,
          C13_form_nobits |-> f.k \in {"c6", "c4"} => rec.r[2] = len - 1 - Len(NatText(f.n)) ]

MaskC(rec, pos) ==
    LET a == rec.a
        m == rec.m
    IN  [ Bind_mask  |-> /\ IsAddr(a) /\ IsAddr(m) /\ Len(rec.r) = 129
                         /\ DOM = "mask" => /\ rec.i = Lo + pos - 1
                                            /\ rec.g = MaskCaseGroup(FULL, rec.i)
                                            /\ rec.d = MaskCaseDiff(FULL, rec.i)
                                            /\ m = [a EXCEPT ![rec.g + 1] = a[rec.g + 1] ^^ rec.d],
          (* "succeeds exactly when the leading n bits are equal": PrefixEq(a, m, n) <=> n <= FirstDiff(a, m)   *)
          (* (checked by TLC in MCAddrMask!DefsAgree and re-checked here at the two lengths around the first   *)
          (* differing bit and at 128); the comparison with the 129 results uses the right-hand side.          *)
          C13_prefix |-> LET fd == FirstDiff(a, m) IN \A n \in 0..128 : (rec.r[n + 1] # 0) = (n <= fd),
          Sane_prefix |-> LET fd == FirstDiff(a, m)
                          IN  /\ PrefixEq(a, m, fd)
                              /\ fd < 128 => ~PrefixEq(a, m, fd + 1)
                              /\ PrefixEq(a, m, 128) = (a = m),
          Drift_mask |-> \A n \in 0..128 : rec.r[n + 1] = CheckMaskAlgo(a, m, n) ]

StrBind(rec) ==
    [ Bind_str |-> /\ rec.s = StrAt(Alphabet, rec.g)
                   /\ rec.g >= nx /\ rec.g <= Hi /\ rec.g > lastg ]

BlkC(rec) ==
    [ Seq_blk |-> /\ rec.j0 = nx /\ rec.j1 >= rec.j0 /\ rec.j1 <= Hi
                  /\ rec.ns = ns
                  /\ rec.rej = (rec.j1 - rec.j0 + 1) - ns /\ rec.rej >= 0
                  /\ lastg <= rec.j1 ]

EndC(rec, pos) ==
    [ Seq_end |-> /\ pos = N
                  /\ IF DOM = "str" THEN nx = Hi + 1 /\ ns = 0 /\ rec.n = Hi - Lo + 1
                     ELSE pos - 1 = Hi - Lo + 1 /\ rec.n = pos - 1 ]

FailedOf(R) == {nm \in DOMAIN R : ~R[nm]}

ExpectedEvent == IF DOM \in {"pat", "v4", "edge", "rnd"} THEN {"addr"}
                 ELSE IF DOM = "mask" THEN {"mask"} ELSE IF DOM = "maskr" THEN {"maskr"}
                 ELSE IF DOM = "form" THEN {"form"} ELSE IF DOM = "mut" THEN {"mut"}
                 ELSE {"str", "blk"}

Failed(pos) ==
    LET rec == TraceLog[pos]
        e   == rec.e
    IN  IF e = "end" THEN FailedOf(EndC(rec, pos))
        ELSE IF e \notin ExpectedEvent THEN {"Seq_event"}
        ELSE IF e = "addr" THEN FailedOf(AddrC(rec, pos))
        ELSE IF e \in {"mask", "maskr"} THEN FailedOf(MaskC(rec, pos))
        ELSE IF e = "form" THEN FailedOf(StrC(rec)) \cup FailedOf(FormC(rec, pos))
        ELSE IF e = "mut" THEN FailedOf(StrC(rec))
        ELSE IF e = "str" THEN FailedOf(StrC(rec)) \cup FailedOf(StrBind(rec))
        ELSE FailedOf(BlkC(rec))

-----------------------------------------------------------------------------
Init == l = 1 /\ nx = Lo /\ ns = 0 /\ lastg = -1 /\ nbad = 0

Report(pos, f) == PrintT("@@V" \o ToJson([l |-> pos, f |-> f]))

Step ==
    /\ l <= N
    /\ LET rec == TraceLog[l]
           f   == Failed(l)
       IN  /\ IF f = {} \/ nbad >= 200 THEN TRUE ELSE Report(l, f)
           /\ nbad' = IF f = {} THEN nbad ELSE nbad + 1
           /\ IF rec.e = "str" THEN ns' = ns + 1 /\ lastg' = rec.g /\ nx' = nx
              ELSE IF rec.e = "blk" THEN ns' = 0 /\ nx' = rec.j1 + 1 /\ lastg' = lastg
              ELSE UNCHANGED << ns, nx, lastg >>
    /\ l' = l + 1

Finish ==
    /\ l = N + 1
    /\ PrintT("@@S" \o ToJson([lines |-> N, bad |-> nbad, lo |-> Lo, hi |-> Hi,
                               complete |-> N > 0 /\ TraceLog[N].e = "end"]))
    /\ l' = l + 1
    /\ UNCHANGED << nx, ns, lastg, nbad >>

Next == Step \/ Finish
Spec == Init /\ [][Next]_vars
=============================================================================
