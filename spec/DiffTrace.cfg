INIT DInit
NEXT DNext
