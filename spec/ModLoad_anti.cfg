\* C20: exploration, outside the contract: module_antidepends(); TLC reports a counterexample to AntiUnloadedAfter
SPECIFICATION Spec
CONSTANTS
    Source = "enum"
    MaxN = 3
    SelfLoops = FALSE
    DepOrders = "asc"
    WithMissing = FALSE
    WithAnti = TRUE
    Profiles = "full"
    Bug = "none"
INVARIANTS
    TypeOK LoadingIsInnermostCtor RdependsMirrorsDepends SetEmptyAtExit NoGhostInGoodCase
    B_CtorOnce B_DepsConstructedFirst B_PostInitOnce B_PostInitAfterDeps B_DtorBeforeDeps
    B_StartsComplete B_StopsClean B_AbortsWithError B_NeverRunsPartial
INVARIANT AntiUnloadedAfter
