CONSTANTS
  CBug <- TraceBug
INIT TInit
NEXT TNext
