\* C20: model mutant, found by TLC itself among all cases and hook profiles on <= 3 modules: module_load() returns early, without `loading_module = prior`, for a module without module_constructor; TLC must report B_StartsComplete (shortest: m1 -> m2, listed m1, m2 lacking the constructor)
SPECIFICATION Spec
CONSTANTS
    Source = "enum"
    MaxN = 3
    SelfLoops = FALSE
    DepOrders = "asc"
    WithMissing = FALSE
    WithAnti = FALSE
    Profiles = "all"
    Bug = "NoCtorNoRestore"
\* (the implementation invariants LoadingIsInnermostCtor and NoGhostInGoodCase also fail under this switch, earlier; they are left out so that TLC shows the contract conjunct)
INVARIANTS
    TypeOK RdependsMirrorsDepends SetEmptyAtExit
    B_CtorOnce B_DepsConstructedFirst B_PostInitOnce B_PostInitAfterDeps B_DtorBeforeDeps
    B_StartsComplete B_StopsClean B_AbortsWithError B_NeverRunsPartial
