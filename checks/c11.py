"""C11 Class rules: the first matching rule in name order decides."""
import json

from vlib import classrun as CR
from vlib.core import MachineryError

LEVEL = "model_checking"
TITLE = ("class rules: first matching rule in case-insensitive name order decides the class field of D/R; "
         "trust_username upgrades a ~ident by a U line")
OWN = {"P11_class", "P11_uline"}

# (cfg of the exhaustive model, print 1 case in N) per tier
PLAN = {
    "quick": {"exhaustive": [("MCClassRules_q3.cfg", 20), ("MCClassRules_q1.cfg", 8)], "gen_tables": 1500, "gen_clients": 4,
              "gen_parts": 4, "nproc": 12},
    "thorough": {"exhaustive": [("MCClassRules_q3.cfg", 3), ("MCClassRules_q1.cfg", 1), ("MCClassRules_t3.cfg", 60),
                                ("MCClassRules_t2.cfg", 60), ("MCClassRules_t1.cfg", 60)],
                 "gen_tables": 6000, "gen_clients": 5, "gen_parts": 12, "nproc": 14},
}


def _stats(jobs, results):
    """Counts over what was replayed: kinds of cases by TLC's own `want` / `nm` annotations, verdict kinds as recorded."""
    st = {"cases": 0, "verdict_D": 0, "verdict_R": 0, "no_class": 0, "class_from_value": 0, "class_from_name": 0,
          "u_lines": 0, "two_or_more_rules_match": 0, "first_listed_is_not_first_in_order": 0, "not_accepted": 0,
          "daemons": 0, "steps": 0, "crashed_daemons": 0, "bad_exit": 0, "skipped": 0}
    for res in results:
        st["daemons"] += res["daemons"]
        st["steps"] += res["steps"]
        st["crashed_daemons"] += res["crashed"]
        st["bad_exit"] += res["bad_exit"]
        st["skipped"] += res["skipped"]
        with open(res["trace"]) as f:
            for line, (ji, ci) in zip(f, res["index"]):
                rec = json.loads(line)
                o = rec["obs"]
                job = jobs[ji]
                st["cases"] += 1
                if o["v"] == "D":
                    st["verdict_D"] += 1
                elif o["v"] == "R":
                    st["verdict_R"] += 1
                else:
                    st["not_accepted"] += 1
                    continue
                w = job["want"][ci] if job.get("want") else None      # the model's predicted verdict (statistics only)
                cls = CR.txt(w["cls"]) if w else CR.txt(o["cls"])
                if not cls:
                    st["no_class"] += 1
                elif any(cls == CR.txt(r["name"]) for r in job["rules"]):
                    st["class_from_name"] += 1
                else:
                    st["class_from_value"] += 1
                if (w["u"] if w else o["u"]):
                    st["u_lines"] += 1
                nm = job["nm"][ci] if job.get("nm") else None
                if nm is not None and nm >= 2:
                    st["two_or_more_rules_match"] += 1
                names = [CR.txt(r["name"]).lower() for r in job["rules"]]
                if names and names != sorted(names):
                    st["first_listed_is_not_first_in_order"] += 1
    return st


def run(ctx):
    plan = PLAN[ctx.tier]
    ctx.cov["rule"] = ("case = (service set, iauth_class section in file order, client attribute tuple); cases are printed by TLC "
                       "(one per AcceptCli transition of the exhaustive models, sampled 1/N, plus every case of the seeded "
                       "sample over the rich pools); each is run on the real daemon (configuration file + history that "
                       "establishes the attributes) and the D/R class field and U lines are judged by TLC (ClassTrace) against "
                       "the declarative first match; distinct_nontrivial = distinct (table, client) pairs with at least one rule "
                       "in which a rule matched (class assigned)")
    ctx.assumptions += [
        "globs are fnmatch patterns made of '*', '?' and literal characters (no '[', no backslash); glob-only-'*' against a missing "
        "attribute is not generated; rule names differ under strcasecmp; class values and names are shorter than CLASSLEN",
        "mask texts are the documented forms (CIDR a.b.c.d/n and a.b/n, x:y::/n, wildcard a.b.*, x:y:*, '*', plain address)",
        "the request timeout fires only where the '<id> ! timeout' hook is sent (timeout 1h configured)",
        "service names in xreply_ok are spelled exactly as configured",
    ]
    # 1. model checking: Glob lemma, exhaustive tables x clients
    r = ctx.tlc("MCClassGlob", "MCClassGlob.cfg", workers=4, timeout=300)
    if not r.ok:
        raise MachineryError("MCClassGlob: %s\n%s" % (r.violated, r.violation_text[:2000]))
    ctx.model_checked(r)
    cases = []
    for cfg, mod in plan["exhaustive"]:
        r, cs = CR.exhaustive(ctx, cfg, mod)
        if not r.ok:
            raise MachineryError("model MCClassRules/%s violates %s on the unchanged specification:\n%s"
                                 % (cfg, r.violated, r.violation_text[:3000]))
        ctx.model_checked(r)
        ctx.note("%s: %d distinct states, %d transitions, %d cases printed (%.0fs)" % (cfg, r.distinct, r.generated, len(cs), r.wall_s))
        cases.extend(cs)
    ctx.cov["exhaustive"] = True
    n_exh = len(cases)
    # 2. seeded sample over the rich pools (every sampled case is model-checked by GenOk as well)
    rs, cs = CR.sample(ctx, plan["gen_tables"], plan["gen_clients"], parts=plan["gen_parts"])
    ctx.note("MCClassGen: %d tables x %d clients sampled and checked (%.0fs)" % (len(cs), plan["gen_clients"], max(x.wall_s for x in rs)))
    cases.extend(cs)
    # 3. replay on the real daemon, validate with TLC
    jobs = CR.group_by_table(cases)
    res = CR.replay(ctx, jobs, nproc=plan["nproc"])
    findings = CR.validate_all(ctx, res, nthreads=plan["nproc"])
    nd = CR.report(ctx, findings, jobs)
    st = _stats(jobs, res)
    st["from_exhaustive_models"] = n_exh
    st["from_sample"] = sum(len(c["clis"]) for c in cs)
    st["drift_lines"] = nd
    ctx.cov["observed"] = st
    ctx.cov["evaluations"] = st["steps"]
    ctx.cov["traces_validated_against_impl"] = st["cases"]
    distinct = set()
    for res_ in res:
        with open(res_["trace"]) as f:
            for line in f:
                rec = json.loads(line)
                if rec["rules"] and rec["obs"]["cls"]:
                    distinct.add(json.dumps([rec["svcs"], rec["rules"], rec["cli"]], sort_keys=True))
    ctx.cov["distinct_nontrivial"] = len(distinct)
    for j in jobs[:2] + jobs[-2:]:
        ctx.sample(CR.case_short(j, 0))
    ub = sorted({u for x in res for u in x["ub"]})
    if ub:
        ctx.note("UBSan (recorded, not an alarm): " + "; ".join(ub[:5]))
    for x in res:
        for s in x["san"][:1]:
            ctx.note("daemon exit status %s / sanitizer: %s" % (s["rc"], s["san"][:300]))
    if st["not_accepted"]:
        ctx.note("%d replayed clients were not accepted (no D/R line): outside C11, see C03/C08" % st["not_accepted"])
    ctx.note("replayed %d cases on %d daemons (%d input lines); %d D, %d R; class from value %d, from name %d, none %d; U lines %d; "
             ">=2 matching rules %d" % (st["cases"], st["daemons"], st["steps"], st["verdict_D"], st["verdict_R"],
                                      st["class_from_value"], st["class_from_name"], st["no_class"], st["u_lines"],
                                      st["two_or_more_rules_match"]))

    # anti-vacuity: the run must have exercised every part of the property (counts follow the model's predicted
    # verdicts, so that a defective daemon cannot make the run look vacuous)
    if ctx.violations:
        return
    for k in ("verdict_D", "verdict_R", "no_class", "class_from_value", "class_from_name", "u_lines", "two_or_more_rules_match",
              "first_listed_is_not_first_in_order"):
        if not st[k]:
            raise MachineryError("vacuous run: no case with %s among %d replayed cases" % (k, st["cases"]))
    if st["not_accepted"] * 10 > st["cases"]:
        raise MachineryError("more than 10%% of the replayed clients were not accepted (%d of %d): the run does not "
                             "evaluate C11" % (st["not_accepted"], st["cases"]))

def replay(ctx, body):
    rp = body["replay"]
    job = rp["job"]
    f, recs, res = CR.run_single(ctx, job)
    CR.report(ctx, f, [job])
    ctx.cov["evaluations"] = res["steps"]
    ctx.cov["traces_validated_against_impl"] = len(recs)
    ctx.cov["distinct_nontrivial"] = len(recs)
    ctx.cov["rule"] = "replay of one recorded (table, clients) job"
    ctx.cov["samples"] = [CR.case_short(job, rp.get("ci", 0))]
