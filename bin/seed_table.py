#!/usr/bin/env python3
"""Prints the status of every seeded defect under seeded/ (from the meta.json files written by seed_eval / seed_recheck)."""
import glob
import json
import os

VERIF = os.path.dirname(os.path.dirname(os.path.abspath(__file__)))
rows = []
for f in sorted(glob.glob(os.path.join(VERIF, "seeded", "*", "meta.json"))):
    m = json.load(open(f))
    oc = m.get("our_checks", {})
    caught = sorted(k for k, v in oc.items() if v.get("status") == "caught")
    other = sorted("%s:%s" % (k, v.get("status")) for k, v in oc.items() if v.get("status") != "caught")
    first_miss = sorted(k for k, v in oc.items() if v.get("earlier_status") and v.get("earlier_status") != "caught" and v.get("status") == "caught")
    rows.append((os.path.basename(os.path.dirname(f)), m.get("property"), m.get("confirmed"), caught, other, first_miss))
n = len(rows)
c = sum(1 for r in rows if r[3])
print("%d seeded defects, %d caught by at least one check, %d not reported" % (n, c, n - c))
for r in rows:
    print("%-14s %-4s confirmed=%s caught_by=%s%s%s" % (r[0], r[1], r[2], ",".join(r[3]) or "-",
          ("  not: " + ",".join(r[4])) if r[4] else "", ("  (missed at first by " + ",".join(r[5]) + ")") if r[5] else ""))
