# add(pid, category, technique, level text, level note, design ref) -- one entry per built check

add("C19", "model_checking",
    "TLA+ contract (SetMap) + implementation-shaped splay model (Splay) checked exhaustively by TLC; real src/set.c explored breadth-first by a harness and every recorded call validated by TLC against the contract (trace validation); real vs model transition relation compared for drift",
    "TLC explores Splay.tla completely over 7 keys (2 676 tree shapes, 101 688 transitions; thorough: 8 keys, 11 149 / 479 407), checking search-tree order, list = in-order walk, count, and refinement to the sorted-map contract on every transition. The real set.c is driven through every call from every reachable shape over the same keys for each stock comparator (int incl. INT_MIN/INT_MAX/+-2e9, case-variant char*, void*, node address), and TLC evaluates result, size, first/next/prev order, cleanup-exactly-once and the structural audit on every recorded call; plus model-generated behaviours and long seeded random histories over 64-200 keys.",
    "Exhaustive for <=7 (thorough <=8) keys; larger universes sampled. Node-address comparator explored exhaustively with no_dispose removals only (disposal covered by random histories). Memory safety observed through ASan/UBSan only. Quick tier uses 6 keys for the two pointer comparators.",
    "DESIGN.md 6 (C19), 5.3")

add("C20", "model_checking",
    "explicit TLA+ specification of the loader (ModLoad.tla) model-checked with TLC against the ordering contract (ModLoadContract.tla), bound to src/module.c by running every case on the real daemon with stub modules and validating each event log with TLC (ModLoadTrace.tla)",
    "Every dependency graph with every listing on <=3 modules (self-dependencies, every module_depends call order, optionally one missing module) and on <=4 modules (all 4 096 graphs, calls in name order) is model-checked exhaustively (B => A; 7.4e6 states thorough / 1.7e5 quick). Every <=3-module case, all acyclic 4-module cases and seeded random graphs on 4-6 modules are run on the real daemon, each log judged by TLC and compared with the model's prediction.",
    "Exhaustive for the stated bounds on the model. On the real code, the <=3-module cases, the drawn cases and the acyclic 4-module cases always run; the cyclic 4-module cases run within a time budget (count in the evidence). Modules are stubs. module_antidepends and module_is_backend are outside the property. Six modules at most.",
    "DESIGN.md 6 (C20), 5.3")
