"""Pipeline shared by the daemon-level checks (C01-C10, C17):
   TLC (MCIAuth) -> behaviours -> replay on the real daemon -> ndjson traces -> TLC (IAuthTrace)."""
import json
import multiprocessing
from . import core as _core
import os
import re
import shutil
import time
from concurrent.futures import ThreadPoolExecutor

from . import daemon as D
from . import tlc as T
from .core import MachineryError

SERVICE_TABLES = {
    "S_q1": [{"name": "a1.svc", "type": "login"}, {"name": "b2.svc", "type": "dronecheck"}],
    "S_t1a": [{"name": "a1.svc", "type": "login"}, {"name": "b2.svc", "type": "combined"},
              {"name": "c3.svc", "type": "dronecheck"}],
    "S_t1b": [{"name": "a1.svc", "type": "login-ipr"}, {"name": "b2.svc", "type": "dronecheck"}],
    "S_t1c": [{"name": "a1.svc", "type": "login"}, {"name": "b2.svc", "type": "login"}],
    "S_t1d": [{"name": "a1.svc", "type": "combined"}],
    "S_none": [],
    "S_unk": [{"name": "a1.svc", "type": "login"}, {"name": "m5.svc", "type": "gopher"}, {"name": "z9.svc", "type": "dronecheck"}],
    "S_drone": [{"name": "b2.svc", "type": "dronecheck"}],
    "S_ipr2": [{"name": "a1.svc", "type": "login-ipr"}, {"name": "b2.svc", "type": "login"}],
    "S_pref": [{"name": "a1.svc", "type": "dronecheck"}, {"name": "a1.svc2", "type": "login"}],
    # iauth_xquery not loaded at all (core alone / core + iauth_class): marker entry understood by IAuth.tla (XQ) and the driver
    "S_noxq": [{"name": "", "type": "@noxquery"}],
}

INVARIANTS = ["P01_once", "P02_gate", "P03_prompt", "P04_stray", "P05_content", "P06_queries", "P07_scope",
              "P09_wire", "P10_count", "P17_config", "HoldsSane", "SerialsUnique", "SerialBound", "RefsCover",
              "TimerSane", "NoReadyLeft", "Agree"]


def mc_cfg_text(table, ids="Ids1", max_inst=1, max_pw=2, stray=0, junk=False, emit_mod=0, bug="NoBug",
                timeout_on=True, invariants=None, rich=False, pw_on=True, simulate=False, rich_sel="NoRich",
                script="NoScript", sim_depth=38):
    inv = list(INVARIANTS if invariants is None else invariants)
    if simulate:
        inv.append("SimEmit")
    return ("CONSTANTS\n  Services <- %s\n  TimeoutOn = %s\n  Bug <- %s\n  Ids <- %s\n  MaxInst = %d\n  MaxPw = %d\n"
            "  StrayLevel = %d\n  JunkOn = %s\n  Rich = %s\n  PwOn = %s\n  RichSel <- %s\n  Script <- %s\n  EmitMod = %d\n  SimDepth = %d\nINIT MCInit\nNEXT MCNext\nVIEW MCView\n"
            "%s%s\n") % (
        table, "TRUE" if timeout_on else "FALSE", bug, ids, max_inst, max_pw, stray,
        "TRUE" if junk else "FALSE", "TRUE" if rich else "FALSE", "TRUE" if pw_on else "FALSE", rich_sel, script, emit_mod, sim_depth,
        "" if simulate else "ACTION_CONSTRAINT Emit\n", "\n".join("INVARIANT " + i for i in inv))


def model_check(ctx, name, table, workers=16, timeout=1500, want_behaviours=False, simulate=None, depth=40, **kw):
    """TLC run of MCIAuth (exhaustive, or simulate="num=N"); returns (TLCResult, behaviours or None)."""
    cfg = os.path.join(ctx.scratch, "mc_%s.cfg" % name)
    with open(cfg, "w") as f:
        f.write(mc_cfg_text(table, simulate=bool(simulate), sim_depth=max(2, depth - 2), **kw))
    outp = os.path.join(ctx.scratch, "mc_%s.out" % name) if want_behaviours else None
    r = ctx.tlc("MCIAuth", cfg, workers=workers, timeout=timeout, stdout_path=outp, heap="12g", seed=ctx.seed,
                simulate=simulate, depth=depth if simulate else None)
    if not r.ok:
        raise MachineryError("model MCIAuth/%s violates %s on the unchanged specification:\n%s"
                             % (name, r.violated, r.violation_text[:3000]))
    beh = None
    if want_behaviours:
        beh = []
        with open(outp, errors="replace") as f:
            for line in f:
                if line.startswith('"@@E'):
                    beh.append(json.loads(json.loads(line)[3:]))
        os.unlink(outp)
        if simulate and beh:
            # in simulation mode TLC evaluates the emitting invariant on every candidate successor of a trace's last state:
            # the printed behaviours come in families that share all but the last step; keep at most three per family
            fam = {}
            for b in beh:
                fam.setdefault(json.dumps([x["e"] for x in b[:-1]], sort_keys=True), []).append(b)
            rng = ctx.rng
            beh = [b for k in sorted(fam) for b in rng.sample(fam[k], min(3, len(fam[k])))]
    return r, beh


# ---- event shorthand (signatures, samples) -----------------------------------------------------------
def ev_short(e, svcs=None):
    k = e["e"]
    if k == "P":
        return "P(%s)" % ("".join(e["modes"]) if e["shape"] == "ok" else e["shape"])
    if k == "X":
        return "X(%s,%s,%s)" % (e["svc"], e["kind"], e["tag"])
    if k == "J":
        return "J(%s)" % (e.get("form") or e["shape"])
    if "id" in e and k != "C":
        return "%s" % k
    return k


def hist_short(events):
    ids = sorted({e["id"] for e in events if "id" in e})
    if len(ids) > 1:
        return " ".join(("%d:" % e["id"] if "id" in e else "") + ev_short(e) for e in events)
    return " ".join(ev_short(e) for e in events)


def normalise_tags(events):
    return events


# ---- replay -----------------------------------------------------------------------------------------
def _cleanup_events(beh_events):
    ids = []
    for e in beh_events:
        if e["e"] == "C" and e["id"] not in ids:
            ids.append(e["id"])
    return [{"e": "D", "id": i} for i in ids]


def probe_tail(events, svcs, interleave=False):
    """Distinguishing tail appended to a model behaviour: the model's states abstract from how they were
    reached, so after the behaviour's last transition every client it announced is driven towards a verdict
    (hurry-up, an OK from every service with the client's latest tag, timeout).  If the implementation's hidden
    state differs from the model state (a request that was not retired, a hold that was not released, a stale
    mask bit) the tail makes it observable; the contract and B judge the tail like any other events."""
    serial = 0
    last = {}
    for e in events:
        if e["e"] == "C":
            serial += 1
            last[e["id"]] = serial
    tails = []
    for i, ser in last.items():
        tail = []
        tails.append(tail)
        tag = "%x_%x" % (i, ser)
        # every client gets its own texts, so that data leaking from one client into another's lines is visible
        # three styles, chosen by the length of the behaviour: a password first (re-queries every login-type service),
        # no password at all (what is outstanding stays exactly as the behaviour left it), replies before the hurry-up
        style = len(events) % 3
        pw = {"e": "P", "id": i, "shape": "ok", "modes": ["+", "x"], "cred": ["pt%x" % i, 10], "raw": ["P+xpt%x" % i, 0]}
        oks = [{"e": "X", "svc": s["name"], "tag": tag, "kind": "OKA", "acct": ["ac%x" % i, 8], "text": ["t1", 9], "trail": ""}
               for s in svcs]
        if style == 0:
            tail += [pw, {"e": "H", "id": i}] + oks
        elif style == 1:
            tail += [{"e": "H", "id": i}] + oks
        else:
            tail += oks + [{"e": "H", "id": i}] + [dict(x) for x in oks]
        tail.append({"e": "TO", "id": i})
        tail.append({"e": "n", "id": i, "nick": ["n%x" % i, 5]})
    if interleave:
        # round robin over the clients (C07: the tails of different clients overlap)
        out = []
        for k in range(max([len(t) for t in tails] or [0])):
            out.extend(t[k] for t in tails if k < len(t))
        return out
    return [e for t in tails for e in t]


_TAGRE = re.compile(r"^([0-9a-f]+)_([0-9a-f]+)$")


def splice(events, insertions):
    """events with extra events inserted (insertions: {index in events: [events]}); the routing tags of `events` (which
    name the s-th C line of `events`) are re-spelled for the positions the C lines have in the result."""
    combined = []
    for k, e in enumerate(events):
        combined += [dict(x) for x in insertions.get(k, [])]
        combined.append(dict(e, _old=True))
    combined += [dict(x) for x in insertions.get(len(events), [])]
    remap, nold, nnew = {}, 0, 0
    for e in combined:
        if e["e"] == "C":
            nnew += 1
            if e.get("_old"):
                nold += 1
                remap[nold] = nnew
    out = []
    for e in combined:
        old = e.pop("_old", False)
        if old and e["e"] == "X":
            m = _TAGRE.match(e["tag"])
            if m and int(m.group(2), 16) in remap:
                e["tag"] = "%s_%x" % (m.group(1), remap[int(m.group(2), 16)])
        out.append(e)
    return out


def crowd_between(ctx, behaviours, svcs):
    """Transform for plans with re-announcements: between the first and the second announcement of an id, 14 / 15 / 30 other
    clients come and go, so that the serial of the second instance has one hex digit more than the first one's (`5_1` and
    `5_10`: one tag is a prefix of the other) when the history runs on a fresh daemon.  Behaviours without a re-announcement
    are dropped (the plan is an addition to one that replays them)."""
    out = []
    for b in behaviours:
        seen, pos = set(), None
        for k, e in enumerate(b):
            if e["e"] == "C":
                if e["id"] in seen:
                    pos = k
                    break
                seen.add(e["id"])
        if pos is None:
            continue
        n = (14, 15, 30)[len(out) % 3]
        crowd = []
        for j in range(n):
            crowd += [{"e": "C", "id": 300 + j, "addr": "A%x" % (300 + j), "port": 3000 + j}, {"e": "D", "id": 300 + j}]
        out.append(splice(b, {pos: crowd}))
    return out


def wrap_between(ctx, behaviours, svcs):
    """Like crowd_between, but the crowd is a burst of 65 535 (or 65 536 +/- 1) other clients: on a fresh daemon the second
    instance's serial equals the first one's modulo 2^16 (a serial kept in 16 bits would repeat the tag)."""
    out = []
    cands = []
    for b in behaviours:
        seen, pos = set(), None
        for k, e in enumerate(b):
            if e["e"] == "C":
                if e["id"] in seen:
                    pos = k
                    break
                seen.add(e["id"])
        if pos is None or pos < 2:
            continue
        # behaviours in which a reply carrying the tag of the earlier instance arrives after the re-announcement come first
        ncb = sum(1 for e in b[:pos] if e["e"] == "C")
        late = any(e["e"] == "X" and _TAGRE.match(e["tag"]) and int(_TAGRE.match(e["tag"]).group(2), 16) <= ncb for e in b[pos:])
        cands.append((0 if late else 1, len(cands), b, pos))
    for (_, _, b, pos) in sorted(cands, key=lambda c: c[:2]):
        n = (65535, 65535, 65534, 65536)[len(out) % 4]
        out.append(splice_burst(b, pos, n))
    return out


def splice_burst(events, pos, n):
    """events with a burst event of n announcements inserted before events[pos]; tags of later instances shifted by n."""
    ncb = sum(1 for e in events[:pos] if e["e"] == "C")
    out = []
    for k, e in enumerate(events):
        if k == pos:
            out.append({"e": "B", "n": n, "id0": 5000})
        if e["e"] == "X":
            m = _TAGRE.match(e["tag"])
            if m and int(m.group(2), 16) > ncb:
                e = dict(e, tag="%s_%x" % (m.group(1), int(m.group(2), 16) + n))
        out.append(e)
    return out


def wrap_also(limit=8):
    return [(lambda bs: wrap_between(None, bs, None)[:limit], {"behaviours_per_process": 1})]


def crowd_also(limit=250):
    """`also=` entry: re-announcement behaviours replayed once more, each on a fresh daemon, with a crowd between the instances."""
    return [(lambda bs: crowd_between(None, bs, None)[:limit], {"behaviours_per_process": 1})]


def _replay_worker(args):
    (root, moddir, daemonpath, workdir, svcs, timeout_on, behaviours, trace_path, opts) = args

    class B:      # minimal stand-in for build.Build inside the worker
        pass
    b = B()
    b.root, b.moddir, b.daemon = root, moddir, daemonpath
    os.makedirs(workdir, exist_ok=True)
    per_proc = opts.get("behaviours_per_process", 400)
    index = []           # trace line number (1-based) -> (behaviour index, step index)
    sweeps = {}          # trace line number of a real-timer sweep step -> behaviour indices of its process
    procs = []           # one list of behaviour indices per daemon process, in the order they were replayed
    nsteps = 0
    ncrash = 0
    ub_notes = set()
    line_no = 0
    with open(trace_path, "w") as tf:
        def w(rec, bi, si):
            nonlocal line_no
            tf.write(json.dumps(rec, separators=(",", ":")) + "\n")
            line_no += 1
            index.append((bi, si))
        pos = 0
        while pos < len(behaviours):
            chunk = behaviours[pos:pos + per_proc]
            rt = opts.get("real_timeout")
            d = D.Daemon(b, workdir, svcs, timeout=(("%d" % rt if rt else "1h") if timeout_on else None),
                         modules=opts.get("modules", ("iauth_xquery",)), rules=opts.get("rules"),
                         logs=opts.get("logs"))
            w(D.reset_record(svcs, timeout_on, cls=opts.get("cls")), -1, -1)
            procs.append([])
            serial = 0
            gens = {}
            crashed = d.dead
            if crashed:
                w({"e": "Crash", "ev": {"e": "startup"}, "partial": []}, pos, -1)
                ncrash += 1
            for off, (bi, events) in enumerate(chunk):
                if crashed:
                    break
                tm = D.TagResolver(serial, gens)
                procs[-1].append(bi)
                evs = list(events) + _cleanup_events(events)
                for si, e in enumerate(evs):
                    e2 = tm.event(e)
                    rec = d.step(e2)
                    tm.observe(e2, rec)
                    nsteps += 1
                    w(rec, bi, si)
                    if rec["e"] == "Crash":
                        crashed = True
                        ncrash += 1
                        break
                serial += tm.count
                if crashed:
                    # the rest of this chunk is replayed on a fresh process
                    pos += off + 1
                    break
            else:
                pos += len(chunk)
            if crashed:
                rc, san, ub = d.close(wait=5)
                ub_notes.update(ub)
                continue
            if rt:
                # real-timer sweep: every client of this process has been withdrawn; wait until every request timer that
                # was ever armed would have expired, then take one more (empty) step: it must print nothing
                # (a timer that belongs to a finished or replaced request must never fire)
                time.sleep(rt + 0.8)
                rec = d.step({"e": "J", "shape": "drop", "form": "blank", "id": 0})
                nsteps += 1
                sweeps[line_no + 1] = [bi for (bi, _) in chunk]
                w(rec, -2, -2)
                if rec["e"] == "Crash":
                    ncrash += 1
                    rc, san, ub = d.close(wait=5)
                    ub_notes.update(ub)
                    continue
            rc, san, ub = d.close()
            ub_notes.update(ub)
            w({"e": "Eof", "exit": (rc if rc is not None else -9), "san": san[:600]}, -1, -1)
    with open(trace_path + ".idx", "w") as f:
        json.dump(index, f)
    return {"trace": trace_path, "steps": nsteps, "crashes": ncrash, "ubsan": sorted(ub_notes), "lines": line_no,
            "sweeps": sweeps, "procs": procs}


def replay(ctx, behaviours, svcs, timeout_on=True, nproc=6, tag="r", **opts):
    """behaviours: list of event lists.  Returns list of worker results (one trace file each)."""
    b = ctx.build
    items = list(enumerate(behaviours))
    nproc = max(1, min(nproc, len(items)))
    chunks = [items[i::nproc] for i in range(nproc)]
    jobs = []
    for n, ch in enumerate(chunks):
        wd = os.path.join(ctx.scratch, "%s-w%d" % (tag, n))
        jobs.append((b.root, b.moddir, b.daemon, wd, svcs, timeout_on, ch,
                     os.path.join(ctx.scratch, "%s-trace%d.ndjson" % (tag, n)), opts))
    if nproc == 1:
        return [_replay_worker(jobs[0])]
    return _core.pool_map(_replay_worker, jobs, nproc)


# ---- validation -----------------------------------------------------------------------------------------
def validate_trace(ctx, trace_path, nlines, timeout=1200):
    r = ctx.tlc("IAuthTrace", "IAuthTrace.cfg", workers=1, timeout=timeout, env={"TRACE": trace_path}, heap="3g")
    if not r.ok:
        raise MachineryError("trace validation run failed (%s):\n%s" % (r.violated, r.violation_text[:3000]))
    if r.depth != nlines + 1 and r.distinct != nlines + 1:
        raise MachineryError("trace %s not consumed: %d lines, TLC depth %d, %d states\n%s"
                             % (trace_path, nlines, r.depth, r.distinct, r.output[-2000:]))
    viols, drifts = [], []
    for line in r.printed:
        s = T.unquote_printed(line)
        if s.startswith("@@V"):
            viols.append(json.loads(s[3:]))
        elif s.startswith("@@D"):
            drifts.append(json.loads(s[3:]))
    return viols, drifts


def validate_all(ctx, results, nthreads=6):
    """Validate every worker trace with TLC; returns list of findings:
       {"kind": "V"|"D", "conjuncts": [...], "bi": behaviour index, "si": step index, "trace": path, "l": line}"""
    findings = []

    def one(res):
        v, d = validate_trace(ctx, res["trace"], res["lines"])
        with open(res["trace"] + ".idx") as f:
            idx = json.load(f)
        out = []
        for x in v:
            bi, si = idx[x["l"] - 1]
            out.append({"kind": "V", "conjuncts": sorted(x["v"]), "bi": bi, "si": si, "trace": res["trace"], "l": x["l"]})
        for x in d:
            bi, si = idx[x["l"] - 1]
            out.append({"kind": "D", "want": x.get("want"), "wantn": x.get("wantn"), "bi": bi, "si": si,
                        "trace": res["trace"], "l": x["l"]})
        return out
    with ThreadPoolExecutor(nthreads) as ex:
        for o in ex.map(one, results):
            findings.extend(o)
    return findings


def trace_line(path, l):
    with open(path) as f:
        for n, line in enumerate(f, 1):
            if n == l:
                return json.loads(line)
    return None


def run_single(ctx, events, svcs, timeout_on=True, tag="single", **opts):
    """Replay one history on a fresh daemon and validate it; returns (findings, trace records)."""
    sub = os.path.join(ctx.scratch, "%s-%d" % (tag, int(time.time() * 1e6) % 10**9))
    os.makedirs(sub, exist_ok=True)

    class SubCtx:
        pass
    res = _replay_worker((ctx.build.root, ctx.build.moddir, ctx.build.daemon, sub, svcs, timeout_on,
                          [(0, events)], os.path.join(sub, "t.ndjson"), opts))
    f = validate_all(ctx, [res], nthreads=1)
    recs = [json.loads(x) for x in open(res["trace"])]
    shutil.rmtree(sub, ignore_errors=True)
    return f, recs


def run_sequence(ctx, seq, svcs, timeout_on=True, tag="seq", **opts):
    """Replay several behaviours one after the other on ONE fresh daemon; returns findings (bi = position in seq)."""
    sub = os.path.join(ctx.scratch, "%s-%d" % (tag, int(time.time() * 1e6) % 10**9))
    os.makedirs(sub, exist_ok=True)
    o2 = dict(opts, behaviours_per_process=len(seq) + 1)
    res = _replay_worker((ctx.build.root, ctx.build.moddir, ctx.build.daemon, sub, svcs, timeout_on,
                          list(enumerate(seq)), os.path.join(sub, "t.ndjson"), o2))
    f = validate_all(ctx, [res], nthreads=1)
    shutil.rmtree(sub, ignore_errors=True)
    return f


def report(ctx, findings, behaviours, svcs, own_conjuncts, timeout_on=True, table=None, crash_is_own=False, results=None, **opts):
    """Turn validation findings into DRIFT / VIOLATION reports (violations only for this check's own
    conjuncts, after the failing history was replayed a second time on a fresh daemon)."""
    seen = set()
    other = {}
    for f in findings:
        events = behaviours[f["bi"]] if f["bi"] >= 0 else []
        upto = events[:f["si"] + 1] if f["si"] >= 0 and f["si"] < len(events) else events
        if f["kind"] == "D":
            got = trace_line(f["trace"], f["l"])
            ctx.drift("implementation-shaped spec predicted different output at step %d of [%s]" % (f["si"], hist_short(upto)),
                      {"history": upto, "observed": got.get("o") if got else None, "predicted": f.get("want"),
                       "observed_inuse": got.get("n") if got else None, "predicted_inuse": f.get("wantn")})
            continue
        conj = f["conjuncts"]
        # a daemon that dies or hangs inside a step leaves every per-step obligation of that history unmet: "crash" is every
        # daemon-level check's business; exit status and sanitizer reports at end of input only where the check says so
        mine = [c for c in conj if c in own_conjuncts or c == "crash" or (crash_is_own and c in ("exit", "sanitizer"))]
        if not mine:
            for c in conj:
                other[c] = other.get(c, 0) + 1
            continue
        key = (tuple(mine), hist_short(upto))
        if key in seen:
            continue
        seen.add(key)
        if len(seen) > 6:
            continue
        # second opinion on a fresh process
        again, recs = run_single(ctx, events, svcs, timeout_on, **opts) if events else ([], [])
        still = [g for g in again if g["kind"] == "V" and set(g["conjuncts"]) & set(mine)]
        context = None
        if events and not still and results:
            # the failure may need state left behind by the clients that were replayed before on the same daemon process:
            # second opinion with that context (first only the immediate predecessor, then the whole prefix)
            proc = next((p for r in results for p in r.get("procs", []) if f["bi"] in p), None)
            if proc:
                k = proc.index(f["bi"])
                for start in ([k - 1] if k >= 1 else []) + ([0] if k >= 2 else []):
                    seq = [behaviours[b] for b in proc[start:k + 1]]
                    ag = run_sequence(ctx, seq, svcs, timeout_on, **opts)
                    if any(g["kind"] == "V" and g["bi"] == len(seq) - 1 and set(g["conjuncts"]) & set(mine) for g in ag):
                        context = seq[:-1]
                        break
        if events and not still and context is None:
            ctx.note("violation of %s did not repeat on a fresh daemon: [%s] (not reported)" % (mine, hist_short(upto)))
            continue
        got = trace_line(f["trace"], f["l"])
        sig = "%s: %s" % ("+".join(mine), hist_short(normalise_tags(upto)))
        if context is not None:
            sig += " (after %s on the same daemon)" % ("[%s]" % hist_short(context[0]) if len(context) == 1 else "%d earlier clients" % len(context))
            ctx.violation("contract conjunct(s) %s violated by the real daemon at step %d of history [%s], replayed after %d earlier "
                          "client histories on the same daemon process (it does not fail on a fresh daemon)"
                          % (mine, f["si"], hist_short(upto), len(context)), "+".join(mine), sig,
                          {"kind": "iauth-sequence", "table": table, "svcs": svcs, "timeout_on": timeout_on,
                           "sequence": context + [events], "failing_step": f["si"], "observed": got, "opts": {k: v for k, v in opts.items()}})
            continue
        ctx.violation("contract conjunct(s) %s violated by the real daemon at step %d of history [%s]"
                      % (mine, f["si"], hist_short(upto)), "+".join(mine), sig,
                      {"kind": "iauth-history", "table": table, "svcs": svcs, "timeout_on": timeout_on,
                       "events": events, "failing_step": f["si"], "observed": got, "opts": {k: v for k, v in opts.items()}})
    for c, n in other.items():
        ctx.note("conjunct %s (owned by another check) failed on %d steps of this run" % (c, n))


def resolve_sweeps(ctx, findings, results, behaviours, svcs, own, timeout_on, plan):
    """A violation at a real-timer sweep step (bi = -2) belongs to one of the behaviours of that daemon process: each
    of them is replayed alone on a fresh daemon (with its own sweep); those that reproduce it are reported."""
    rest = [f for f in findings if f["bi"] != -2]
    sw = [f for f in findings if f["bi"] == -2 and f["kind"] == "V" and set(f["conjuncts"]) & set(own)]
    if not sw:
        return rest
    cands = []
    for f in sw:
        for r in results:
            if r["trace"] == f["trace"]:
                cands += r["sweeps"].get(f["l"], r["sweeps"].get(str(f["l"]), []))
    cands = sorted(set(cands))[:80]
    ctx.note("real-timer sweep printed something; replaying %d behaviours of the affected processes one by one" % len(cands))
    opts = dict(plan.opts, behaviours_per_process=1)
    res2 = replay(ctx, [behaviours[bi] for bi in cands], svcs, timeout_on, nproc=12, tag=plan.name + "-sweep", **opts)
    f2 = validate_all(ctx, res2)
    n = 0
    for g in f2:
        if g["kind"] != "V" or g["bi"] != -2 or not (set(g["conjuncts"]) & set(own)):
            continue
        # which behaviour: the only one of that process
        for r in res2:
            if r["trace"] == g["trace"]:
                bis = r["sweeps"].get(g["l"], [])
                if bis and n < 4:
                    ev = behaviours[cands[bis[0]]]
                    got = trace_line(g["trace"], g["l"])
                    n += 1
                    ctx.violation("after every client had been withdrawn and the request timeout (%ss, real timer) had passed, the "
                                  "daemon printed %s; history [%s]" % (plan.opts.get("real_timeout"), got.get("o") if got else "?", hist_short(ev)),
                                  "+".join(sorted(set(g["conjuncts"]) & set(own))), "sweep: " + hist_short(ev),
                                  {"kind": "iauth-history", "table": plan.table, "svcs": svcs, "timeout_on": timeout_on, "events": ev,
                                   "failing_step": len(ev), "observed": got, "opts": dict(plan.opts)})
    return rest


def replay_file(ctx, body, own_conjuncts, crash_is_own=False):
    """Re-run a recorded violation (vcheck --replay)."""
    rp = body["replay"]
    if rp.get("kind") == "iauth-sequence":
        seq = rp["sequence"]
        ag = run_sequence(ctx, seq, rp["svcs"], rp.get("timeout_on", True), **rp.get("opts", {}))
        if any(g["kind"] == "V" and g["bi"] == len(seq) - 1 and set(g["conjuncts"]) & set(own_conjuncts) for g in ag):
            ctx.violation("sequence of client histories on one daemon still violates the contract (replay)", body["conjunct"],
                          body["signature"], rp)
        ctx.cov.update(evaluations=sum(len(x) for x in seq), distinct_nontrivial=len(seq), rule="replay of one recorded sequence",
                       samples=[hist_short(seq[-1])])
        return
    f, recs = run_single(ctx, rp["events"], rp["svcs"], rp.get("timeout_on", True), **rp.get("opts", {}))
    beh = [rp["events"]]
    for g in f:
        if g["kind"] == "V" and g["bi"] == -2 and set(g["conjuncts"]) & set(own_conjuncts):
            ctx.violation("real-timer sweep printed something (replay)", "+".join(sorted(set(g["conjuncts"]) & set(own_conjuncts))),
                          body["signature"], rp)
    f = [g for g in f if g["bi"] != -2]
    report(ctx, f, beh, rp["svcs"], own_conjuncts, rp.get("timeout_on", True), table=rp.get("table"),
           crash_is_own=crash_is_own, **rp.get("opts", {}))
    ctx.cov["evaluations"] = len(recs)
    ctx.cov["distinct_nontrivial"] = 2
    ctx.cov["rule"] = "replay of one recorded history"
    ctx.cov["samples"] = [hist_short(rp["events"])]


# ---- the standard daemon-level check ----------------------------------------------------------------------
class Plan:
    """One model configuration + how much of it is replayed."""

    def __init__(self, name, table, emit_mod=1, simulate=None, depth=40, transform=None, opts=None, timeout=1500,
                 workers=16, tail=True, also=(), **mc):
        self.tail = tail
        self.also = also          # [(every n-th behaviour, replay options)]: extra replays of a subsample, e.g. real timers
        self.name, self.table, self.emit_mod, self.simulate, self.depth = name, table, emit_mod, simulate, depth
        self.transform, self.opts, self.mc, self.timeout, self.workers = transform, opts or {}, mc, timeout, workers


def trace_stats(results):
    """Counts over the recorded traces (anti-vacuity numbers for the evidence)."""
    st = {"accept_D": 0, "accept_R": 0, "kill": 0, "softdone": 0, "queries": 0, "challenges": 0, "modes": 0,
          "replies": 0, "timeouts": 0, "junk": 0, "inuse_reports": 0, "eof_clean": 0}
    for res in results:
        with open(res["trace"]) as f:
            for line in f:
                rec = json.loads(line)
                if rec["e"] == "Eof":
                    st["eof_clean"] += 1 if rec["exit"] == 0 and not rec["san"] else 0
                    continue
                if rec["e"] != "S":
                    continue
                k = rec["ev"]["e"]
                if k == "X":
                    st["replies"] += 1
                elif k == "TO":
                    st["timeouts"] += 1
                elif k == "J":
                    st["junk"] += 1
                if rec["n"] >= 0:
                    st["inuse_reports"] += 1
                for m in rec["o"]:
                    mk = m["k"]
                    if mk == "D":
                        st["accept_D"] += 1
                    elif mk == "R":
                        st["accept_R"] += 1
                    elif mk == "k":
                        st["kill"] += 1
                    elif mk == "d":
                        st["softdone"] += 1
                    elif mk == "X":
                        st["queries"] += 1
                    elif mk == "C":
                        st["challenges"] += 1
                    elif mk == "M":
                        st["modes"] += 1
    return st


# Client ids are whatever the server chooses (ircu: the socket number).  The model's small ids are moved, for some of the
# histories, to other parts of the int range - across 1024, 4096 and 65536, and to the top of the range.
ID_SHIFTS = [1016, 65528, 2147483647 - 40, 4090, 1020]


def map_ids(e, off):
    if not off:
        return e
    e = dict(e)
    if "id" in e and e["id"] >= 0:
        e["id"] += off
    if e.get("e") == "X":
        m = D._TAG.match(e.get("tag", ""))
        if m:
            e["tag"] = "%x_%s" % (int(m.group(1), 16) + off, m.group(2))
    if "oid" in e and isinstance(e["oid"], int) and e["oid"] >= 0:
        e["oid"] += off
    return e


def shift_ids(events, k, every=2):
    """every `every`-th history (by its index k): the same history with its ids moved by one of ID_SHIFTS"""
    if k % every != every - 1:
        return events
    off = ID_SHIFTS[(k // every) % len(ID_SHIFTS)]
    return [map_ids(e, off) for e in events]


def standard(ctx, plans, own, crash_is_own=False, need=()):
    """Model-check each plan, replay its behaviours on the real daemon, validate with TLC, report."""
    total_stats = {}
    distinct = set()
    for plan in plans:
        svcs = SERVICE_TABLES[plan.table]
        t0 = time.time()
        r, beh = model_check(ctx, plan.name, plan.table, want_behaviours=True, emit_mod=plan.emit_mod,
                             simulate=plan.simulate, depth=plan.depth, timeout=plan.timeout, workers=plan.workers,
                             **plan.mc)
        if not plan.simulate:
            ctx.model_checked(r)
        behaviours = [[s["e"] for s in b] for b in beh]
        if not behaviours:
            raise MachineryError("plan %s/%s produced no behaviour (model %d states): mis-configured plan" % (plan.name, plan.table, r.distinct))
        if plan.transform:
            behaviours = plan.transform(ctx, behaviours, svcs)
        if plan.tail:
            behaviours = [b + probe_tail(b, svcs) for b in behaviours]
        # every fourth history runs with ids from another part of the int range
        behaviours = [shift_ids(b, i, every=4) for i, b in enumerate(behaviours)]
        t1 = time.time()
        timeout_on = plan.mc.get("timeout_on", True)
        res = replay(ctx, behaviours, svcs, timeout_on, tag=plan.name, **plan.opts)
        t2 = time.time()
        findings = validate_all(ctx, res)
        t3 = time.time()
        findings = resolve_sweeps(ctx, findings, res, behaviours, svcs, own, timeout_on, plan)
        report(ctx, findings, behaviours, svcs, own, timeout_on, table=plan.table, crash_is_own=crash_is_own, results=res,
               **plan.opts)
        st = trace_stats(res)
        for k, v in st.items():
            total_stats[k] = total_stats.get(k, 0) + v
        steps = sum(x["steps"] for x in res)
        for (nth, opts2) in plan.also:
            opts2 = dict(plan.opts, **opts2)
            sub = nth(behaviours) if callable(nth) else behaviours[::nth]
            if not sub:
                continue
            p2 = Plan(plan.name + "-also", plan.table, opts=opts2, **plan.mc)
            res2 = replay(ctx, sub, svcs, timeout_on, tag=p2.name, **opts2)
            f2 = validate_all(ctx, res2)
            f2 = resolve_sweeps(ctx, f2, res2, sub, svcs, own, timeout_on, p2)
            report(ctx, f2, sub, svcs, own, timeout_on, table=plan.table, crash_is_own=crash_is_own, results=res2, **opts2)
            steps += sum(x["steps"] for x in res2)
            ctx.cov["traces_validated_against_impl"] += len(sub)
            ctx.note("plan %s: %d behaviours replayed again with %s: %d findings" % (plan.name, len(sub), opts2, len(f2)))
            res = res + res2
        ctx.cov["evaluations"] += steps
        ctx.cov["traces_validated_against_impl"] += len(behaviours)
        for b in behaviours:
            if len(b) >= 2:
                distinct.add(hist_short(b))
        for b in behaviours[:2]:
            ctx.sample({"plan": plan.name, "history": hist_short(b)})
        ub = sorted({u for x in res for u in x["ubsan"]})
        if ub:
            ctx.note("UBSan (recorded, not an alarm): " + "; ".join(ub[:5]))
        ctx.note("plan %s/%s: model %d states %d transitions%s (%.0fs); %d behaviours, %d steps replayed (%.0fs), validated by TLC (%.0fs); %d findings"
                 % (plan.name, plan.table, r.distinct, r.generated, " [simulation]" if plan.simulate else "",
                    t1 - t0, len(behaviours), steps, t2 - t1, t3 - t2, len(findings)))
        for x in res:
            for p in (x["trace"], x["trace"] + ".idx"):
                try:
                    os.unlink(p)
                except OSError:
                    pass
    ctx.cov["distinct_nontrivial"] = len(distinct)
    ctx.cov["observed"] = total_stats
    for k in need:
        if not total_stats.get(k):
            raise MachineryError("vacuous run: no %s observed in any replayed history" % k)
    return total_stats
