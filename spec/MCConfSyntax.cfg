SPECIFICATION Spec
INVARIANT TreeOK
INVARIANT BytesOK
INVARIANT Accepted
INVARIANT RoundTrip
INVARIANT SameEntries
INVARIANT TypedOK
INVARIANT Emit
