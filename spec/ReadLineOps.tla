---------------------------- MODULE ReadLineOps ----------------------------
(***************************************************************************)
(* The input layer of iauthd-c: modules/iauth_core.c, iauth_read().        *)
(* Operators only; the state machine over them is ReadLine.tla.            *)
(*                                                                         *)
(* Bytes are integers 0..255, byte strings are sequences of them.          *)
(*                                                                         *)
(* (A) CONTRACT, declarative: the lines delivered to the dispatcher are a  *)
(*     function of the concatenated byte stream only (ADeliver): the       *)
(*     stream is cut at every LF, one CR in front of the LF belongs to the *)
(*     terminator, empty lines are skipped, an unterminated tail is not a  *)
(*     line (it is dropped at end of input), a line ends at its first NUL, *)
(*     it starts with a decimal id (0 if there is none), the rest is split *)
(*     at white space into at most ARGV words, a word starting with ':'    *)
(*     takes the rest of the line.  No buffer, no position, no chunks.     *)
(*                                                                         *)
(* (B) IMPLEMENTATION-SHAPED: the evbuffer that accumulates read() chunks, *)
(*     evbuffer_readln(EVBUFFER_EOL_CRLF), strtol(), the in-place          *)
(*     tokenizer loop with its `sep` pointer and argv[] slots, the         *)
(*     argv[argc] = NULL store, EOF handling.  Operators are named after   *)
(*     the C they transcribe.  The state machine at the end delivers a     *)
(*     byte stream in arbitrary chunks and may end it at any byte.         *)
(*                                                                         *)
(* TLC checks (MCReadLine) that B refines A for every stream over a small  *)
(* alphabet up to a length bound, every segmentation into chunks and every *)
(* point of peer death.  Bug # {} re-introduces typical slips (anti-       *)
(* vacuity of the invariants).                                             *)
(*                                                                         *)
(* Findings about the code that the property text does not determine, and  *)
(* that are modelled as the code does them:                                *)
(*  - there is no line length limit: the evbuffer grows until an LF comes; *)
(*    read() chunks are at most 4096 bytes (MaxChunk in the model);        *)
(*  - an unterminated last line is DROPPED at end of input;                *)
(*  - only ONE CR directly in front of the LF is removed, any other CR is  *)
(*    white space;                                                         *)
(*  - a NUL ends the line for the tokenizer (C string), the bytes between  *)
(*    the NUL and the LF are ignored;                                      *)
(*  - the command is the FIRST CHARACTER of the first word;                *)
(*  - words after the ARGV-th are ignored;                                 *)
(*  - argv[] is a local, uninitialised array that lives for one call of    *)
(*    iauth_read() (= one read() chunk); several handlers read argv[1]     *)
(*    without looking at argc (parse_ident, parse_hostname, parse_nick,    *)
(*    parse_password): they rely on the argv[argc] = NULL store of the     *)
(*    line being dispatched (ArgvTok, OptSlot below).                      *)
(***************************************************************************)
EXTENDS Integers, Sequences, FiniteSets, TLC

CONSTANTS
    ARGV,      \* ARRAY_LENGTH(argv) in iauth_read(): 16 in the code
    Bug        \* set of re-introduced slips; {} is the code

LF == 10
CR == 13
NUL == 0
SP == 32
COLON == 58
PLUS == 43
MINUS == 45

\* isspace() in the C locale
IsSpace(b) == b = 32 \/ (b >= 9 /\ b <= 13)
IsDigit(b) == b >= 48 /\ b <= 57

MinS(S) == CHOOSE x \in S : \A y \in S : x <= y
MaxS(S) == CHOOSE x \in S : \A y \in S : x >= y
MinI(a, b) == IF a < b THEN a ELSE b
Sub(s, a, b) == IF a > b THEN <<>> ELSE SubSeq(s, a, b)
\* the elements of a finite set of integers in increasing order
RECURSIVE Sorted(_)
Sorted(S) == IF S = {} THEN <<>> ELSE LET m == MinS(S) IN <<m>> \o Sorted(S \ {m})

-----------------------------------------------------------------------------
(* (A) the contract: a function of the whole byte string                     *)

LFs(s) == {i \in 1..Len(s) : s[i] = LF}

\* the LF-terminated segments of s, in order, without their LF
ARawLines(s) ==
    LET pos == Sorted(LFs(s))
    IN [k \in 1..Len(pos) |-> Sub(s, (IF k = 1 THEN 0 ELSE pos[k - 1]) + 1, pos[k] - 1)]

\* what follows the last LF: not a line
ATail(s) == IF LFs(s) = {} THEN s ELSE Sub(s, MaxS(LFs(s)) + 1, Len(s))

\* CR LF is a terminator too: one CR in front of the LF is not part of the line
AStripCR(l) == IF l # <<>> /\ l[Len(l)] = CR THEN Sub(l, 1, Len(l) - 1) ELSE l

\* the line as the tokenizer sees it: up to its first NUL
ACStr(l) == LET Z == {i \in 1..Len(l) : l[i] = NUL}
            IN IF Z = {} THEN l ELSE Sub(l, 1, MinS(Z) - 1)

RECURSIVE DecVal(_, _, _)
DecVal(c, a, b) == IF a > b THEN 0 ELSE 10 * DecVal(c, a, b - 1) + (c[b] - 48)

\* the leading number: white space, optional sign, digits; [id, rest = index of the first byte after it,
\* big = more digits than a 32-bit int surely holds (value not modelled)]; nothing is consumed without a digit
ANum(c) ==
    LET n == Len(c)
        a == MinS({i \in 1..(n + 1) : i = n + 1 \/ ~IsSpace(c[i])})         \* first non-space
        sg == IF a <= n /\ c[a] \in {PLUS, MINUS} THEN 1 ELSE 0
        d0 == a + sg
        d1 == MinS({i \in d0..(n + 1) : i = n + 1 \/ ~IsDigit(c[i])})       \* first non-digit
    IN IF d1 = d0 THEN [id |-> 0, rest |-> 1, big |-> FALSE]
       ELSE IF d1 - d0 > 9 THEN [id |-> 0, rest |-> d1, big |-> TRUE]
       ELSE [id |-> (IF sg = 1 /\ c[a] = MINUS THEN -1 ELSE 1) * DecVal(c, d0, d1 - 1), rest |-> d1, big |-> FALSE]

\* the words of r: maximal runs of non-space bytes; the first word that starts with ':' is the trailing
\* argument (the rest of the line without the ':'); at most ARGV arguments
AWords(r) ==
    LET n == Len(r)
        Starts == {i \in 1..n : ~IsSpace(r[i]) /\ (i = 1 \/ IsSpace(r[i - 1]))}
        Colons == {i \in Starts : r[i] = COLON}
        T == IF Colons = {} THEN n + 1 ELSE MinS(Colons)
        W == Sorted({i \in Starts : i < T})                                      \* where the plain words start
        nW == Len(W)
        End(i) == MinS({j \in i..n : j = n \/ IsSpace(r[j + 1])})
        plain == [k \in 1..MinI(nW, ARGV) |-> Sub(r, W[k], End(W[k]))]
    IN IF nW < ARGV /\ T <= n THEN Append(plain, Sub(r, T + 1, n)) ELSE plain

\* one line (already without terminator) -> [id, argv, big]
ATokenize(l) ==
    LET c == ACStr(l)
        nm == ANum(c)
    IN [id |-> nm.id, argv |-> AWords(Sub(c, nm.rest, Len(c))), big |-> nm.big]

\* THE CONTRACT: what reaches the dispatcher, as a function of the byte stream
ADeliver(s) ==
    LET raw == ARawLines(s)
        tok == [k \in 1..Len(raw) |-> ATokenize(AStripCR(raw[k]))]
        keep == SelectSeq([k \in 1..Len(raw) |-> k], LAMBDA k : AStripCR(raw[k]) # <<>> /\ tok[k].argv # <<>>)
    IN [j \in 1..Len(keep) |-> [id |-> tok[keep[j]].id, argv |-> tok[keep[j]].argv]]

-----------------------------------------------------------------------------
(* (B) the implementation                                                     *)

\* evbuffer_search_eol(EVBUFFER_EOL_CRLF): first LF; an immediately preceding CR is drained with it
RECURSIVE BStrChr(_, _, _)
BStrChr(b, i, ch) == IF i > Len(b) THEN 0 ELSE IF b[i] = ch THEN i ELSE BStrChr(b, i + 1, ch)

\* evbuffer_readln(): [ok, line, rest]
BReadLn(b) ==
    LET p == BStrChr(b, 1, LF) IN
    IF p = 0 THEN [ok |-> FALSE, line |-> <<>>, rest |-> b]
    ELSE LET two == p > 1 /\ b[p - 1] = CR /\ "nostripcr" \notin Bug
         IN [ok |-> TRUE, line |-> Sub(b, 1, IF two THEN p - 2 ELSE p - 1), rest |-> Sub(b, p + 1, Len(b))]

\* the C loops run on m = the malloc'ed line followed by its terminating NUL
RECURSIVE BSkipSpace(_, _)
BSkipSpace(m, i) == IF IsSpace(m[i]) THEN BSkipSpace(m, i + 1) ELSE i        \* for (; isspace(*sep); ++sep) {}
RECURSIVE BSkipWord(_, _)
BSkipWord(m, i) == IF m[i] # NUL /\ ~IsSpace(m[i]) THEN BSkipWord(m, i + 1) ELSE i
RECURSIVE BSkipDigits(_, _)
BSkipDigits(m, i) == IF IsDigit(m[i]) THEN BSkipDigits(m, i + 1) ELSE i
RECURSIVE BAccum(_, _, _, _)
BAccum(m, i, e, acc) == IF i >= e THEN acc ELSE BAccum(m, i + 1, e, acc * 10 + (m[i] - 48))
RECURSIVE BStrEnd(_, _)
BStrEnd(m, i) == IF m[i] = NUL THEN i ELSE BStrEnd(m, i + 1)
BCStrAt(m, i) == Sub(m, i, BStrEnd(m, i) - 1)

\* id = strtol(line, &sep, 10)
BStrtol(m) ==
    LET a == BSkipSpace(m, 1)
        neg == m[a] = MINUS
        b == IF m[a] = MINUS \/ m[a] = PLUS THEN a + 1 ELSE a
        e == BSkipDigits(m, b)
    IN IF e = b THEN [id |-> 0, sep |-> 1, big |-> FALSE]
       ELSE IF e - b > 9 THEN [id |-> 0, sep |-> e, big |-> TRUE]
       ELSE [id |-> (IF neg THEN -1 ELSE 1) * BAccum(m, b, e, 0), sep |-> e, big |-> FALSE]

\* for (argc = 0; argc < ARRAY_LENGTH(argv); ) { ... }   argv holds start indices into m; m is modified in place
ArgvLimit == IF "argvle" \in Bug THEN ARGV + 1 ELSE ARGV
RECURSIVE BTokLoop(_, _, _)
BTokLoop(m, sep, argv) ==
    IF Len(argv) >= ArgvLimit THEN [m |-> m, argv |-> argv]
    ELSE LET s == BSkipSpace(m, sep) IN
         IF m[s] = NUL THEN [m |-> m, argv |-> argv]
         ELSE IF m[s] = COLON THEN [m |-> m, argv |-> Append(argv, s + 1)]
         ELSE LET e == BSkipWord(m, s) IN
              IF m[e] = NUL THEN [m |-> m, argv |-> Append(argv, s)]
              ELSE BTokLoop([m EXCEPT ![e] = NUL], e + 1, Append(argv, s))         \* *sep++ = '\0'

\* the argv[] slots the loop and the "argv[argc] = NULL" store touch (0-based); all must be < ARGV
BSlots(argc) == (0..(argc - 1)) \cup (IF argc < ARGV \/ "nullstore" \in Bug THEN {argc} ELSE {})

BTokenize(line) ==
    LET m == Append(line, NUL)
        st == BStrtol(m)
        t == BTokLoop(m, st.sep, <<>>)
    IN [id |-> st.id, big |-> st.big, argc |-> Len(t.argv), slots |-> BSlots(Len(t.argv)),
        argv |-> [k \in 1..Len(t.argv) |-> BCStrAt(t.m, t.argv[k])]]

\* ---- the argv[] array itself (char *argv[16], a local of iauth_read()) -----------------------------------------
\* What a slot holds: "uninit" (never written in this call), "ptr" (into the line being handled), "null",
\* "stale" (into a line that has been free()d).  Handlers that take an optional parameter read argv[1] whatever
\* argc is; the tokenizer's closing store "if (argc < ARRAY_LENGTH(argv)) argv[argc] = NULL" is what makes them
\* see NULL for an absent parameter.
\* Bug "argvstale": the array starts zeroed, the closing store is gone, and the slots a line used are reset
\* only at the bottom of the loop - which the "continue" of the unknown-id path never reaches.
ArgvFresh == [k \in 0..(ARGV - 1) |-> IF "argvstale" \in Bug THEN "null" ELSE "uninit"]
\* after the tokenizer loop and the closing store
ArgvTok(arr, argc) ==
    [k \in 0..(ARGV - 1) |-> IF k < argc THEN "ptr"
                             ELSE IF k = argc /\ "argvstale" \notin Bug THEN "null"
                             ELSE arr[k]]
\* free(line) (cleared: the bottom-of-loop reset of Bug "argvstale" ran)
ArgvFreed(arr, cleared) ==
    [k \in 0..(ARGV - 1) |-> IF arr[k] = "ptr" THEN (IF cleared THEN "null" ELSE "stale") ELSE arr[k]]
\* the first absent parameter as a handler sees it ("none": the line fills the array, no such slot)
OptSlot(arr, argc) == IF argc < ARGV THEN arr[argc] ELSE "none"

\* "if (id == -1 || argv[0][0] == 'C') req = NULL; else if (!(req = set_find(iauth_reqs, &id))) continue;"
\* live = ids with a request.  (Defined before Class, which repeats it as class "noreq".)
Dispatched(id, argv, live) == id = -1 \/ (argv[1] # <<>> /\ argv[1][1] = 67) \/ id \in live

\* while ((line = evbuffer_readln(...)) != NULL) { if (len == 0) continue; ... if (argc == 0) continue;
\*        if (unknown id) continue; dispatch; free(line); }
\* acc: lines with a command (argc > 0), slots: argv[] slots stored to, arr: argv[], opts: what dispatched lines
\* found in the slot of their first absent parameter
RECURSIVE BDrainA(_, _, _, _, _, _)
BDrainA(b, acc, slots, arr, opts, live) ==
    LET r == BReadLn(b) IN
    IF ~r.ok THEN [buf |-> b, dl |-> acc, slots |-> slots, opts |-> opts]
    ELSE IF r.line = <<>> THEN (IF "emptybreak" \in Bug THEN [buf |-> r.rest, dl |-> acc, slots |-> slots, opts |-> opts]
                                ELSE BDrainA(r.rest, acc, slots, arr, opts, live))
    ELSE LET t == BTokenize(r.line)
             a1 == ArgvTok(arr, t.argc)
         IN
         IF t.argc = 0 THEN BDrainA(r.rest, acc, slots \cup t.slots, ArgvFreed(a1, FALSE), opts, live)
         ELSE LET disp == Dispatched(t.id, t.argv, live) IN
              BDrainA(r.rest, Append(acc, [id |-> t.id, argv |-> t.argv]), slots \cup t.slots,
                      ArgvFreed(a1, disp /\ "argvstale" \in Bug),
                      IF disp THEN opts \cup {OptSlot(a1, t.argc)} ELSE opts, live)

\* one call of iauth_read(): a fresh argv[]
BDrainL(b, acc, slots, opts, live) == BDrainA(b, acc, slots, ArgvFresh, opts, live)
\* the lines only (trace specification)
BDrain(b, acc, slots) == BDrainL(b, acc, slots, {}, {})

\* read(2) size of iauth_read(): evbuffer_read(iauth_in, fd, 4096)
ReadSize == 4096

-----------------------------------------------------------------------------
(* The dispatcher's view of a delivered line (shared with the trace          *)
(* specification): which branch of iauth_read()'s switch it takes.  live is  *)
(* the set of client ids with a request.                                     *)
DataCmds == {68, 78, 100, 80, 85, 117, 110, 72, 84}        \* D N d P U u n H T
Cmd(argv) == IF argv[1] = <<>> THEN NUL ELSE argv[1][1]
Class(id, argv, live) ==
    LET c == Cmd(argv)
        argc == Len(argv)
    IN IF id # -1 /\ c # 67 /\ id \notin live THEN "noreq"                       \* set_find() fails: dropped
       ELSE IF c = 67 THEN (IF argc < 5 THEN "short" ELSE "announce")            \* C
       ELSE IF c \in DataCmds /\ id = -1 THEN "notice"                           \* "ircd sent garbage: -1 <c> ..."
       ELSE IF c \in {78, 80, 110} THEN (IF argc < 2 THEN "short" ELSE "handler")   \* N P n
       ELSE IF c = 85 THEN (IF argc < 3 THEN "noticeU" ELSE "handler")           \* U
       ELSE IF c \in {68, 100, 117, 72, 84} THEN "handler"                       \* D d u H T
       ELSE IF c \in {69, 77} THEN (IF argc < 3 THEN "short" ELSE "handler")     \* E M
       ELSE IF c \in {88, 120} THEN (IF argc < 4 THEN "short" ELSE "handler")    \* X x
       ELSE IF c = 63 THEN (IF argc < 2 THEN "short" ELSE "handler")             \* ?
       ELSE IF c = 33 THEN "hook"                                                \* ! (IAUTHD_C_VERIF)
       ELSE "unknown"

\* junk in the sense of the property (unknown id, unknown command): classes that never reach a handler
JunkClass(cl) == cl \in {"noreq", "unknown"}
=============================================================================
