SPECIFICATION Spec
INVARIANTS
  C19_completes C19_keys C19_fresh C19_pre C19_result C19_size C19_order C19_cleanup C19_tree C19_list
  C19_cleanup_once C19_cleanup_not_member C19_cleanup_not_kept
POSTCONDITION AllConsumed
