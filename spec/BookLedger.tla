----------------------------- MODULE BookLedger -----------------------------
(***************************************************************************)
(* Resource ledger of the request table of modules/iauth_core.c (C10).     *)
(*                                                                         *)
(* The ledger is a ghost: it records every allocation and every release    *)
(* the code performs for a request, following the CALLS the code makes     *)
(* (set_insert / set_remove / the disposal callback iauth_req_cleanup /    *)
(* evtimer_new + evtimer_add / event_free / the xquery new_client hook),   *)
(* not the contents of the request table of the implementation-shaped      *)
(* spec.  It is driven by what can be seen of a step from outside: the     *)
(* input line (event) and the verdict lines of the step's output, because  *)
(* these determine the code path:                                          *)
(*    "<id> C ..."         parse_new_client()                              *)
(*    "<id> D" / "<id> T"  parse_disconnect() / parse_registered(req, 1)   *)
(*    timer firing         iauth_timeout()                                 *)
(*    a D / R / k line     iauth_accept() / iauth_kill() -> parse_registered(req, 0) *)
(* The same operator LedStep is used (1) composed with IAuth x IAuthContract *)
(* under TLC (MCBook.tla: the ledger must equal the live requests in every *)
(* reachable state), (2) in the abstract many-client spec BookLong.tla, and *)
(* (3) on traces of the real daemon (BookTrace.tla), where its counters    *)
(* are compared with the daemon's own statistics line after every step.    *)
(*                                                                         *)
(* A node is identified by its serial (iauth_serial == n_req_allocs: both  *)
(* are incremented exactly once per accepted C line).                      *)
(***************************************************************************)
EXTENDS Integers, Sequences, FiniteSets

LedInit ==
    [tab    |-> <<>>,   \* iauth_reqs as the set container sees it: client id -> node (serial)
     nodes  |-> {},     \* request nodes allocated by set_node_alloc() and not yet xfree()d
     data   |-> {},     \* per-module client records (iauth_xquery_client) allocated and not yet freed, by owner node
     timers |-> {},     \* struct event objects from evtimer_new() not yet event_free()d, by owner node
     armed  |-> {},     \* timers pending in the event base (can still fire)
     nalloc |-> 0,      \* stats.n_req_allocs
     nfree  |-> 0,      \* stats.n_req_frees   (parse_disconnect / parse_registered only)
     nrepl  |-> 0,      \* requests disposed by set_insert() replacing an equal key (not counted by the code)
     ndf    |-> 0,      \* stats.n_req_data_frees
     ncli   |-> 0,      \* iauth_xquery's stats.n_cli_allocs
     bad    |-> {}]     \* bookkeeping errors: a release of something not held, a firing of a timer not pending

\* iauth_req_cleanup(req) followed by xfree(node): set_dispose_node()
Dispose(L, s) ==
    [L EXCEPT !.bad    = IF s \in L.nodes THEN @ ELSE @ \cup {"double-free"},
              !.timers = @ \ {s},                                  \* if (req->timeout) event_free(req->timeout)
              !.armed  = @ \ {s},                                  \*    event_free() deletes a pending event first
              !.ndf    = @ + Cardinality(L.data \cap {s}),         \* n_req_data_frees += set_size(&req->data)
              !.data   = @ \ {s},                                  \* set_clear(&req->data, 0)
              !.nodes  = @ \ {s}]

\* set_insert(iauth_reqs, node): an equal key is replaced and the old node disposed
SetInsert(L, id, s) ==
    LET L1 == IF id \in DOMAIN L.tab THEN [Dispose(L, L.tab[id]) EXCEPT !.nrepl = @ + 1] ELSE L
    IN [L1 EXCEPT !.tab = [i \in DOMAIN L.tab \cup {id} |-> IF i = id THEN s ELSE L.tab[i]]]

\* set_remove(iauth_reqs, req, 0)
SetRemove(L, id) ==
    IF id \notin DOMAIN L.tab THEN [L EXCEPT !.bad = @ \cup {"remove-absent"}]
    ELSE [Dispose(L, L.tab[id]) EXCEPT !.tab = [i \in DOMAIN L.tab \ {id} |-> L.tab[i]]]

\* parse_new_client(): allocate, index (replacing), arm the timer, broadcast new_client to the modules
ParseNewClient(L, id, timeoutOn, xquery) ==
    LET s  == L.nalloc + 1
        L1 == [L EXCEPT !.nalloc = s, !.nodes = @ \cup {s}]
        L2 == SetInsert(L1, id, s)
        L3 == IF timeoutOn THEN [L2 EXCEPT !.timers = @ \cup {s}, !.armed = @ \cup {s}] ELSE L2
    IN IF xquery THEN [L3 EXCEPT !.ncli = @ + 1, !.data = @ \cup {s}] ELSE L3

\* parse_disconnect() / parse_registered(): remove from the table, dispose, count
Retire(L, id) == [SetRemove(L, id) EXCEPT !.nfree = @ + 1]

\* libevent runs iauth_timeout() for a pending one-shot timer: the event is no longer pending, the object stays
TimerFire(L, id) ==
    IF id \in DOMAIN L.tab /\ L.tab[id] \in L.armed THEN [L EXCEPT !.armed = @ \ {L.tab[id]}]
    ELSE [L EXCEPT !.bad = @ \cup {"fire-unarmed"}]

RECURSIVE RetireAll(_, _)
RetireAll(L, ids) == IF ids = {} THEN L
                     ELSE LET i == CHOOSE x \in ids : \A y \in ids : x <= y IN RetireAll(Retire(L, i), ids \ {i})

\* ids that received a verdict line in this step's output
Decided(o) == {o[k].id : k \in {j \in 1..Len(o) : o[j].k \in {"D", "R", "k"}}}

\* One daemon step.  e: event record; o: the step's output (parsed messages).
\* A line for an id without a request is dropped by iauth_read() before dispatch; the timeout pseudo-command
\* and libevent only run the handler of a pending timer.
LedStep(L, e, o, timeoutOn, xquery) ==
    LET L1 == CASE e.e = "C" -> ParseNewClient(L, e.id, timeoutOn, xquery)
                [] e.e \in {"D", "T"} -> IF e.id \in DOMAIN L.tab THEN Retire(L, e.id) ELSE L
                [] e.e = "TO" -> IF e.id \in DOMAIN L.tab /\ L.tab[e.id] \in L.armed THEN TimerFire(L, e.id) ELSE L
                [] OTHER -> L
    IN RetireAll(L1, Decided(o))

-----------------------------------------------------------------------------
(* What "balanced" means for a ledger on its own (no reference to any other state) *)
Range(f) == {f[i] : i \in DOMAIN f}

\* no leak and no double free: the nodes held are exactly the nodes indexed by the table, one per client id
LedExact(L)  == /\ L.bad = {}
                /\ L.nodes = Range(L.tab)
                /\ Cardinality(L.nodes) = Cardinality(DOMAIN L.tab)
\* per-module data and timers exist exactly for live requests
LedData(L, xquery)     == L.data = (IF xquery THEN L.nodes ELSE {})
LedTimers(L, timeoutOn) == /\ L.timers = (IF timeoutOn THEN L.nodes ELSE {})
                           /\ L.armed \subseteq L.timers
\* every timer that can still fire belongs to a request that is in the table
LedArmedOwned(L) == L.armed \subseteq Range(L.tab)
\* the counters of the statistics line
LedCounters(L) == /\ Cardinality(DOMAIN L.tab) = L.nalloc - L.nfree - L.nrepl
                  /\ Cardinality(L.data) = L.ncli - L.ndf
InUse(L) == Cardinality(DOMAIN L.tab)       \* set_size(iauth_reqs): the "in use" number
=============================================================================
