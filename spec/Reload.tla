------------------------------- MODULE Reload -------------------------------
(***************************************************************************)
(* Property C17: a reload reaches the decision modules.                    *)
(*                                                                         *)
(* Implementation-shaped model (B) of what SIGUSR1 does to the two         *)
(* decision modules:                                                       *)
(*                                                                         *)
(*   main.c reload_config() -> config.c conf_read() -> conf_replace_value()*)
(*   walks the live tree and the freshly parsed tree in conf_object_cmp    *)
(*   order and, per node, splices / reverts / updates; a node's hook runs  *)
(*   when its own value changes, an object's hook when its membership      *)
(*   changes.  The modules keep a CACHE of their section                   *)
(*       iauth_xquery : the service slot table (IAuth!slots)               *)
(*       iauth_class  : the compiled rule vector                           *)
(*   which is rebuilt ONLY inside a hook call.  After fix 9873c46 the      *)
(*   rebuild also installs the module's hook on every entry of the section *)
(*   (and on every criterion of every rule), so that in-place edits are    *)
(*   heard.  A node spliced over from the file has no hook until the next  *)
(*   rebuild - the dependency "cache fresh <= hook delivered" is explicit  *)
(*   here, and the failure mode "stale cache because no hook was delivered *)
(*   for this kind of edit" is reachable with the RBug switches.           *)
(*                                                                         *)
(* Operators are named after the C functions they transcribe:              *)
(*   RConfigService      iauth_xquery_config_service()                     *)
(*   RServicesChanged    iauth_xquery_services_changed()                   *)
(*   SvcRescan           the hook body + hook installation                 *)
(*   MergeSvc            conf_replace_value(), CONF_OBJECT case, on the    *)
(*                       iauth_xquery section (children are strings)       *)
(* The iauth_class half (ClsRebuild = iauth_class_conf_changed(), MergeCls) *)
(* is in ReloadCls.tla.                                                    *)
(*                                                                         *)
(* RBug (model mutants; {} = the code as it is):                           *)
(*   "D10"       only the section objects are hooked (code before 9873c46) *)
(*   "D11"       config_service() returns right after filling a freed slot *)
(*               (code before f88f720)                                     *)
(*   "KEEPCONF"  services_changed() does not clear `configured` first      *)
(*   "NORETYPE"  the type of an already known service is not updated       *)
(***************************************************************************)
EXTENDS IAuth

CONSTANTS
    NameOrder,    \* the service names that can occur, as a sequence in conf_object_cmp (strcasecmp) order
    RBug

NN == Len(NameOrder)

-----------------------------------------------------------------------------
(* 1. The iauth_xquery section.                                             *)
(* A FILE section is a function  k \in 1..NN -> [in : BOOLEAN, type : word] *)
(* (entry NameOrder[k] present with that type word).  The LIVE section is   *)
(* k -> [present, val, hooked, parsed]: parsed = conf_parse_string_value()  *)
(* has seen the node (parsed.p_string # NULL); a spliced node has not.      *)

AbsentEntry == [present |-> FALSE, val |-> "", hooked |-> FALSE, parsed |-> FALSE]
EmptyTree == [k \in 1..NN |-> AbsentEntry]
NoFileEntry == [in |-> FALSE, type |-> ""]

\* the file section as IAuth.tla / the contract see it: sequence of [name, type] in name order
RECURSIVE FileSeqFrom(_, _)
FileSeqFrom(file, k) ==
    IF k > NN THEN <<>>
    ELSE (IF file[k].in THEN << [name |-> NameOrder[k], type |-> file[k].type] >> ELSE <<>>) \o FileSeqFrom(file, k + 1)
FileSeq(file) == FileSeqFrom(file, 1)

\* inverse (trace validation): the file function of a sequence of [name, type]
FileOf(svcs) == [k \in 1..NN |->
                   LET hit == {n \in 1..Len(svcs) : svcs[n].name = NameOrder[k]}
                   IN IF hit = {} THEN NoFileEntry ELSE [in |-> TRUE, type |-> svcs[CHOOSE n \in hit : TRUE].type]]

\* what the module's scan of the live section sees: present entries whose value is not (transiently) NULL
RECURSIVE ScanFrom(_, _, _)
ScanFrom(tree, nulled, k) ==
    IF k > NN THEN <<>>
    ELSE (IF tree[k].present /\ k # nulled THEN << [name |-> NameOrder[k], type |-> tree[k].val] >> ELSE <<>>)
         \o ScanFrom(tree, nulled, k + 1)

\* iauth_xquery_config_service(name, type, add): add = FALSE only updates a service the table already has; a new
\* service takes the first empty slot, is appended if there is none, and is refused if that slot would be beyond the 32
\* bits of the per-client masks
RConfigService(sl, sv, add) ==
    IF ~add /\ {s \in 1..Len(sl) : sl[s].used /\ sl[s].name = sv.name} = {} THEN sl
    ELSE IF {s \in 1..Len(sl) : sl[s].used /\ sl[s].name = sv.name} = {} /\ {s \in 1..Len(sl) : ~sl[s].used} = {} /\ Len(sl) >= 32
    THEN sl
    ELSE
    LET have == {s \in 1..Len(sl) : sl[s].used /\ sl[s].name = sv.name}
        empty == {s \in 1..Len(sl) : ~sl[s].used}
        s0 == IF have # {} THEN CHOOSE s \in have : \A s2 \in have : s <= s2
              ELSE IF empty # {} THEN CHOOSE s \in empty : \A s2 \in empty : s <= s2 ELSE Len(sl) + 1
        \* xmalloc zeroes the record: type 0 = LOGIN, configured 0, refs 0
        fresh == [NoSlot EXCEPT !.name = sv.name, !.used = TRUE, !.type = "login"]
        base == IF have # {} THEN sl
                ELSE IF s0 <= Len(sl) THEN [sl EXCEPT ![s0] = fresh]
                ELSE Append(sl, fresh)
    IN IF "D11" \in RBug /\ have = {} /\ empty # {} THEN base           \* "return" instead of "break"
       ELSE IF sv.type \in TypeNames
       THEN [base EXCEPT ![s0].type = IF "NORETYPE" \in RBug /\ have # {} THEN @ ELSE sv.type,
                         ![s0].configured = TRUE]
       ELSE [base EXCEPT ![s0].configured = FALSE]

RECURSIVE RConfigAll(_, _, _, _)
RConfigAll(sl, svcs, n, add) == IF n > Len(svcs) THEN sl ELSE RConfigAll(RConfigService(sl, svcs[n], add), svcs, n + 1, add)

\* iauth_xquery_services_changed(): clear; configure the entries the table already has and free what is neither
\* configured nor referenced (so that retired slots are empty); then configure every entry, adding the new ones, and
\* free again (a new entry of an unknown type)
RServicesChanged(sl, svcs) ==
    LET cleared == IF "KEEPCONF" \in RBug THEN sl
                   ELSE [s \in 1..Len(sl) |-> [sl[s] EXCEPT !.configured = FALSE]]
    IN UnrefAll(RConfigAll(UnrefAll(RConfigAll(cleared, svcs, 1, FALSE), 1), svcs, 1, TRUE), 1)

\* a state of the walk: [tree |-> live section, sl |-> slot table]
\* the hook body; `nulled` = the entry whose value is NULL right now (being removed), 0 if none
\* (the tuple is built explicitly: TLC keeps [k \in S |-> e] unevaluated, and the rescans of one walk would nest)
RECURSIVE HookFrom(_, _)
HookFrom(tree, k) == IF k > NN THEN << >>
                     ELSE << IF tree[k].present THEN [tree[k] EXCEPT !.hooked = TRUE] ELSE tree[k] >> \o HookFrom(tree, k + 1)
SvcRescan(st, nulled) ==
    [tree |-> IF "D10" \in RBug THEN st.tree ELSE HookFrom(st.tree, 1),
     sl   |-> RServicesChanged(st.sl, ScanFrom(st.tree, nulled, 1))]

\* conf_replace_value(section, file section): the ordered walk
RECURSIVE MergeSvc(_, _, _, _)
MergeSvc(st, file, k, modified) ==
    IF k > NN THEN (IF modified THEN SvcRescan(st, 0) ELSE st)             \* the section object's own hook
    ELSE LET t == st.tree[k]
             f == file[k]
         IN IF ~t.present /\ ~f.in THEN MergeSvc(st, file, k + 1, modified)
            ELSE IF ~t.present
            THEN \* not currently present: splice it over (no hook on the new node)
                 MergeSvc([st EXCEPT !.tree[k] = [present |-> TRUE, val |-> f.type, hooked |-> FALSE, parsed |-> FALSE]],
                          file, k + 1, TRUE)
            ELSE IF ~f.in
            THEN \* no longer present: value := NULL, the node's hook runs, the node is removed
                 LET st1 == IF t.hooked THEN SvcRescan(st, k) ELSE st
                 IN MergeSvc([st1 EXCEPT !.tree[k] = AbsentEntry], file, k + 1, TRUE)
            ELSE \* present in both: update the value; conf_parse_string_value() runs the hook on a change
                 LET changed == ~t.parsed \/ t.val # f.type
                     st1 == [st EXCEPT !.tree[k].val = f.type, !.tree[k].parsed = TRUE]
                     st2 == IF changed /\ t.hooked THEN SvcRescan(st1, 0) ELSE st1
                 IN MergeSvc(st2, file, k + 1, modified)

ReloadSvc(tree, sl, file) == MergeSvc([tree |-> tree, sl |-> sl], file, 1, FALSE)

\* start-up: the module registers an empty section (empty table), then the file is merged into it
FreshSvc(file) == ReloadSvc(EmptyTree, <<>>, file)

(* State-level reading of the property (refinement mapping to the contract's cfg.svcs): *)
ConfiguredSet(sl) == {<<sl[s].name, sl[s].type>> : s \in {x \in 1..Len(sl) : sl[x].used /\ sl[x].configured}}
FileConfigured(file) == {<<NameOrder[k], file[k].type>> : k \in {x \in 1..NN : file[x].in /\ file[x].type \in TypeNames}}
\* the table up to permutation of slots, unused slots and reference counts
CanonSlots(sl) == {[name |-> sl[s].name, type |-> sl[s].type, configured |-> sl[s].configured] : s \in {x \in 1..Len(sl) : sl[x].used}}
NoDupNames(sl) == \A s, s2 \in 1..Len(sl) : (s # s2 /\ sl[s].used /\ sl[s2].used) => sl[s].name # sl[s2].name
\* a record that is neither configured nor referenced has been freed
NoGarbage(sl) == \A s \in 1..Len(sl) : (sl[s].used /\ ~sl[s].configured) => sl[s].refs > 0
TreeIsFile(tree, file) == \A k \in 1..NN : /\ tree[k].present = file[k].in
                                           /\ tree[k].present => tree[k].val = file[k].type

=============================================================================
