----------------------------- MODULE MCLogRoute -----------------------------
(* Universes for the exhaustive runs of LogRoute, and behaviour emission.   *)
EXTENDS LogRoute, Json, FiniteSetsExt

CONSTANT SampleK       \* print one behaviour per explored reload transition with probability 1/SampleK

A == "file:a.log"
B == "file:b.log"
D == "file:d.log"      \* default target of modd

C(op, sev)     == [op |-> op, sev |-> sev]
H(fac, comps)  == [dot |-> TRUE, fac |-> fac, star |-> FALSE, comps |-> comps]
HStar(fac)     == [dot |-> TRUE, fac |-> fac, star |-> TRUE, comps |-> <<>>]
HNoDot(name)   == [dot |-> FALSE, fac |-> name, star |-> FALSE, comps |-> <<>>]
E(h, kind, ds) == [head |-> h, kind |-> kind, dests |-> ds]

NoDot == <<110,111,100,111,116>>     \* "nodot"

(* sections of at most n entries with pairwise different (name, type) keys *)
SectionsUpTo(Entries, n) ==
    {S \in UNION {kSubset(k, Entries) : k \in 0..n} : \A x, y \in S : x # y => KeyOf(x) # KeyOf(y)}

Values4 == {<<"s", <<A>>>>, <<"s", <<B>>>>, <<"l", <<A, B>>>>, <<"l", <<B>>>>}
Values6 == Values4 \cup {<<"l", <<>>>>, <<"l", <<A, A>>>>}

EntriesOf(Heads, Values) == {E(h, v[1], v[2]) : h \in Heads, v \in Values}

(* quick reload universe: 6 names (4 well-formed over 3 facilities, one with an unknown severity    *)
(* word after a valid one, one without '.'), string and list values over 2 destinations             *)
QHeads == {H(Core, <<C("ge", WARNING)>>), H(Core, <<C("lit", 3)>>), H(Star, <<C("ge", WARNING)>>), HStar(Modx),
           H(Core, <<C("lit", 3), C("lit", 0)>>), HNoDot(NoDot)}
QSections == SectionsUpTo(EntriesOf(QHeads, Values4), 2)

(* thorough reload universe: every facility with three expressions, two malformed names, six values *)
THeads == {H(f, <<C("ge", WARNING)>>) : f \in {Core, Modx, Star}}
          \cup {H(f, <<C("lit", 3)>>) : f \in {Core, Modx, Star}}
          \cup {HStar(f) : f \in {Core, Modx, Star}}
          \cup {H(Core, <<C("lt", 3), C("eq", 5)>>), H(Modx, <<C("lit", 3), C("lit", 0)>>), HNoDot(NoDot)}
TSections == SectionsUpTo(EntriesOf(THeads, Values6), 2)

(* three entries over a smaller pool *)
T3Heads == {H(Core, <<C("ge", WARNING)>>), H(Core, <<C("le", 3)>>), HStar(Star), H(Modx, <<C("gt", 3), C("lit", 0)>>)}
T3Sections == SectionsUpTo(EntriesOf(T3Heads, Values4), 3)

(* default-target universe: modd is registered with default target D *)
DHeads == {H(Modd, <<C("ge", 5)>>), H(Modd, <<C("lit", 3)>>), H(Modd, <<C("lit", WARNING), C("lit", 0)>>),
           H(Star, <<C("ge", WARNING)>>), HStar(Core)}
DValues == {<<"s", <<A>>>>, <<"s", <<D>>>>, <<"l", <<>>>>, <<"l", <<A, D>>>>}
DSections == SectionsUpTo(EntriesOf(DHeads, DValues), 2)

(* severity-expression universe: one entry  modx.<expr> -> a.log  for every expression of up to     *)
(* MaxComps components over all operators and all severity words plus an unknown word               *)
AllComps == {C(op, sv) : op \in Ops, sv \in 0..NSev}
SevHeads(n) == UNION {{H(Modx, cs) : cs \in [1..k -> AllComps]} : k \in 0..n} \cup {HStar(Modx), HNoDot(NoDot)}
Sev2Sections == {{E(h, "s", <<A>>)} : h \in SevHeads(2)}
Sev3Sections == {{E(h, "s", <<A>>)} : h \in SevHeads(3)}

NoDefaults == <<>>
ModdDefault == (Modd :> D)
PreModx == {Modx}
PreModd == {Modd}
NoBug == {}
BugKeepBits == {"keepbits"}
BugNoReset == {"noreset"}
BugNoHook == {"nohook"}

(* one complete behaviour per explored (re)load transition; the history is hidden by the VIEW *)
EmitBehaviour ==
    \/ hist' = hist
    \/ (SampleK > 1 /\ RandomElement(1..SampleK) # 1)
    \/ PrintT("@@E" \o ToJson(hist'))
=============================================================================
