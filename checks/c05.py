"""C05 Verdict content is faithful to what the services said."""
from vlib import iauthrun as R

LEVEL = "model_checking"
TITLE = ("verdict content: kill text = NO text, R/account exactly when a login-type service vouched one, class appended, "
         "+x on request, MORE/AGAIN relayed verbatim to that client only")
OWN = {"P05_content"}

# probe rule table for the class clause (rule semantics themselves are C11): stamped clients (account glob "?*") -> cacct, others -> cdef
CLS = {"modules": ("iauth_xquery", "iauth_class"),
       # r0 never matches (its account pattern is tried and fails - the stamp must survive that), ra = stamped clients,
       # rz = everybody else
       "rules": [{"name": "r0", "account": "zzz-no-such-*", "class": "cnever"},
                 {"name": "ra", "account": "?*", "class": "cacct"}, {"name": "rz", "class": "cdef"}],
       "cls": {"on": True, "acct": "cacct", "none": "cdef"}}
# variant with xreply_ok rules in front: an OK from a1.svc (with or without an account), else one from b2.svc, decides
CLSX = {"modules": ("iauth_xquery", "iauth_class"),
        "rules": [{"name": "r0", "xreply_ok": "a1.svc", "class": "cxa"}, {"name": "r1", "xreply_ok": "b2.svc", "class": "cxb"},
                  {"name": "ra", "account": "?*", "class": "cacct"}, {"name": "rz", "class": "cdef"}],
        "cls": {"on": True, "acct": "cacct", "none": "cdef",
                "xr": [{"svc": "a1.svc", "class": "cxa"}, {"svc": "b2.svc", "class": "cxb"}]}}


def plans(ctx):
    if ctx.tier == "quick":
        return [
            # straight-line scripts over the rich reply pools: every reply kind x account 8/64/65/90 chars, with and
            # without trailing words, NO/AGAIN/MORE texts with spaces and punctuation up to 200 chars
            R.Plan("rep1", "S_q1", script="ScriptReply1", rich_sel="RichReply", emit_mod=3, max_pw=2, opts=CLS),
            R.Plan("rep2", "S_t1a", script="ScriptReply2", rich_sel="RichReply", emit_mod=25, max_pw=2, opts=CLS),
            # free environment: every order of replies from a login and a dronecheck service
            R.Plan("q1", "S_q1", emit_mod=35, max_inst=1, max_pw=2, opts=CLSX),
            # an id used twice with other clients in between (the second instance's tag extends the first one's), late replies
            R.Plan("t1di2", "S_t1d", emit_mod=60, max_inst=2, max_pw=1, stray=1, also=R.crowd_also(200))]
    return [R.Plan("rep1", "S_q1", script="ScriptReply1", rich_sel="RichReply", emit_mod=1, max_pw=2, opts=CLS),
            R.Plan("rep2", "S_t1a", script="ScriptReply2", rich_sel="RichReply", emit_mod=8, max_pw=2, opts=CLS),
            R.Plan("rep3", "S_t1b", script="ScriptReply1", rich_sel="RichReply", emit_mod=1, max_pw=2, opts=CLS),
            R.Plan("rep4", "S_t1c", script="ScriptReply1", rich_sel="RichReply", emit_mod=4, max_pw=2, opts=CLS),
            R.Plan("rep5", "S_t1d", script="ScriptReply1", rich_sel="RichReply", emit_mod=1, max_pw=2),
            R.Plan("q1", "S_q1", emit_mod=4, max_inst=1, max_pw=2, opts=CLS),
            R.Plan("t1a", "S_t1a", emit_mod=8, max_inst=1, max_pw=1, opts=CLSX),
            R.Plan("q1x", "S_q1", emit_mod=8, max_inst=1, max_pw=2, opts=CLSX),
            R.Plan("t1c", "S_t1c", emit_mod=12, max_inst=1, max_pw=2),
            R.Plan("two", "S_t1d", emit_mod=30, ids="Ids2", max_inst=1, max_pw=0, pw_on=False, opts=CLS),
            R.Plan("sim", "S_t1a", simulate="num=60", depth=50, workers=8, rich=True, ids="Ids2", max_inst=6, max_pw=3,
                   stray=1, opts=CLS)]


def run(ctx):
    ctx.cov["rule"] = ("behaviours of B x A: (i) straight-line scripts C,P,H,X.. enumerating the rich reply pools (account "
                       "lengths 8/64/65/90 with and without ':stamp'-like trailing words, texts with spaces/punctuation up to 200 "
                       "chars, every reply kind from every service type); (ii) the free environment (every order of replies, "
                       "passwords, timeout) sampled 1/emit_mod; each replayed on the real daemon with iauth_class loaded and a "
                       "two-rule probe table; TLC evaluates P05_content on every real step: k text = NO text exactly and only after "
                       "an awaited NO, R+account (cut to 64) iff an awaited login-type OK carried one else D, class field per the "
                       "probe table, M +x required iff stamping reply for a client that asked +x, C text = MORE/AGAIN text verbatim "
                       "for that client only, no other client-directed line kinds; distinct = distinct event sequences")
    ctx.assumptions += ["the class clause is checked with a fixed two-rule table (rule semantics are C11's subject)",
                        "texts are printable ASCII without CR/LF/NUL (the line protocol cannot carry those)",
                        "+x for a client that asked only for +! is permitted, not required (DESIGN.md 9)"]
    R.standard(ctx, plans(ctx), OWN, need=("accept_D", "accept_R", "kill", "challenges", "modes"))


def replay(ctx, body):
    R.replay_file(ctx, body, OWN)
