// LINK: src/set.c
/* h_set - conformance harness for the splay-tree set container (property C19).
 *
 * Links the rebuilt src/set.c only; xmalloc() is provided here (xfree is a macro for free()).
 *
 *   h_set bfs    -c <cmp> -n <keys> -o <trace> [-p i/n | -P n] [-t <transitions>] [-u <universe>] [-x <seed>] [-z 1] [-r 0]
 *        own breadth-first exploration of the REAL structure: every call from every reachable
 *        tree shape (dedup by shape).  For the i-th part of the shapes, logs
 *          Reset, the calls of a shortest path to the shape, Mark,
 *          then every call from that shape (each on a fresh set rebuilt along the same path; "b":1),
 *          then (unless -r 0), for every key k in the shape, the RECYCLING sequences (first call "b":1, the others "b":0):
 *            D k 1 ; J k               the node taken out with no_dispose goes back in as a new key
 *            D k 1 ; I k ; J k         ... replaces a fresh element with the equal key
 *            D k 1 ; C 0 ; J k         ... goes into the emptied set (its old neighbours are freed memory)
 *            D k 1 ; C 1 ; I k ; J k   ... replaces the ONLY element (its old neighbours are kept nodes)
 *   h_set script -c <cmp> -n <keys> -o <trace> -s <script> [-u <universe>] [-x <seed>] [-z 1]
 *        R | I k [v] | J k | F k | L k | D k nd | C nd | W | M | B | S <model shape of the previous call>
 *
 * Node objects.  set_insert() must write every link of the node it is given: a caller may hand in a node
 * whose l/r/prev/next hold anything (src/config.c moves nodes between sets with set_remove(.., 1) +
 * set_insert()).  Therefore
 *   - every node allocated here has its four links pointed at four DECOY objects (valid memory that is not a
 *     node of the history: it shows as id -3 in walks and dumps) before it is inserted  (-z 1: leave them zero);
 *   - nodes handed back by set_remove(.., 1) / set_clear(.., 1) are kept, links untouched (the latest one per
 *     rank), and "J k" inserts the kept node of rank k again, as a NEW element (fresh id): the old identity
 *     was handed back and is never cleaned up, the new one is cleaned up exactly once when it is disposed.
 *     Without a kept node of that rank J k is I k.  With set_compare_ptr every insertion re-uses the node.
 *
 * One ndjson line per call:
 *   {"e":"Op","o":..,"k":..,"nd":..,"id":..,"rc":1 if the inserted node object was recycled,"b":..,"res":..,"cl":[ids cleaned during the call],
 *    "size":set_size, "pre":[[k,id]..] first/next walk before, "fwd":[[k,id]..] walk after,
 *    "bwd":[ids] set_prev walk from the last, "root":id, "nodes":[[id,k,l,r,prev,next]..] raw links
 *    of the nodes reachable from the root, "shape":[pre-order keys, 0 = NULL]}
 * Nothing is judged here: TLC (spec/SetTrace.tla) evaluates the contract on these lines.
 * A call that does not return (sanitizer abort, assert, hang) leaves {"e":"Begin",..} as the last line.
 *
 * Keys are ranks 1..n; the rank -> concrete key tables are below (logged once as {"e":"Keys"}; TLC checks that
 * the table is ascending in the order the contract states for the comparator, SetTrace.tla KeysAscending).
 * String keys: -u selects the universe (0: the historic one; 1..3: characters adjacent to the letter ranges,
 * see str7; for more than 7 keys -u 1 draws the keys (seed -x) from all strings of length <= 2 over
 * 0 9 @ [ \ ] ^ _ ` a m z { |).
 */
#include "src/common.h"
#include <limits.h>
#include <signal.h>
#include <stdint.h>
#include <sanitizer/asan_interface.h>

void *xmalloc(unsigned int size)
{
    void *p = calloc(1, size ? size : 1);
    if (!p) { fprintf(stderr, "h_set: out of memory\n"); _exit(2); }
    return p;
}

enum { CMP_INT, CMP_CHARP, CMP_VOIDP, CMP_PTR };
static int cmp_kind = CMP_INT;
static int nkeys = 7;

struct el {
    union { int i; char *s; void *p; } key;   /* what the stock comparator reads (first member) */
    int id;        /* element identity: fresh per insertion */
    int rank;      /* 1..nkeys */
    int variant;   /* spelling variant for charp */
};

/* ---- rank -> concrete key ------------------------------------------------------------------ */
static int int7[7] = { INT_MIN, -2000000000, -1, 0, 1, 2000000000, INT_MAX };
/* case-insensitive classes in ascending order; two spellings per class where letters exist */
#define NUNIV 4
static int universe = 0;
static unsigned pool_seed = 0;
static int poison_on = 1;
static int recycle_on = 1;     /* bfs: with the recycling sequences (-r 0: without) */
static const char *str7[NUNIV][7][2] = {
    /* 0 */
    { { "", "" }, { "_x", "_X" }, { "a", "A" }, { "ab", "aB" }, { "abc", "ABC" }, { "B", "b" }, { "zz~", "Zz~" } },
    /* 1: the empty string and single characters on both sides of both letter ranges:
          "" < '@'(64) < '['(91) < '`'(96) < a/A < z/Z < '{'(123)   after mapping A-Z to a-z */
    { { "", "" }, { "@", "@" }, { "[", "[" }, { "`", "`" }, { "a", "A" }, { "Z", "z" }, { "{", "{" } },
    /* 2: keys that differ in their last character only, all extending the shortest one; case variants */
    { { "n", "N" }, { "N0", "n0" }, { "n@", "N@" }, { "N[", "n[" }, { "n\\", "N\\" }, { "Na", "nA" }, { "n{", "N{" } },
    /* 3: digits and the rest of the characters between 'Z' and 'a', and after 'z', behind a letter */
    { { "9", "9" }, { "A9", "a9" }, { "a]", "A]" }, { "A^", "a^" }, { "a_", "A_" }, { "AZ", "az" }, { "a|", "A|" } } };
static char voidp_arena[256];

static int int_key(int rank)
{
    if (nkeys <= 7) {
        /* for fewer than 7 keys keep both extremes */
        static const int pick[8][7] = { {0}, {0}, {0,6}, {0,3,6}, {0,1,5,6}, {0,1,3,5,6}, {0,1,2,4,5,6}, {0,1,2,3,4,5,6} };
        return int7[pick[nkeys][rank - 1]];
    }
    if (rank == 1) return INT_MIN;
    if (rank == nkeys) return INT_MAX;
    /* spread over the whole int range */
    return (int)(-2147483647LL + (long long)(rank - 1) * (4294967294LL / (nkeys - 1)));
}

static char strbuf[2][300][12];
/* -u 1, more than 7 keys: nkeys of the 211 strings of length <= 2 over the boundary alphabet (ascending in the
   order of the contract), drawn with pool_seed; letters alternate in case, the two spellings the other way round */
#define NALPHA 14
#define NPOOL (1 + NALPHA + NALPHA * NALPHA)
static const char alpha[NALPHA + 1] = "09@[\\]^_`amz{|";
static int pool_pick[300], pool_ready;
static int cmp_intp(const void *a, const void *b) { return *(const int *)a - *(const int *)b; }
static void pool_init(void)
{
    int idx[NPOOL], i;
    unsigned long long st = 0x9E3779B97F4A7C15ULL ^ ((unsigned long long)pool_seed * 0xD1342543DE82EF95ULL + 1);
    for (i = 0; i < NPOOL; i++) idx[i] = i;
    for (i = 0; i < nkeys; i++) {           /* partial Fisher-Yates */
        int j;
        st = st * 6364136223846793005ULL + 1442695040888963407ULL;
        j = i + (int)((st >> 33) % (unsigned)(NPOOL - i));
        { int t = idx[i]; idx[i] = idx[j]; idx[j] = t; }
    }
    qsort(idx, nkeys, sizeof(idx[0]), cmp_intp);
    for (i = 0; i < nkeys; i++) pool_pick[i + 1] = idx[i];
    pool_ready = 1;
}
static const char *pool_key(int rank, int variant)
{
    char *b = strbuf[variant & 1][rank];
    int ix, len = 0, i;
    if (!pool_ready) pool_init();
    ix = pool_pick[rank];
    /* index in prefix-first lexicographic order: 0 = "", then per first character: itself, then its 14 extensions */
    if (ix > 0) {
        int c1 = (ix - 1) / (NALPHA + 1), rest = (ix - 1) % (NALPHA + 1);
        b[len++] = alpha[c1];
        if (rest > 0) b[len++] = alpha[rest - 1];
    }
    for (i = 0; i < len; i++)
        if (b[i] >= 'a' && b[i] <= 'z' && ((i + variant) & 1)) b[i] = (char)(b[i] - 32);
    b[len] = 0;
    return b;
}

static const char *str_key(int rank, int variant)
{
    if (nkeys <= 7 && universe > 0)
        return str7[universe][rank - 1][variant & 1];
    if (nkeys <= 7) {
        static const int pick[8][7] = { {0}, {2}, {2,5}, {0,2,5}, {0,2,3,5}, {0,2,3,4,5}, {0,1,2,3,4,5}, {0,1,2,3,4,5,6} };
        return str7[0][pick[nkeys][rank - 1]][variant & 1];
    }
    if (universe > 0)
        return pool_key(rank, variant);
    /* k%03d with letters: "Kaab" / "kAAB" style, ascending in rank, case variants equal */
    char *b = strbuf[variant & 1][rank];
    int r = rank;
    b[0] = (variant & 1) ? 'K' : 'k';
    b[1] = ((variant & 1) ? 'A' : 'a') + (r / 26 / 26) % 26;
    b[2] = ((variant & 1) ? 'a' : 'A') + (r / 26) % 26;
    b[3] = ((variant & 1) ? 'A' : 'a') + r % 26;
    b[4] = 0;
    return b;
}

static void *voidp_key(int rank)
{
    if (rank == 1) return NULL;
    if (rank == nkeys && nkeys > 1) return (void *)UINTPTR_MAX;
    return voidp_arena + rank;
}

/* ---- allocation registry: pointer -> id for the nodes of this history --------------------- */
#define HBITS 20
#define HSIZE (1u << HBITS)
struct hent { struct set_node *p; int id; unsigned gen; unsigned char seen; };
static struct hent *htab;
static unsigned hgen = 1, hcount;
static struct set_node **hist_nodes; static int hist_n, hist_cap;

static unsigned hslot(const void *p) { return (unsigned)(((uintptr_t)p >> 4) * 2654435761u) >> (32 - HBITS); }
static struct hent *hfind(const void *p, int create)
{
    unsigned i = hslot(p);
    for (;; i = (i + 1) & (HSIZE - 1)) {
        if (htab[i].gen != hgen) {
            if (!create) return NULL;
            if (++hcount > HSIZE / 2) { fprintf(stderr, "h_set: history too long for the pointer table\n"); _exit(2); }
            htab[i].gen = hgen; htab[i].p = (struct set_node *)p; htab[i].seen = 0;
            return &htab[i];
        }
        if (htab[i].p == p) return &htab[i];
    }
}
static void reg_node(struct set_node *n, int id)
{
    struct hent *h = hfind(n, 1);
    h->id = id;
    if (hist_n == hist_cap) { hist_cap = hist_cap ? hist_cap * 2 : 64; hist_nodes = realloc(hist_nodes, hist_cap * sizeof(*hist_nodes)); }
    hist_nodes[hist_n++] = n;
}
/* id of a node pointer: 0 NULL, -2 freed memory, -3 not a node of this history */
static int node_id(struct set_node *n)
{
    struct hent *h;
    if (!n) return 0;
    h = hfind(n, 0);
    if (!h) return -3;
    if (__asan_region_is_poisoned(n, sizeof(*n) + sizeof(struct el))) return -2;
    return ((struct el *)set_node_data(n))->id;
}
static int usable(struct set_node *n) { return node_id(n) > 0; }

/* ---- the set under test -------------------------------------------------------------------- */
static struct set *S;
static int next_id;
static int cleaned[4096], ncleaned;
static struct set_node *ptr_nodes[300];   /* CMP_PTR: node of rank k in this history */
static char ptr_dead[300];
static struct set_node *kept_nodes[300];  /* other comparators: latest node of rank k handed back with no_dispose */

/* four objects that are no nodes of any history: what the links of a newly allocated node point at */
static struct { struct set_node n; struct el e; } decoy[4];
static void poison_links(struct set_node *n)
{
    if (!poison_on) return;
    memset(decoy, 0, sizeof(decoy));
    n->l = &decoy[0].n; n->r = &decoy[1].n; n->prev = &decoy[2].n; n->next = &decoy[3].n;
}

static void cleanup_cb(void *data)
{
    struct el *e = data;
    if (ncleaned < 4096) cleaned[ncleaned++] = e->id;
}

static int cmp_ptr_addr(const void *a, const void *b)
{
    uintptr_t x = (uintptr_t)*(struct set_node * const *)a, y = (uintptr_t)*(struct set_node * const *)b;
    return (x > y) - (x < y);
}

static void teardown(void)
{
    int i;
    if (!S) return;
    for (i = 0; i < hist_n; i++)
        if (!__asan_region_is_poisoned(hist_nodes[i], sizeof(struct set_node) + sizeof(struct el))) {
            /* each address once: clear the registry entry */
            struct hent *h = hfind(hist_nodes[i], 0);
            if (h && h->id != -99) { h->id = -99; free(hist_nodes[i]); }
        }
    hist_n = 0;
    memset(kept_nodes, 0, sizeof(kept_nodes));
    free(S);
    S = NULL;
}

static void fresh(void)
{
    int i;
    teardown();
    hgen++; hcount = 0;
    if (hgen == 0) { memset(htab, 0, HSIZE * sizeof(*htab)); hgen = 1; }
    next_id = 1;
    S = set_alloc(cmp_kind == CMP_INT ? set_compare_int : cmp_kind == CMP_CHARP ? set_compare_charp
                  : cmp_kind == CMP_VOIDP ? set_compare_voidp : set_compare_ptr, cleanup_cb);
    if (cmp_kind == CMP_PTR) {
        for (i = 0; i < nkeys; i++)
            ptr_nodes[i] = set_node_alloc(sizeof(struct el));
        qsort(ptr_nodes, nkeys, sizeof(ptr_nodes[0]), cmp_ptr_addr);
        for (i = 0; i < nkeys; i++) {
            struct el *e = set_node_data(ptr_nodes[i]);
            e->rank = i + 1; e->id = -1;
            reg_node(ptr_nodes[i], -1);
            poison_links(ptr_nodes[i]);
            ptr_dead[i] = 0;
        }
    }
}

/* datum to pass to find / lower / remove for rank k */
static int d_int; static const char *d_str; static void *d_ptr;
static void *datum(int k, int variant)
{
    switch (cmp_kind) {
    case CMP_INT: d_int = int_key(k); return &d_int;
    case CMP_CHARP: d_str = str_key(k, variant); return &d_str;
    case CMP_VOIDP: d_ptr = voidp_key(k); return &d_ptr;
    default: return set_node_data(ptr_nodes[k - 1]);
    }
}

/* ---- observation ---------------------------------------------------------------------------- */
struct walk { int n; int k[1024]; int id[1024]; };
static int walk_bound(void) { return 2 * nkeys + 8; }

static void walk_fwd(struct walk *w, struct set_node **last)
{
    struct set_node *n = set_first(S);
    int bound = walk_bound();
    w->n = 0; *last = NULL;
    while (n && w->n < bound) {
        int id = node_id(n);
        w->id[w->n] = id;
        w->k[w->n] = id > 0 ? ((struct el *)set_node_data(n))->rank : 0;
        w->n++;
        if (id <= 0) break;
        *last = n;
        n = set_next(n);
    }
}
static void walk_bwd(struct walk *w, struct set_node *n)
{
    int bound = walk_bound();
    w->n = 0;
    while (n && w->n < bound) {
        int id = node_id(n);
        w->id[w->n++] = id;
        if (id <= 0) break;
        n = set_prev(n);
    }
}

static FILE *out;
static char line[1 << 17];
static int lp;
#define EMIT(...) (lp += snprintf(line + lp, sizeof(line) - lp, __VA_ARGS__))

static void emit_pairs(const char *name, struct walk *w)
{
    int i;
    EMIT(",\"%s\":[", name);
    for (i = 0; i < w->n; i++) EMIT("%s[%d,%d]", i ? "," : "", w->k[i], w->id[i]);
    EMIT("]");
}

/* raw structure: bounded DFS over l/r from the root, each node once */
static int shape_buf[4096], shape_n;
static struct set_node *seen_list[2048]; static int seen_n;
static void dump_rec(struct set_node *n, int depth, int want_nodes, int *first)
{
    struct hent *h;
    if (!n) { if (shape_n < 4096) shape_buf[shape_n++] = 0; return; }
    if (!usable(n)) { if (shape_n < 4096) shape_buf[shape_n++] = -9; return; }
    h = hfind(n, 0);
    if (h->seen || depth > 1000 || seen_n >= 2048) { if (shape_n < 4096) shape_buf[shape_n++] = -8; return; }
    h->seen = 1; seen_list[seen_n++] = n;
    if (shape_n < 4096) shape_buf[shape_n++] = ((struct el *)set_node_data(n))->rank;
    if (want_nodes) {
        EMIT("%s[%d,%d,%d,%d,%d,%d]", *first ? "" : ",", node_id(n), ((struct el *)set_node_data(n))->rank,
             node_id(n->l), node_id(n->r), node_id(n->prev), node_id(n->next));
        *first = 0;
    }
    dump_rec(n->l, depth + 1, want_nodes, first);
    dump_rec(n->r, depth + 1, want_nodes, first);
}
static void dump(int want_nodes)
{
    int first = 1, i;
    shape_n = 0; seen_n = 0;
    if (want_nodes) EMIT(",\"root\":%d,\"nodes\":[", node_id(S->root));
    dump_rec(S->root, 0, want_nodes, &first);
    if (want_nodes) EMIT("]");
    for (i = 0; i < seen_n; i++) hfind(seen_list[i], 0)->seen = 0;
    if (want_nodes) {
        EMIT(",\"shape\":[");
        for (i = 0; i < shape_n; i++) EMIT("%s%d", i ? "," : "", shape_buf[i]);
        EMIT("]");
    }
}

/* ---- one call --------------------------------------------------------------------------------- */
struct opd { char o; int k, nd, v; };   /* o: I J F L D C W */
static const char *opname(char o)
{
    switch (o) { case 'I': case 'J': return "ins"; case 'F': return "find"; case 'L': return "lower";
                 case 'D': return "rem"; case 'C': return "clear"; default: return "iter"; }
}

static char begin_line[256];
static volatile int in_call;
static FILE *outs[64];
static void crash_flush(void)
{
    int i;
    if (in_call && out) { in_call = 0; fputs(begin_line, out); }
    if (out) fflush(out);
    for (i = 0; i < 64; i++) if (outs[i] && outs[i] != out) fflush(outs[i]);
}
void __asan_on_error(void) { crash_flush(); }
static void on_signal(int sig)
{
    crash_flush();
    if (sig == SIGALRM) { fprintf(stderr, "h_set: call did not return (hang)\n"); _exit(3); }
    signal(sig, SIG_DFL);
    raise(sig);
}

static unsigned long n_calls;
static unsigned long st_op[6], st_cleanups, st_replaced, st_hit, st_miss;
/* logged insertions of a node object whose links were not all NULL on entry: poisoned (new) and stale (recycled);
   the recycled ones by the set they went into: empty, one element with the equal key, larger as a new key /
   as a replacement */
static unsigned long st_poisoned, st_rc, st_rc_stale, st_rc_empty, st_rc_single, st_rc_new, st_rc_repl;
static int opidx(char o) { return o == 'I' || o == 'J' ? 0 : o == 'F' ? 1 : o == 'L' ? 2 : o == 'D' ? 3 : o == 'C' ? 4 : 5; }
static void print_stats(void)
{
    printf("\"ops\":{\"ins\":%lu,\"find\":%lu,\"lower\":%lu,\"rem\":%lu,\"clear\":%lu,\"iter\":%lu},\"cleanup_calls\":%lu,\"replacing_inserts\":%lu,\"hits\":%lu,\"misses\":%lu",
           st_op[0], st_op[1], st_op[2], st_op[3], st_op[4], st_op[5], st_cleanups, st_replaced, st_hit, st_miss);
    printf(",\"poisoned_inserts\":%lu,\"recycled\":{\"all\":%lu,\"stale\":%lu,\"into_empty\":%lu,\"replace_only_element\":%lu,\"new_key\":%lu,\"replace\":%lu}",
           st_poisoned, st_rc, st_rc_stale, st_rc_empty, st_rc_single, st_rc_new, st_rc_repl);
}

/* returns 0, or -1 if the script asks for something the API forbids (CMP_PTR re-insertion) */
static int do_op(struct opd op, int log, int b)
{
    struct walk pre, fwd, bwd;
    struct set_node *last, *n;
    struct el *e;
    int res = 0, id = 0, i, j, rc = 0, dirty = 0, stale = 0, present = 0;

    if ((++n_calls & 1023) == 0) alarm(20);
    if (log || op.o == 'D' || op.o == 'C' || op.o == 'I' || op.o == 'J')
        walk_fwd(&pre, &last);
    if (op.o == 'I' || op.o == 'J') {
        id = next_id++;
        if (op.v < 0) op.v = id & 1;
        if (cmp_kind == CMP_PTR) {
            n = ptr_nodes[op.k - 1];
            if (ptr_dead[op.k - 1]) return -1;
            for (i = 0; i < pre.n; i++) if (pre.k[i] == op.k) return -1;
            e = set_node_data(n);
            rc = e->id > 0;                       /* was in the set before: links are what they were at removal */
            hfind(n, 0)->id = id;
        } else if (op.o == 'J' && kept_nodes[op.k]) {
            n = kept_nodes[op.k];
            kept_nodes[op.k] = NULL;
            e = set_node_data(n);
            op.v = e->variant;
            hfind(n, 0)->id = id;
            rc = 1;
        } else {
            n = set_node_alloc(sizeof(struct el));
            e = set_node_data(n);
            if (cmp_kind == CMP_INT) e->key.i = int_key(op.k);
            else if (cmp_kind == CMP_CHARP) e->key.s = (char *)str_key(op.k, op.v);
            else e->key.p = voidp_key(op.k);
            reg_node(n, id);
            poison_links(n);
        }
        e->id = id; e->rank = op.k; e->variant = op.v;
        dirty = n->l || n->r || n->prev || n->next;
        stale = rc && dirty && n->l != &decoy[0].n;
        for (i = 0; i < pre.n; i++) if (pre.k[i] == op.k) present = 1;
    }
    ncleaned = 0;
    snprintf(begin_line, sizeof(begin_line), "{\"e\":\"Begin\",\"o\":\"%s\",\"k\":%d,\"nd\":%d,\"id\":%d,\"rc\":%d}\n", opname(op.o), op.k, op.nd, id, rc);
    in_call = 1;
    switch (op.o) {
    case 'I': case 'J': set_insert(S, n); break;
    case 'F': { void *d = set_find(S, datum(op.k, op.v < 0 ? (int)(n_calls & 1) : op.v));
                res = d ? node_id(set_node(d)) : 0; break; }
    case 'L': res = node_id(set_lower(S, datum(op.k, op.v < 0 ? (int)(n_calls & 1) : op.v))); break;
    case 'D': res = set_remove(S, datum(op.k, op.v < 0 ? (int)(n_calls & 1) : op.v), op.nd); break;
    case 'C': set_clear(S, op.nd); break;
    default: break;
    }
    if (log) {
        st_op[opidx(op.o)]++; st_cleanups += ncleaned;
        if ((op.o == 'I' || op.o == 'J') && ncleaned) st_replaced++;
        if (op.o == 'I' || op.o == 'J') {
            if (dirty && !rc) st_poisoned++;
            if (rc) st_rc++;
            if (stale) {
                st_rc_stale++;
                if (pre.n == 0) st_rc_empty++;
                else if (pre.n == 1 && present) st_rc_single++;
                else if (present) st_rc_repl++;
                else st_rc_new++;
            }
        }
        if (op.o == 'F' || op.o == 'L' || op.o == 'D') { if (res) st_hit++; else st_miss++; }
        lp = 0;
        EMIT("{\"e\":\"Op\",\"o\":\"%s\",\"k\":%d,\"nd\":%d,\"id\":%d,\"rc\":%d,\"b\":%d,\"res\":%d,\"cl\":[", opname(op.o), op.k, op.nd, id, rc, b, res);
        for (i = 0; i < ncleaned; i++) EMIT("%s%d", i ? "," : "", cleaned[i]);
        EMIT("],\"size\":%u", set_size(S));
        emit_pairs("pre", &pre);
    }
    walk_fwd(&fwd, &last);
    if (log) {
        emit_pairs("fwd", &fwd);
        walk_bwd(&bwd, last);
        EMIT(",\"bwd\":[");
        for (i = 0; i < bwd.n; i++) EMIT("%s%d", i ? "," : "", bwd.id[i]);
        EMIT("]");
    }
    dump(log);
    in_call = 0;
    if (log) { EMIT("}\n"); fwrite(line, 1, lp, out); }
    /* elements handed back without disposal (in the walk before, not after, not cleaned) are ours: the latest
       one per rank is kept as it is (links untouched) for "J k", the one it supersedes is freed */
    if (op.o == 'D' || op.o == 'C' || op.o == 'I' || op.o == 'J') {
        for (i = 0; i < pre.n; i++) {
            int gone = pre.id[i] > 0;
            for (j = 0; gone && j < fwd.n; j++) if (fwd.id[j] == pre.id[i]) gone = 0;
            for (j = 0; gone && j < ncleaned; j++) if (cleaned[j] == pre.id[i]) gone = 0;
            if (gone && cmp_kind != CMP_PTR && op.o != 'I' && op.o != 'J') {
                /* find the node by id among this history's nodes */
                int t;
                for (t = hist_n - 1; t >= 0; t--)
                    if (node_id(hist_nodes[t]) == pre.id[i]) {
                        int rk = pre.k[i];
                        struct set_node *old = rk >= 1 && rk < 300 ? kept_nodes[rk] : hist_nodes[t];
                        if (old && old != hist_nodes[t] && hfind(old, 0) && hfind(old, 0)->id != -99
                            && !__asan_region_is_poisoned(old, sizeof(*old))) { hfind(old, 0)->id = -99; free(old); }
                        if (rk >= 1 && rk < 300) kept_nodes[rk] = hist_nodes[t];
                        else { hfind(hist_nodes[t], 0)->id = -99; free(hist_nodes[t]); }
                        break;
                    }
            }
        }
        if (cmp_kind == CMP_PTR)
            for (j = 0; j < ncleaned; j++)
                for (i = 0; i < nkeys; i++)
                    if (__asan_region_is_poisoned(ptr_nodes[i], sizeof(struct set_node))) ptr_dead[i] = 1;
    }
    return 0;
}

/* ---- own breadth-first exploration of the real structure ----------------------------------------- */
#define MAXSHAPE 32
struct shp { signed char s[MAXSHAPE]; int n; int parent; struct opd op; int depth; };
static struct shp *shapes; static int nshapes, capshapes;
static int *shash; static unsigned shbits = 20;

static unsigned shape_hash(const int *s, int n)
{
    unsigned h = 2166136261u; int i;
    for (i = 0; i < n; i++) h = (h ^ (unsigned)(s[i] + 16)) * 16777619u;
    return h >> (32 - shbits);
}
static int shape_lookup(const int *s, int n, int add, int parent, struct opd op)
{
    unsigned i;
    int j;
    if (n > MAXSHAPE) n = MAXSHAPE;
    i = shape_hash(s, n);
    for (;; i = (i + 1) & ((1u << shbits) - 1)) {
        int idx = shash[i];
        if (idx < 0) break;
        if (shapes[idx].n == n) {
            for (j = 0; j < n && shapes[idx].s[j] == s[j]; j++) ;
            if (j == n) return idx;
        }
    }
    if (!add) return -1;
    if (nshapes == capshapes) { capshapes = capshapes ? capshapes * 2 : 4096; shapes = realloc(shapes, capshapes * sizeof(*shapes)); }
    if (n > MAXSHAPE) n = MAXSHAPE;     /* a malformed shape: recorded truncated, never expanded (see expandable()) */
    shapes[nshapes].n = n;
    for (j = 0; j < n; j++) shapes[nshapes].s[j] = (signed char)s[j];
    shapes[nshapes].parent = parent; shapes[nshapes].op = op;
    shapes[nshapes].depth = parent < 0 ? 0 : shapes[parent].depth + 1;
    shash[i] = nshapes;
    return nshapes++;
}

/* Only shapes that can be a set over the key universe are expanded: at most nkeys nodes, every key at
   most once, no dangling link.  Anything else (a corrupted structure) is still logged as the result of the
   call that produced it - TLC judges that line - but not used as a starting point, and the exploration
   stops at shape_cap shapes, so that a broken tree cannot make the exploration diverge. */
static int shape_cap = 60000;     /* set in bfs(): number of search trees over subsets of the universe + 64 */
static int expandable(const struct shp *s)
{
    int i, seen[256] = { 0 };
    if (s->n > 2 * nkeys + 1) return 0;
    for (i = 0; i < s->n; i++) {
        if (s->s[i] < 0) return 0;
        if (s->s[i] > 0 && seen[(int)s->s[i]]++) return 0;
    }
    return 1;
}

static void print_shape(FILE *f, const signed char *s, int n)
{
    int i;
    for (i = 0; i < n; i++) fprintf(f, "%s%d", i ? "," : "", s[i]);
}

static int run_path(int si, int log)
{
    struct opd path[256];
    int d = 0, i;
    for (i = si; shapes[i].parent >= 0; i = shapes[i].parent) path[d++] = shapes[i].op;
    fresh();
    for (i = d - 1; i >= 0; i--) do_op(path[i], log, 0);
    return d;
}

static int bfs(int part, int nparts, FILE *trans)
{
    struct opd none = { 0, 0, 0, 0 };
    int si, empty[1] = { 0 };
    unsigned long logged = 0, hist = 0, skipped = 0, composites = 0;
    int capped = 0;
    {   /* sum over k of C(nkeys, k) * Catalan(k): more shapes than that cannot all be search trees */
        double total = 0, binom = 1, cat = 1;
        int k;
        for (k = 0; k <= nkeys; k++) {
            total += binom * cat;
            binom = binom * (nkeys - k) / (k + 1);
            cat = cat * 2 * (2 * k + 1) / (k + 2);
        }
        shape_cap = total + 64 > 400000 ? 400000 : (int)total + 64;
    }
    shash = malloc(sizeof(int) << shbits);
    memset(shash, 0xff, sizeof(int) << shbits);
    shape_lookup(empty, 1, 1, -1, none);
    for (si = 0; si < nshapes; si++) {
        int mine = part < 0 ? 1 : (si % nparts) == part;
        if (part < 0) out = outs[si % nparts];
        int oi, k, nd;
        struct opd ops[2048]; int nops = 0;
        if (!expandable(&shapes[si])) { skipped++; continue; }
        for (k = 1; k <= nkeys; k++) {
            struct opd o = { 'I', k, 0, -1 }; ops[nops++] = o;
            o.o = 'F'; ops[nops++] = o;
            o.o = 'L'; ops[nops++] = o;
            for (nd = 0; nd < 2; nd++) {
                if (cmp_kind == CMP_PTR && !nd) continue;
                o.o = 'D'; o.nd = nd; ops[nops++] = o;
            }
        }
        for (nd = 0; nd < 2; nd++) {
            struct opd o = { 'C', 0, nd, -1 };
            if (cmp_kind == CMP_PTR && !nd) continue;
            ops[nops++] = o;
        }
        { struct opd o = { 'W', 0, 0, -1 }; ops[nops++] = o; }
        if (mine) {
            fputs("{\"e\":\"Reset\"}\n", out);
            logged += run_path(si, 1);
            fputs("{\"e\":\"Mark\"}\n", out);
            hist++;
        }
        for (oi = 0; oi < nops; oi++) {
            int idx;
            run_path(si, 0);
            if (do_op(ops[oi], mine, 1) < 0) continue;     /* CMP_PTR: the same node cannot be inserted twice */
            if (mine) logged++;
            idx = shape_lookup(shape_buf, shape_n, nshapes < shape_cap, si, ops[oi]);
            if (idx < 0) { capped = 1; continue; }
            if (trans) {
                print_shape(trans, shapes[si].s, shapes[si].n);
                fprintf(trans, ";%s;%d;%d;", opname(ops[oi].o), ops[oi].k, ops[oi].nd);
                print_shape(trans, shapes[idx].s, shapes[idx].n);
                fputc('\n', trans);
            }
        }
        /* recycling sequences: the node of key k is taken out with no_dispose (it keeps the links it had as the
           root of this tree) and inserted again, see the head of this file.  Each call is a transition from the
           shape before it; shapes met here are not used as new starting points. */
        for (k = 1; recycle_on && k <= nkeys; k++) {
            static const char *seqs[4] = { "DJ", "DIJ", "DcJ", "DCIJ" };    /* c: clear with disposal, C: without */
            int q, in_shape = 0, j;
            for (j = 0; j < shapes[si].n; j++) if (shapes[si].s[j] == k) in_shape = 1;
            if (!in_shape) continue;
            for (q = 0; q < 4; q++) {
                const char *c;
                int first = 1, prevs[4096], prevn;
                /* no disposal, no replacement with the node-address comparator: only D J and D C J */
                if (cmp_kind == CMP_PTR && (q == 1 || q == 2)) continue;
                run_path(si, 0);
                prevn = shapes[si].n;
                for (j = 0; j < prevn; j++) prevs[j] = shapes[si].s[j];
                for (c = seqs[q]; *c; c++) {
                    struct opd o = { *c, k, 0, -1 };
                    if (*c == 'D') o.nd = 1;
                    else if (*c == 'c') { o.o = 'C'; o.k = 0; o.nd = 0; }
                    else if (*c == 'C') { o.k = 0; o.nd = 1; }
                    else if (*c == 'I' && cmp_kind == CMP_PTR) continue;
                    if (do_op(o, mine, first) < 0) break;
                    first = 0;
                    if (mine) logged++;
                    if (trans) {
                        for (j = 0; j < prevn; j++) fprintf(trans, "%s%d", j ? "," : "", prevs[j]);
                        fprintf(trans, ";%s;%d;%d;", opname(o.o), o.k, o.nd);
                        for (j = 0; j < shape_n; j++) fprintf(trans, "%s%d", j ? "," : "", shape_buf[j]);
                        fputc('\n', trans);
                    }
                    prevn = shape_n;
                    for (j = 0; j < shape_n; j++) prevs[j] = shape_buf[j];
                }
                if (mine) composites++;
            }
        }
    }
    teardown();
    printf("{\"shapes\":%d,\"calls\":%lu,\"logged\":%lu,\"histories\":%lu,\"composites\":%lu,\"maxdepth\":%d,\"not_expanded\":%lu,\"capped\":%d,",
           nshapes, n_calls, logged, hist, composites, shapes[nshapes - 1].depth, skipped, capped);
    print_stats();
    printf("}\n");
    return 0;
}

/* ---- script ---------------------------------------------------------------------------------------- */
static int script(const char *path)
{
    FILE *f = fopen(path, "r");
    static char buf[1 << 16];
    struct opd *since = NULL; int nsince = 0, capsince = 0, marked = -1;
    unsigned long logged = 0, hist = 0, drift = 0, compared = 0, lineno = 0;
    long first_drift = -1;
    int pending_b = 0;
    long stopped = 0;
    if (!f) { perror(path); return 2; }
    while (fgets(buf, sizeof(buf), f)) {
        struct opd op = { 0, 0, 0, -1 };
        char c = buf[0];
        lineno++;
        if (c == 'R') { fresh(); nsince = 0; marked = -1; fputs("{\"e\":\"Reset\"}\n", out); hist++; continue; }
        if (c == 'M') { marked = nsince; fputs("{\"e\":\"Mark\"}\n", out); continue; }
        if (c == 'S') {
            char *p = buf + 1; int i = 0, same = 1;
            compared++;
            while (*p) {
                char *q; long v = strtol(p, &q, 10);
                if (q == p) break;
                if (i >= shape_n || shape_buf[i] != v) same = 0;
                i++; p = q;
            }
            if (i != shape_n) same = 0;
            if (!same) { drift++; if (first_drift < 0) first_drift = (long)lineno; }
            continue;
        }
        if (c == 'B') {
            int i;
            if (marked < 0) { fprintf(stderr, "h_set: B without M (line %lu)\n", lineno); return 2; }
            fresh();
            for (i = 0; i < marked; i++) do_op(since[i], 0, 0);
            pending_b = 1;
            continue;
        }
        if (c == 'I' || c == 'J' || c == 'F' || c == 'L') sscanf(buf + 1, "%d %d", &op.k, &op.v);
        else if (c == 'D') sscanf(buf + 1, "%d %d %d", &op.k, &op.nd, &op.v);
        else if (c == 'C') sscanf(buf + 1, "%d", &op.nd);
        else if (c != 'W') continue;
        op.o = c;
        if ((c != 'C' && c != 'W') && (op.k < 1 || op.k > nkeys)) { fprintf(stderr, "h_set: bad key (line %lu)\n", lineno); return 2; }
        if (!S) { fprintf(stderr, "h_set: call before R (line %lu)\n", lineno); return 2; }
        if (marked < 0) {
            if (nsince == capsince) { capsince = capsince ? capsince * 2 : 256; since = realloc(since, capsince * sizeof(*since)); }
            since[nsince++] = op;
        }
        if (do_op(op, 1, pending_b) < 0) {
            /* CMP_PTR: the script inserts a node that is still in the set or was freed, i.e. the structure no
               longer is what the (well-formed) script assumes; stop here - the earlier lines tell TLC why */
            fprintf(stderr, "h_set: node of key %d cannot be inserted (script line %lu): history stopped\n", op.k, lineno);
            stopped = (long)lineno;
            break;
        }
        pending_b = 0;
        logged++;
    }
    teardown();
    free(since);
    fclose(f);
    printf("{\"calls\":%lu,\"logged\":%lu,\"histories\":%lu,\"shape_compared\":%lu,\"shape_drift\":%lu,\"first_drift_line\":%ld,\"stopped_at_line\":%ld,",
           n_calls, logged, hist, compared, drift, first_drift, stopped);
    print_stats();
    printf("}\n");
    return 0;
}

static void log_keys(void)
{
    int k, i;
    lp = 0;
    EMIT("{\"e\":\"Keys\",\"cmp\":\"%s\",\"n\":%d,\"u\":%d,\"x\":%u,\"keys\":[", cmp_kind == CMP_INT ? "int" : cmp_kind == CMP_CHARP ? "charp" : cmp_kind == CMP_VOIDP ? "voidp" : "ptr", nkeys, universe, pool_seed);
    for (k = 1; k <= nkeys; k++) {
        if (cmp_kind == CMP_INT) {
            /* as [sign, high 16 bits, low 16 bits] of the magnitude: TLC integers are 32 bit */
            long long v = int_key(k), m = v < 0 ? -v : v;
            EMIT("%s[%d,%lld,%lld]", k > 1 ? "," : "", v < 0 ? -1 : 1, m >> 16, m & 0xffff);
        } else if (cmp_kind == CMP_CHARP) {
            int v;
            EMIT("%s[", k > 1 ? "," : "");
            for (v = 0; v < 2; v++) {
                const char *s = str_key(k, v);
                EMIT("%s[", v ? "," : "");
                for (i = 0; s[i]; i++) EMIT("%s%d", i ? "," : "", (unsigned char)s[i]);
                EMIT("]");
            }
            EMIT("]");
        } else if (cmp_kind == CMP_VOIDP) {
            uintptr_t v = (uintptr_t)voidp_key(k);
            EMIT("%s[%llu,%llu,%llu,%llu]", k > 1 ? "," : "", (unsigned long long)(v >> 48), (unsigned long long)((v >> 32) & 0xffff),
                 (unsigned long long)((v >> 16) & 0xffff), (unsigned long long)(v & 0xffff));
        } else
            EMIT("%s[%d]", k > 1 ? "," : "", k);   /* addresses of the nodes themselves, sorted per history */
    }
    EMIT("]}\n");
    fwrite(line, 1, lp, out);
}

int main(int argc, char **argv)
{
    const char *mode = argc > 1 ? argv[1] : "", *outp = NULL, *scr = NULL, *transp = NULL;
    int i, part = 0, nparts = 1, rc, split = 0;
    FILE *trans = NULL;
    for (i = 2; i + 1 < argc; i += 2) {
        if (!strcmp(argv[i], "-c")) {
            const char *c = argv[i + 1];
            cmp_kind = !strcmp(c, "int") ? CMP_INT : !strcmp(c, "charp") ? CMP_CHARP : !strcmp(c, "voidp") ? CMP_VOIDP : !strcmp(c, "ptr") ? CMP_PTR : -1;
            if (cmp_kind < 0) { fprintf(stderr, "h_set: unknown comparator %s\n", c); return 2; }
        } else if (!strcmp(argv[i], "-n")) nkeys = atoi(argv[i + 1]);
        else if (!strcmp(argv[i], "-o")) outp = argv[i + 1];
        else if (!strcmp(argv[i], "-s")) scr = argv[i + 1];
        else if (!strcmp(argv[i], "-t")) transp = argv[i + 1];
        else if (!strcmp(argv[i], "-p")) sscanf(argv[i + 1], "%d/%d", &part, &nparts);
        else if (!strcmp(argv[i], "-P")) { nparts = atoi(argv[i + 1]); split = 1; }
        else if (!strcmp(argv[i], "-u")) universe = atoi(argv[i + 1]);
        else if (!strcmp(argv[i], "-x")) pool_seed = (unsigned)strtoul(argv[i + 1], NULL, 10);
        else if (!strcmp(argv[i], "-z")) poison_on = !atoi(argv[i + 1]);
        else if (!strcmp(argv[i], "-r")) recycle_on = atoi(argv[i + 1]);
    }
    if (!outp || nkeys < 1 || nkeys > 250 || nparts < 1 || universe < 0 || universe >= NUNIV
        || (universe > 0 && (cmp_kind != CMP_CHARP || (nkeys < 7 ) || (nkeys > 7 && (universe != 1 || nkeys > NPOOL))))) {
        fprintf(stderr, "usage: h_set bfs|script -c int|charp|voidp|ptr -n keys -o trace [-p i/n] [-t transitions] [-s script]\n"
                        "       [-u 1..3 (charp, 7 keys) | -u 1 -x seed (charp, 8..%d keys)] [-z 1]\n", NPOOL);
        return 2;
    }
    if (split) {
        /* bfs -P n: all parts in one run, written to <trace>.0 .. <trace>.n-1 */
        char name[4096];
        if (nparts > 64) return 2;
        for (i = 0; i < nparts; i++) {
            snprintf(name, sizeof(name), "%s.%d", outp, i);
            outs[i] = out = fopen(name, "w");
            if (!out) { perror(name); return 2; }
            setvbuf(out, NULL, _IOFBF, 1 << 18);
        }
        part = -1;
    } else {
        out = fopen(outp, "w");
        if (!out) { perror(outp); return 2; }
        setvbuf(out, NULL, _IOFBF, 1 << 20);
    }
    if (transp) trans = fopen(transp, "w");
    htab = calloc(HSIZE, sizeof(*htab));
    signal(SIGABRT, on_signal); signal(SIGALRM, on_signal);
    alarm(20);
    if (split) { for (i = 0; i < nparts; i++) { out = outs[i]; log_keys(); } }
    else log_keys();
    if (!strcmp(mode, "bfs") && nkeys > 15) { fprintf(stderr, "h_set: bfs supports at most 15 keys\n"); rc = 2; }
    else if (!strcmp(mode, "bfs")) rc = bfs(part, nparts, trans);
    else if (!strcmp(mode, "script") && scr) rc = script(scr);
    else { fprintf(stderr, "h_set: unknown mode\n"); rc = 2; }
    if (trans) fclose(trans);
    if (split) { for (i = 0; i < nparts; i++) fclose(outs[i]); }
    else fclose(out);
    return rc;
}
