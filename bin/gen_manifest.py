#!/usr/bin/env python3
"""Regenerates /verif/MANIFEST.json from the table below (single source of truth)."""
import json
import os
import subprocess

VERIF = os.path.dirname(os.path.dirname(os.path.abspath(__file__)))

# property id -> (category, technique, level text, level note, design ref)
CHECKS = {}

NOT_BUILT_REASON = "check not yet built in this revision (planned: TLA+ spec + TLC + conformance, see DESIGN.md section 6)"


def add(pid, category, technique, text, note, ref):
    CHECKS[pid] = dict(category=category, technique=technique, text=text, note=note, ref=ref)


# --- filled in as checks are built ---------------------------------------------------------
exec(open(os.path.join(VERIF, "bin", "manifest_table.py")).read())


def repo_hook_commits():
    try:
        out = subprocess.run(["git", "-C", "/repo", "log", "--format=%H %s"], stdout=subprocess.PIPE, text=True).stdout
    except Exception:
        return []
    return [l.split()[0] for l in out.splitlines() if "IAUTHD_C_VERIF" in l or "verification hook" in l]


def main():
    props = [json.loads(l)["id"] for l in open(os.path.join(VERIF, "properties.jsonl"))]
    checks = []
    na = []
    for pid in props:
        c = CHECKS.get(pid)
        if not c:
            na.append({"property_id": pid, "reason": NOT_BUILT_REASON})
            continue
        checks.append({
            "property_id": pid,
            "quick_cmd": "bin/vcheck %s --tier quick" % pid,
            "thorough_cmd": "bin/vcheck %s --tier thorough" % pid,
            "evidence_file": "/verif/evidence/%s.json" % pid,
            "replay_cmd_template": "bin/vcheck %s --replay {path}" % pid,
            "engine": "tlc+conformance",
            "level_claimed": {"category": c["category"], "text": c["text"], "design_ref": c["ref"]},
            "level_note": c["note"],
            "technique": c["technique"],
        })
    man = {
        "version": 1,
        "setup_cmd": "bin/setup.sh",
        "hooks": {
            "guard": "IAUTHD_C_VERIF",
            "enable": "vlib/build.py compiles a copy of /repo's working tree with gcc -DIAUTHD_C_VERIF -fsanitize=address,undefined (daemon, modules, library harnesses); keyed by a hash of the sources",
            "baseline_off_cmd": "bin/baseline_off.sh",
            "source_commits": repo_hook_commits(),
            "add_only": True,
        },
        "engines": [
            {"name": "tlc+conformance", "path": "bin/vcheck",
             "serves_properties": [c["property_id"] for c in checks],
             "kind_free_text": "explicit TLA+ specifications (spec/*.tla) model-checked with TLC; TLC-generated behaviours replayed on the rebuilt implementation; recorded implementation traces validated by TLC against the contract and implementation-shaped specs"},
        ],
        "checks": checks,
        "notes": "See DESIGN.md. VIOLATION only when the TLA+ contract evaluated by TLC on a trace of the real code fails (or two real runs differ where the property demands equality); model/code mismatch alone is DRIFT (exit 0); machinery failure is exit 2.",
        "not_applicable": na,
    }
    with open(os.path.join(VERIF, "MANIFEST.json"), "w") as f:
        json.dump(man, f, indent=1)
    print("MANIFEST.json: %d checks, %d not claimed" % (len(checks), len(na)))


if __name__ == "__main__":
    main()
