\* every chain old -> new1 -> new2 over rule names {a, B2}; class present/absent, ident glob present/absent: 25 sections, 15 625 chains
CONSTANTS
  CBug <- Bug_none
  RBug <- RB_none
  Names <- N_2
  AcctP <- OnlyNone
  AddrP <- OnlyNone
  UserP <- User_1
  HostP <- OnlyNone
  OkP <- OnlyNone
  ClassP <- Class_1
  TrustP <- OnlyFalse
  MaxRules = 2
  MaxCrit = 1
  Svcs <- S_ld
  MaxRl = 2
  CAcct <- CAcct_2
  CAddr <- CAddr_1
  CIdent <- CIdent_2
  CHost <- CHost_1
  CUser <- CUser_1
  LoginSt <- Login_2
  DroneSt <- Drone_1
INIT XInit
NEXT XNext
INVARIANT VecFresh
INVARIANT TreeFresh
INVARIANT AllHooked
INVARIANT ProbeFresh
