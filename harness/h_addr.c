// LINK: modules/iauth_misc.c src/common.c src/log.c src/config.c src/set.c src/module.c src/bitset.c src/accumulators.c src/git-version.c
/* h_addr - harness for irc_ntop / irc_pton / irc_check_mask (properties C12, C13).
 *
 * Prints one ndjson line per case (see spec/AddrTrace.tla for the validation) and a final
 * {"e":"end","n":<cases>} line; a sanitizer abort truncates the trace before that line.
 * The enumerated domains (pat, v4, edge, mask, strs) use the same formulas as spec/Addr.tla
 * (PatAddr, V4Addr, EdgeAddr, MaskCase*, StrAt); TLC re-computes every case from its index.
 * Every buffer handed to the code under test is a heap block of exactly the documented size,
 * so that ASan sees any access outside the arguments.
 *
 *   h_addr pat   NC LO HI             group-class patterns LO..HI
 *   h_addr v4    NC LO HI             IPv4 / near-IPv4 shapes
 *   h_addr edge                       class boundary values
 *   h_addr rnd   SEED COUNT           random addresses
 *   h_addr mask  FULL SEED LO HI      (group, 16-bit difference) cases LO..HI, all lengths 0..128
 *   h_addr maskr SEED COUNT           random pairs sharing a random-length prefix
 *   h_addr strs  ALPHABET MAXLEN LO HI [ALL]   all strings over ALPHABET, global index LO..HI
 *   h_addr lines                      cases read from stdin: "<tag> <fam> <i> <code> <code> ..."
 *   h_addr addr  G1 .. G8             one explicit address      (replays)
 *   h_addr mask1 A1 .. A8 M1 .. M8    one explicit address pair (replays)
 */
#include "modules/iauth.h"
#include <arpa/inet.h>
#include <stdint.h>

/* globals that live in src/main.c (not linked) */
struct event_base *ev_base;
struct evdns_base *ev_dns;

static char cur_case[512];
static unsigned long n_cases;

/* called by the ASan run time before it prints its report */
void __asan_on_error(void)
{
    fflush(stdout);
    fprintf(stderr, "H_ADDR-CASE: %s\n", cur_case);
    fflush(stderr);
}

/* ---- random numbers (splitmix64) ---- */
static uint64_t rng_state;
static uint64_t rnd64(void)
{
    uint64_t z = (rng_state += 0x9e3779b97f4a7c15ULL);
    z = (z ^ (z >> 30)) * 0xbf58476d1ce4e5b9ULL;
    z = (z ^ (z >> 27)) * 0x94d049bb133111ebULL;
    return z ^ (z >> 31);
}
static unsigned int rnd(unsigned int n) { return (unsigned int)(rnd64() % n); }

/* ---- output helpers ---- */
static void put_groups(const char *key, const irc_inaddr *a)
{
    int i;
    printf(",\"%s\":[", key);
    for (i = 0; i < 8; i++)
        printf("%s%u", i ? "," : "", (unsigned)ntohs(a->in6[i]));
    printf("]");
}

static void put_codes(const char *key, const char *s, size_t len)
{
    size_t i;
    printf(",\"%s\":[", key);
    for (i = 0; i < len; i++)
        printf("%s%u", i ? "," : "", (unsigned)(unsigned char)s[i]);
    printf("]");
}

static void set_groups(irc_inaddr *a, const unsigned int g[8])
{
    int i;
    for (i = 0; i < 8; i++)
        a->in6[i] = htons((uint16_t)g[i]);
}

/* irc_ntop into a heap block of exactly IRC_NTOP_MAX bytes; returns the text length found in the buffer */
static size_t do_ntop(const irc_inaddr *addr, char *text, unsigned int *ret)
{
    irc_inaddr *a = malloc(sizeof(*a));
    char *buf = malloc(IRC_NTOP_MAX);
    size_t len;

    memcpy(a, addr, sizeof(*a));
    memset(buf, 0x7f, IRC_NTOP_MAX);
    *ret = irc_ntop(buf, IRC_NTOP_MAX, a);
    for (len = 0; len < IRC_NTOP_MAX && buf[len]; len++)
        text[len] = buf[len];
    text[len] = '\0';
    free(buf);
    free(a);
    return len;
}

#define BITS_UNSET 9999u

/* irc_pton with exact-size heap arguments */
static unsigned int do_pton(irc_inaddr *out, unsigned int *bits_out, int with_bits, const char *s, size_t len, int trailing)
{
    irc_inaddr *a = malloc(sizeof(*a));
    unsigned int *bits = malloc(sizeof(*bits));
    char *in = malloc(len + 1);
    unsigned int r;

    memcpy(in, s, len);
    in[len] = '\0';
    memset(a, 0xa5, sizeof(*a));
    *bits = BITS_UNSET;
    r = irc_pton(a, with_bits ? bits : NULL, in, trailing);
    memcpy(out, a, sizeof(*a));
    if (bits_out)
        *bits_out = *bits;
    free(in);
    free(bits);
    free(a);
    return r;
}

/* the standard library parser: AF_INET6 for texts with a colon, else AF_INET mapped */
static int do_std(irc_inaddr *out, const char *s, size_t len)
{
    char *in = malloc(len + 1);
    int fam = 0;

    memcpy(in, s, len);
    in[len] = '\0';
    memset(out, 0, sizeof(*out));
    if (strlen(in) != len) {
        fam = 0;
    } else if (memchr(in, ':', len)) {
        struct in6_addr a6;
        if (inet_pton(AF_INET6, in, &a6) == 1) {
            memcpy(out, &a6, 16);
            fam = 6;
        }
    } else {
        struct in_addr a4;
        if (inet_pton(AF_INET, in, &a4) == 1) {
            out->in6[5] = 65535;
            memcpy(&out->in6[6], &a4, 4);
            fam = 4;
        }
    }
    free(in);
    return fam;
}

/* ---- one address case (C12) ---- */
static void addr_case(const char *dom, long idx, const unsigned int g[8])
{
    irc_inaddr a, pa, sa, qa;
    char t[IRC_NTOP_MAX + 1], t2[IRC_NTOP_MAX + 1];
    unsigned int n, n2, pr;
    size_t tl, t2l;
    int sf;

    snprintf(cur_case, sizeof cur_case, "addr %s %ld %x:%x:%x:%x:%x:%x:%x:%x", dom, idx,
             g[0], g[1], g[2], g[3], g[4], g[5], g[6], g[7]);
    set_groups(&a, g);
    tl = do_ntop(&a, t, &n);
    pr = do_pton(&pa, NULL, 0, t, tl, 0);
    sf = do_std(&sa, t, tl);
    t2l = do_ntop(&pa, t2, &n2);
    (void)qa;
    printf("{\"e\":\"addr\",\"d\":\"%s\",\"i\":%ld", dom, idx);
    put_groups("a", &a);
    printf(",\"n\":%u", n);
    put_codes("t", t, tl);
    printf(",\"pr\":%u", pr);
    put_groups("pa", &pa);
    printf(",\"sf\":%d", sf);
    put_groups("sa", &sa);
    printf(",\"n2\":%u", n2);
    put_codes("t2", t2, t2l);
    printf("}\n");
    n_cases++;
}

/* ---- one string case (C13 iii, ii; C12 idempotence) ----
 * r[c] for c = 2*with_bits + trailing.  Returns non-zero if anything accepted the string. */
static int str_probe(const char *s, size_t len, unsigned int r[4], irc_inaddr ad[4], unsigned int b[4], int *sf, irc_inaddr *sa)
{
    int c, any = 0;
    for (c = 0; c < 4; c++) {
        r[c] = do_pton(&ad[c], &b[c], c >> 1, s, len, c & 1);
        any |= r[c] != 0;
    }
    *sf = do_std(sa, s, len);
    return any || *sf;
}

static void str_emit(const char *ev, const char *tag, const char *fam, long idx, const char *s, size_t len,
                     const unsigned int r[4], const irc_inaddr ad[4], const unsigned int b[4], int sf, const irc_inaddr *sa)
{
    printf("{\"e\":\"%s\"", ev);
    if (tag)
        printf(",\"d\":\"%s\"", tag);
    if (fam)
        printf(",\"fam\":\"%s\"", fam);
    printf(",\"g\":%ld", idx);
    put_codes("s", s, len);
    printf(",\"r\":[%u,%u,%u,%u]", r[0], r[1], r[2], r[3]);
    put_groups("a0", &ad[0]);
    put_groups("a1", &ad[1]);
    put_groups("a2", &ad[2]);
    put_groups("a3", &ad[3]);
    printf(",\"b2\":%u,\"b3\":%u", b[2] > 100000 ? 100000 : b[2], b[3] > 100000 ? 100000 : b[3]);
    printf(",\"sf\":%d", sf);
    put_groups("sa", sa);
    if (len > 0 && r[0] == len) {
        /* accepted as a plain address: print, parse again, print again */
        irc_inaddr qa;
        char t[IRC_NTOP_MAX + 1], t2[IRC_NTOP_MAX + 1];
        unsigned int n, n2, qr;
        size_t tl = do_ntop(&ad[0], t, &n), t2l;
        qr = do_pton(&qa, NULL, 0, t, tl, 0);
        t2l = do_ntop(&qa, t2, &n2);
        printf(",\"pl\":1,\"n\":%u", n);
        put_codes("t", t, tl);
        printf(",\"qr\":%u", qr);
        put_groups("qa", &qa);
        put_codes("t2", t2, t2l);
    } else {
        printf(",\"pl\":0");
    }
    printf("}\n");
    n_cases++;
}

/* ---- domains ---- */
static const unsigned int class_seq[6][5] = { {0}, {0}, {0, 4}, {0, 1, 4}, {0, 1, 2, 4}, {0, 1, 2, 3, 4} };
static const unsigned int rep[5][8] = {
    {0, 0, 0, 0, 0, 0, 0, 0},
    {1, 2, 7, 8, 9, 10, 14, 15},
    {16, 31, 74, 255, 171, 18, 96, 207},
    {256, 4095, 2748, 291, 3840, 1929, 257, 2561},
    {4096, 65534, 43981, 4660, 61440, 65535, 32768, 51966},
};

static long ipow(long b, int e) { long r = 1; while (e-- > 0) r *= b; return r; }

static void pat_addr(int nc, long pi, unsigned int g[8])
{
    int i;
    for (i = 0; i < 8; i++) {
        long dig = (pi / ipow(nc, 7 - i)) % nc;
        g[i] = rep[class_seq[nc][dig]][i];
    }
}

static void v4_addr(int nc, long vi, unsigned int g[8])
{
    static const unsigned int pool_s[] = {0, 1, 10, 255};
    static const unsigned int pool_l[] = {0, 1, 9, 10, 99, 100, 127, 200, 255};
    const unsigned int *pool = nc <= 3 ? pool_s : pool_l;
    long b = nc <= 3 ? 4 : 9;
    long sh = vi / ipow(b, 4), rest = vi % ipow(b, 4);
    unsigned int o[4];
    int k;
    for (k = 0; k < 4; k++)
        o[k] = pool[(rest / ipow(b, 3 - k)) % b];
    memset(g, 0, 8 * sizeof(g[0]));
    g[6] = 256 * o[0] + o[1];
    g[7] = 256 * o[2] + o[3];
    switch (sh) {
    case 0: g[5] = 65535; break;
    case 1: break;
    case 2: g[5] = 65534; break;
    case 3: g[5] = 1; break;
    case 4: g[4] = 1; g[5] = 65535; break;
    default: g[0] = 1; g[5] = 65535; break;
    }
}

static void edge_addr(long ei, unsigned int g[8])
{
    static const unsigned int vals[] = {1, 15, 16, 255, 256, 4095, 4096, 65535};
    int i, pos = ei / 16;
    for (i = 0; i < 8; i++)
        g[i] = (i == pos) ? vals[(ei / 2) % 8] : (unsigned)(ei % 2);
}

static void rnd_addr(unsigned int g[8])
{
    int i, style = rnd(4);
    for (i = 0; i < 8; i++) {
        if (style == 0) {
            g[i] = rnd(65536);
        } else if (rnd(style == 1 ? 2 : 3) == 0) {
            g[i] = 0;
        } else {
            static const unsigned int lo[] = {1, 16, 256, 4096}, hi[] = {16, 256, 4096, 65536};
            int c = rnd(4);
            g[i] = lo[c] + rnd(hi[c] - lo[c]);
        }
    }
    if (style == 3 && rnd(2)) {       /* IPv4 shapes */
        g[0] = g[1] = g[2] = g[3] = g[4] = 0;
        g[5] = rnd(2) ? 65535 : 0;
    }
}

static unsigned int mask_diff_q(int j)
{
    if (j < 16) return 1u << j;
    if (j < 32) return (1u << (j - 15)) - 1;
    return 65536 - (1u << (j - 32));
}

static void mask_case(const char *ev, long idx, int grp, unsigned int d, const unsigned int ga[8], const unsigned int gm[8])
{
    irc_inaddr *a = malloc(sizeof(*a)), *m = malloc(sizeof(*m));
    unsigned int n;

    snprintf(cur_case, sizeof cur_case, "mask %ld g=%d d=%u", idx, grp, d);
    set_groups(a, ga);
    set_groups(m, gm);
    printf("{\"e\":\"%s\",\"i\":%ld,\"g\":%d,\"d\":%u", ev, idx, grp, d);
    put_groups("a", a);
    put_groups("m", m);
    printf(",\"r\":[");
    for (n = 0; n <= 128; n++)
        printf("%s%u", n ? "," : "", irc_check_mask(a, m, n));
    printf("]}\n");
    free(a);
    free(m);
    n_cases++;
}

static void strs(const char *alpha, int maxlen, long lo, long hi, int all)
{
    long k = strlen(alpha), g, blk0 = lo, nstr = 0;
    char s[64];

    for (g = lo; g <= hi; g++) {
        long j = g, len = 0, p;
        unsigned int r[4], b[4];
        irc_inaddr ad[4], sa;
        int sf;
        while (j >= ipow(k, len)) {
            j -= ipow(k, len);
            len++;
        }
        for (p = 0; p < len; p++)
            s[p] = alpha[(j / ipow(k, len - 1 - p)) % k];
        s[len] = '\0';
        snprintf(cur_case, sizeof cur_case, "str %ld '%s'", g, s);
        if (str_probe(s, len, r, ad, b, &sf, &sa) || all) {
            str_emit("str", NULL, NULL, g, s, len, r, ad, b, sf, &sa);
            nstr++;
        } else {
            n_cases++;
        }
        if (g == hi || g - blk0 + 1 >= 4096) {
            printf("{\"e\":\"blk\",\"j0\":%ld,\"j1\":%ld,\"ns\":%ld,\"rej\":%ld}\n", blk0, g, nstr, (g - blk0 + 1) - nstr);
            blk0 = g + 1;
            nstr = 0;
        }
    }
    (void)maxlen;
}

static void lines(void)
{
    static char line[8192];
    while (fgets(line, sizeof line, stdin)) {
        char tag[32], fam[32], s[2048];
        long idx;
        int off = 0, code;
        size_t len = 0;
        unsigned int r[4], b[4];
        irc_inaddr ad[4], sa;
        int sf;
        char *p;

        if (sscanf(line, "%31s %31s %ld%n", tag, fam, &idx, &off) < 3)
            continue;
        p = line + off;
        while (len < sizeof s - 1 && sscanf(p, "%d%n", &code, &off) == 1) {
            s[len++] = (char)code;
            p += off;
        }
        s[len] = '\0';
        snprintf(cur_case, sizeof cur_case, "line %s %s %ld '%.400s'", tag, fam, idx, s);
        str_probe(s, len, r, ad, b, &sf, &sa);
        str_emit(tag, NULL, fam, idx, s, len, r, ad, b, sf, &sa);
    }
}

int main(int argc, char **argv)
{
    static char obuf[1 << 16];
    const char *mode = argc > 1 ? argv[1] : "";
    unsigned int g[8];
    long i;

    setvbuf(stdout, obuf, _IOFBF, sizeof obuf);
    ctype_init();
    if (!strcmp(mode, "pat") && argc == 5) {
        int nc = atoi(argv[2]);
        for (i = atol(argv[3]); i <= atol(argv[4]); i++) {
            pat_addr(nc, i, g);
            addr_case("pat", i, g);
        }
    } else if (!strcmp(mode, "v4") && argc == 5) {
        int nc = atoi(argv[2]);
        for (i = atol(argv[3]); i <= atol(argv[4]); i++) {
            v4_addr(nc, i, g);
            addr_case("v4", i, g);
        }
    } else if (!strcmp(mode, "edge")) {
        for (i = 0; i < 128; i++) {
            edge_addr(i, g);
            addr_case("edge", i, g);
        }
    } else if (!strcmp(mode, "rnd") && argc == 4) {
        rng_state = strtoull(argv[2], NULL, 10) * 0x2545f4914f6cdd1dULL + 12345;
        for (i = 0; i < atol(argv[3]); i++) {
            rnd_addr(g);
            addr_case("rnd", i, g);
        }
    } else if (!strcmp(mode, "mask") && argc == 6) {
        int full = atoi(argv[2]);
        rng_state = strtoull(argv[3], NULL, 10) * 0x2545f4914f6cdd1dULL + 777;
        for (i = atol(argv[4]); i <= atol(argv[5]); i++) {
            int grp = full ? i / 65535 : i / 48, k;
            unsigned int d = full ? (unsigned)(i % 65535) + 1 : mask_diff_q(i % 48);
            unsigned int gm[8];
            rng_state = (strtoull(argv[3], NULL, 10) + 1) * 0x9e3779b97f4a7c15ULL + (uint64_t)i * 0x2545f4914f6cdd1dULL;
            rnd_addr(g);
            if (rnd(4) == 0)
                for (k = 0; k < 8; k++)
                    g[k] = rnd(65536);
            memcpy(gm, g, sizeof gm);
            gm[grp] = g[grp] ^ d;
            mask_case("mask", i, grp, d, g, gm);
        }
    } else if (!strcmp(mode, "maskr") && argc == 4) {
        rng_state = strtoull(argv[2], NULL, 10) * 0x2545f4914f6cdd1dULL + 4242;
        for (i = 0; i < atol(argv[3]); i++) {
            unsigned int gm[8], p = i % 130, k;   /* p = 129: identical pair */
            for (k = 0; k < 8; k++) {
                g[k] = rnd(65536);
                gm[k] = rnd(65536);
            }
            for (k = 0; k < 128; k++) {
                unsigned int bit = 1u << (15 - k % 16);
                if (k < p || p == 129)
                    gm[k / 16] = (gm[k / 16] & ~bit) | (g[k / 16] & bit);
                else if (k == p)
                    gm[k / 16] = (gm[k / 16] & ~bit) | (~g[k / 16] & bit);
            }
            mask_case("maskr", i, -1, p, g, gm);
        }
    } else if (!strcmp(mode, "maskv4") && argc == 4) {
        /* pairs of addresses that carry the same (or nearly the same) IPv4 address in different embeddings
         * (compatible ::x, mapped ::ffff:x, ffff one group early, 6to4, NAT64, none): code that treats such
         * addresses specially must still compare leading bits only */
        rng_state = strtoull(argv[2], NULL, 10) * 0x2545f4914f6cdd1dULL + 9091;
        for (i = 0; i < atol(argv[3]); i++) {
            unsigned int gm[8], x6 = rnd(4) ? rnd(65536) : 0, x7 = rnd(8) ? rnd(65536) : 0;
            unsigned int *t, kk, ka = (i / 6) % 6, kb = i % 6;
            for (kk = 0; kk < 2; kk++) {
                unsigned int kind = kk ? kb : ka;
                t = kk ? gm : g;
                memset(t, 0, 8 * sizeof(*t));
                t[6] = x6;
                t[7] = (kk && rnd(6) == 0) ? x7 ^ (1u << rnd(16)) : x7;
                switch (kind) {
                case 0: break;
                case 1: t[5] = 65535; break;
                case 2: t[4] = 65535; break;
                case 3: t[0] = 0x2002; t[1] = x6; t[2] = x7; t[6] = t[7] = 0; break;
                case 4: t[0] = 0x64; t[1] = 0xff9b; break;
                default: t[5] = 65534; break;
                }
            }
            mask_case("maskr", i, -1, 0, g, gm);
        }
    } else if (!strcmp(mode, "addr") && argc == 10) {      /* one explicit address (replays) */
        for (i = 0; i < 8; i++)
            g[i] = (unsigned)atol(argv[2 + i]);
        addr_case("rnd", 0, g);
    } else if (!strcmp(mode, "mask1") && argc == 18) {     /* one explicit pair (replays) */
        unsigned int gm[8];
        for (i = 0; i < 8; i++) {
            g[i] = (unsigned)atol(argv[2 + i]);
            gm[i] = (unsigned)atol(argv[10 + i]);
        }
        mask_case("maskr", 0, -1, 0, g, gm);
    } else if (!strcmp(mode, "strs") && argc >= 6) {
        strs(argv[2], atoi(argv[3]), atol(argv[4]), atol(argv[5]), argc > 6);
    } else if (!strcmp(mode, "lines")) {
        lines();
    } else {
        fprintf(stderr, "usage: h_addr pat|v4|edge|rnd|mask|maskr|maskv4|strs|lines|addr|mask1 ...\n");
        return 2;
    }
    printf("{\"e\":\"end\",\"n\":%lu}\n", n_cases);
    fflush(stdout);
    return 0;
}
