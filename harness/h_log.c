// LINK: src/log.c src/config.c src/set.c src/common.c src/module.c src/bitset.c src/accumulators.c src/git-version.c
/* h_log.c - driver for C18 (log routing, src/log.c, driven by the `logs` section through the
 * real reload path of src/config.c).
 *
 * Nothing here judges anything.  The harness executes a script (stdin, one command per line)
 * against the real library and prints one ndjson "begin" line before and one "end" line after
 * every command, so that a crash / sanitizer abort truncates the trace in the middle of a step.
 * The destination files are read afterwards by checks/c18.py, which turns them into the trace
 * that spec/LogTrace.tla validates.
 *
 *   reg <fac>                 log_type_register(fac, NULL)          (what a module does at start-up)
 *   regdef <fac> <target>     log_type_register(fac, target)        (a facility with a default target)
 *   load <file>               conf_read(file)  -- the REAL reload path, incl. hook delivery
 *   emit <fac> <sev> <id> [<len>]  t = log_type_register(fac, NULL); log_message(t, sev, "probe %d", id); with <len> the
 *                             message is "probe <id> xxxx..." padded with 'x' to <len> characters (long records)
 *                             sev = 0..5; sev 5 (fatal) is emitted from a forked child, because
 *                             log_vmessage() _exit(1)s after writing a fatal message
 *   reopen                    log_reopen()
 *   quit                      call_exit_funcs() (log_cleanup: refcount walk, closes every file), exit 0
 *
 * The caller chdir()s into a scratch directory; `file:` targets are relative to it.
 */
#include "src/common.h"

#include <sys/types.h>
#include <sys/wait.h>
#include <unistd.h>

/* main.c is not linked */
struct event_base *ev_base;
struct evdns_base *ev_dns;
int clean_exit;

static int step;

static void begin(const char *cmd)
{
    printf("{\"e\":\"begin\",\"n\":%d,\"cmd\":\"%s\"}\n", ++step, cmd);
    fflush(stdout);
}

int main(void)
{
    char line[4096], a[1024], b[1024];
    static char pad[4096];
    int sev, id, rc, plen;

    setvbuf(stdout, NULL, _IOLBF, 0);
    ctype_init();
    log_set_verbosity(0);               /* nothing of the log subsystem goes to stdout */
    begin("init");
    log_type_register("core", NULL);    /* first use: log_init(), registers the logs section */
    printf("{\"e\":\"end\",\"n\":%d,\"cmd\":\"init\"}\n", step);

    while (fgets(line, sizeof(line), stdin)) {
        if (sscanf(line, "regdef %1000s %1000s", a, b) == 2) {
            begin("regdef");
            log_type_register(a, b);
            printf("{\"e\":\"end\",\"n\":%d,\"cmd\":\"regdef\"}\n", step);
        } else if (!strncmp(line, "reg ", 4) && sscanf(line, "reg %1000s", a) == 1) {
            begin("reg");
            log_type_register(a, NULL);
            printf("{\"e\":\"end\",\"n\":%d,\"cmd\":\"reg\"}\n", step);
        } else if (sscanf(line, "load %1000s", a) == 1) {
            begin("load");
            rc = conf_read(a);
            printf("{\"e\":\"end\",\"n\":%d,\"cmd\":\"load\",\"rc\":%d}\n", step, rc);
        } else if ((plen = 0, sscanf(line, "emit %1000s %d %d %d", a, &sev, &id, &plen)) >= 3 && sev >= 0 && sev < LOG_NUM_SEVERITIES) {
            begin("emit");
            pad[0] = '\0';
            if (plen > 0 && plen < (int)sizeof(pad) - 32) {
                int have = snprintf(pad, sizeof(pad), "probe %d", id);
                int want = plen - have;
                pad[0] = ' ';
                if (want < 1)
                    want = 1;
                memset(pad + 1, 'x', want - 1);
                pad[want] = '\0';
            }
            if (sev == LOG_FATAL) {
                pid_t pid;
                int status = -1;

                fflush(NULL);
                pid = fork();
                if (pid == 0) {
                    log_message(log_type_register(a, NULL), LOG_FATAL, "probe %d%s", id, pad);
                    _exit(99);          /* not reached: a fatal message ends the process with 1 */
                }
                if (pid < 0 || waitpid(pid, &status, 0) != pid)
                    status = -1;
                printf("{\"e\":\"end\",\"n\":%d,\"cmd\":\"emit\",\"id\":%d,\"child\":%d}\n", step, id,
                       (status >= 0 && WIFEXITED(status)) ? WEXITSTATUS(status) : -1);
            } else {
                log_message(log_type_register(a, NULL), (enum log_severity)sev, "probe %d%s", id, pad);
                printf("{\"e\":\"end\",\"n\":%d,\"cmd\":\"emit\",\"id\":%d}\n", step, id);
            }
        } else if (!strncmp(line, "reopen", 6)) {
            begin("reopen");
            log_reopen();
            printf("{\"e\":\"end\",\"n\":%d,\"cmd\":\"reopen\"}\n", step);
        } else if (!strncmp(line, "quit", 4)) {
            break;
        } else {
            printf("{\"e\":\"bad-script-line\"}\n");
            return 3;
        }
    }
    begin("quit");
    call_exit_funcs();
    printf("{\"e\":\"end\",\"n\":%d,\"cmd\":\"quit\"}\n", step);
    return 0;
}
