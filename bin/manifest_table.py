# add(pid, category, technique, level text, level note, design ref) -- one entry per built check

add("C19", "model_checking",
    "TLA+ contract (SetMap) + implementation-shaped splay model (Splay) checked exhaustively by TLC, incl. independence of set_insert from what the inserted node's links held; the comparators' orders stated in KeyOrder.tla; real src/set.c explored breadth-first by a harness (poisoned link fields, recycled nodes) and every recorded call validated by TLC against the contract (trace validation); real vs model transition relation compared for drift",
    "TLC explores Splay.tla completely over 7 keys (2 676 shapes, 101 688 transitions; thorough: 8 keys, 11 149 / 479 407), checking search-tree order, list = in-order walk, count, refinement to the sorted-map contract, and that set_insert's outcome never depends on what the inserted node's four links held (every NULL / non-node / live-node combination over 3-4 keys; the 'links left unwritten' Bug switch is refuted on every run). The real set.c is driven through every call from every reachable shape for each stock comparator (int incl. INT_MIN/INT_MAX/+-2e9, void*, node address, char* over key universes built from case variants, prefixes, the empty string and the characters adjacent to the letter ranges @ [ \\ ] ^ _ ` { | and digits), with poisoned link fields in every allocated node and, from every shape, recycling of nodes taken out with no_dispose (into an empty set, replacing the only element, as new key and as replacement in larger sets). TLC evaluates result, size, order, cleanup-exactly-once and the structural audit on every call, checks each logged key table against strcasecmp's C-locale order stated in KeyOrder.tla, and validates random histories over 20-200 keys including boundary-character strings and recycled nodes.",
    "Exhaustive for <=7 (thorough <=8) keys; quick runs the string universes 0-2 without the recycling sequences and universe 3 in thorough only; string keys are ASCII (bytes >= 128 and other locales not exercised); a node re-inserted after a no_dispose removal is a new element identity. Memory safety observed through ASan/UBSan only.",
    "DESIGN.md 6 (C19), 5.3")

add("C20", "model_checking",
    "explicit TLA+ specification of the loader (ModLoad.tla, with the global loading_module and the per-call prior modelled explicitly) model-checked with TLC against the ordering contract (ModLoadContract.tla), bound to src/module.c by running every case on the real daemon with stub modules (eight variants: each of the optional module_constructor / module_post_init / module_destructor present or absent) and validating each event log with TLC (ModLoadTrace.tla)",
    "TLC model-checks the transcribed loader against the contract for every dependency graph, listing and missing-module choice on <=3 modules, with the hook profile as part of every case (post-init, destructor, and - for modules that declare nothing - constructor). Quick uses paired post-init/destructor profiles plus every set of constructor-less helpers: 12 795 cases, 3.1e5 states. Thorough adds every profile triple, every call order, all 4 096 4-module graphs and drawn graphs up to 6 modules: 1.0e7 states. Every case is run on the real daemon (15 286 start-ups quick, up to 4.2e5 thorough); TLC validates each event log and exit status against the contract and against the model's prediction (DRIFT). Four model mutants (D12, NoPostNoMark, NoDtorNoUnlink, NoCtorNoRestore) and 12 corrupted real logs are re-checked on every run.",
    "Exhaustive for the stated bounds on the model. Order requirements relate only events that exist, over the transitive dependency closure restricted to modules that have the hook; a constructor-less dependency counts as constructed once loaded. On a bad case a post-init of a module off the cycle that ran before the loop was detected is not blamed. Edges declared from the other end with module_antidepends are part of the dependency relation for post-init and destructor order (the construction sentence exempts a dependency whose own constructor encloses the module's); module_is_backend is outside the contract. A start-up that ends in a crash status (signal, sanitizer, time limit) is no orderly abort.",
    "DESIGN.md 6 (C20), 5.3, 13")

add("C12", "model_checking",
    "TLA+ contract (Canon, independent text reader Denote) + transcribed irc_ntop/irc_pton checked exhaustively by TLC over all 5^8 group-class patterns; real code run over the same index-addressed domains and every line validated by TLC",
    "TLC checks on the model that for all 390 625 digit-class patterns (0/1/2/3/4 hex digits per group; quick 4^8), 39 366 IPv4/near-IPv4 shapes and class-boundary values the printed text denotes Canon(a) under an independent RFC 4291 reader, never starts with ':', is <=39 chars, is re-read by the modelled parser and re-prints identically (504 410 states); defect switches D5/D16/NOZERO are each detected. The rebuilt irc_ntop/irc_pton and inet_pton are run over the same domains plus 10^5 seeded random addresses, all strings <=5 over the address alphabet and 1 735 plain-address renderings; TLC recomputes each case from its index (full-domain check) and evaluates denotes/own-parser/std-parser/no-colon/fits/idempotence on every line.",
    "Exhaustive over the abstraction that drives the printer (zero/digit-count per group, IPv4 macro), one representative value per class and position plus boundaries and random values; adequacy of the abstraction argued from the code, not proved. IPv4-compatible = the macro's notion. Buffer clause observed with a 40-byte heap buffer under ASan. Denote itself cross-checked against inet_pton on every enumerated string.",
    "DESIGN.md 6 (C12), 5.3")

add("C13", "model_checking",
    "TLA+ PrefixEq / MaskForm contract + transcribed irc_check_mask and irc_pton checked by TLC; TLC-rendered mask texts, exhaustive (group, 16-bit difference, length) triples and exhaustive short strings run on the real code under ASan and validated line by line by TLC",
    "TLC checks CheckMaskAlgo <=> PrefixEq for all lengths 0..128 over every single-bit/low-mask/high-mask difference per group x 3 bases and all 65 535 differences (72 213 states), and that the transcribed irc_pton yields the documented (length, bits, network) for all 14 941 MaskForm instances (19 310 states); switches M2/W16/D17 are detected. Real code: all 8x65 535 (group, difference) pairs + random prefix pairs x 129 lengths, every MaskForm text, all strings <=7 over `0 1 9 a f : . / * space` (longer over reduced alphabets) and ~5e4 mutated texts in all four (bits, allow_trailing) combinations with exact-size heap arguments; TLC validates completion, return <= length, agreement with inet_pton where both accept, and documented results for the documented-accept forms.",
    "Memory clause is exploration under ASan/UBSan of the enumerated and mutated input space, not a proof; UBSan non-memory diagnostics are recorded only. 'Documented' = iauth.h comment + tests/test_iauth.c generalised structurally; rejection of documented-reject forms is checked as DRIFT only (the property allows 'rejected or parsed'); network compared on the leading `bits` bits. Quick tier: 8x48 differences, strings <=5.",
    "DESIGN.md 6 (C13), 5.3, 10")

add("C14", "exploration",
    "sanitizer-instrumented exploration of TLA+-spec-generated and mutated inputs on three prior states, every load judged by TLC trace validation against the atomicity contract",
    "Valid files rendered by TLC from ConfSyntax.tla are truncated at every byte and have every byte deleted/replaced/preceded by a hostile byte (incl. NUL, 0x80-0xff); plus all strings <=3 (thorough <=4) over a reduced alphabet and a dozen long/deep stress inputs. Each is loaded by the ASan/UBSan-built conf_read() on top of {nothing, F1, F1;F2} with all four node kinds registered. TLC judges every begin/end pair: the load completes, rc!=0 => dump unchanged and no hook, rc=0 => well-formed tree with registered nodes retained. Exploration is the honest level: memory safety and termination are observed, not proved.",
    "Bounded inputs (files <=~200 bytes plus a few up to 20 KB; nesting <=1500); leaks ignored; hang = 20 s alarm; resolver state of pairs not compared; a 200 KB file of 100k nested '{' overflows the stack (outside the bound, recorded in DESIGN.md).",
    "DESIGN.md 6 (C14), 10")

add("C16", "model_checking",
    "TLA+ grammar/meaning spec checked by TLC (render -> independent parse round trip); TLC-rendered files loaded by the real conf_read(); TLC trace validation of the dumped tree and typed values",
    "spec/ConfSyntax.tla states the documented syntax at byte level. TLC checks Meaning(Parse(Render(t,l)))=Meaning(t) for every tree shape up to the bound x every cyclic layout tape, and for pseudo-random layouts of all shapes <=3 entries and of larger trees (<=3 per object, depth <=2). Each rendering is loaded by the rebuilt parser in a fresh state and TLC judges the recorded dump: bytes=Render(tree,layout), rc=0, present nodes=Meaning(tree), typed settings=component sum, unparsable typed values leave the parsed value.",
    "Holds for the stated bounds and the layout sets enumerated/sampled (seeded); 'documented syntax' is the grammar comment plus the decisions R1-R8 listed in the spec; TLC, the harness dump and fork-based fresh state are trusted; decimal integers and values <2^31 only.",
    "DESIGN.md 6 (C16), 9")

_DAEMON_TECH = ("implementation-shaped TLA+ spec of the daemon (IAuth.tla: request table, hold counters, service slots, timer) composed "
                "with the observation-level contract monitor (IAuthContract.tla) and model-checked exhaustively by TLC; one "
                "shortest-path behaviour per explored transition replayed on the rebuilt ASan daemon (barriered steps, "
                "'<id> ! timeout' hook at the model's Timeout steps); recorded ndjson traces validated by TLC (IAuthTrace.tla): "
                "contract conjunct %s on the real output is the oracle, B's prediction is the drift detector")
_DAEMON_NOTE = ("Exhaustive for the stated small constants (1-2 ids, <=3 instances, <=3 passwords, service tables of 1-3 services of "
                "all four protocol types); behaviours sampled 1/emit_mod in quick (every transition in the thorough small plans), "
                "plus seeded simulation with boundary-length text pools. Output attributed to steps by the `-1 ? stats2` barrier; "
                "texts stand for their length class; the timer fires only at the hook.")

add("C01", "model_checking", _DAEMON_TECH % "P01_once",
    "TLC explores B x A for 1 id x 2 instances with stale-tag replies, junk and lines for dead clients (26 321 states / 1.19e6 "
    "transitions quick; thorough adds 3 instances, two login services, 2 ids and simulation) with P01_once and the B invariants "
    "(HoldsSane, SerialsUnique, RefsCover, TimerSane, NoReadyLeft, Agree) on every state. ~2e4 (quick) behaviours incl. a probing tail "
    "are replayed on the real daemon; TLC evaluates on every real step: <=1 verdict and <=1 soft-done per instance, nothing "
    "(client line or X line with its tag) names a client in or after the step of its verdict/D/T, verdicts only for live ids.",
    _DAEMON_NOTE, "DESIGN.md 6 (C01), 5.1, 5.2, App. A")

add("C02", "model_checking", _DAEMON_TECH % "P02_gate",
    "TLC explores every order of data items, passwords (+x, +!, -!, ill-shaped), replies of all kinds and the timeout firing point "
    "for the service tables login+dronecheck and combined (quick; thorough: all five tables, 2 instances with strays, 3 passwords, "
    "simulation), checking P02_gate on B. Replayed behaviours are judged by TLC on the real output: an accept (D/R) only when the "
    "contract's own got/owes/expired/bang/acct (computed from the lines sent and the X lines observed) allow it; never after NO.",
    _DAEMON_NOTE, "DESIGN.md 6 (C02), 9, App. A")

add("C03", "model_checking", _DAEMON_TECH % "P03_prompt (and completion of every step)",
    "Safety form of the liveness wording: after every step no live client is Ready (data or hurry-up, nothing owed or expired, no "
    "unmet +!). TLC checks it on B for two login services (second stamping OK, reply after timeout, reply after challenge, -! after "
    "+!, password re-sent while awaited) and login+dronecheck (quick; thorough adds three more tables, a no-timeout configuration "
    "and simulation) together with hold-counter sanity; replayed behaviours are judged by TLC on every real step; a daemon that dies "
    "or hangs in a step is a violation too.",
    _DAEMON_NOTE, "DESIGN.md 6 (C03), 8 (D2, D4, D14, D15)")

add("C04", "model_checking",
    _DAEMON_TECH % "P04_stray" + "; plus a differential of two real runs (with / without guaranteed-stray replies spliced in) compared by TLC (DiffTrace.tla)",
    "Stray replies (stale serial after id reuse, malformed tags, unknown / not-awaited service, every reply kind) are enabled in every "
    "model state and are stutters of B (checked by TLC). (i) behaviours with strays replayed: a stray step prints nothing (P04_stray "
    "on the real trace); (ii) sampled behaviours with 1-2 strays spliced at random positions vs the same history without them, both on "
    "fresh daemons, followed by a distinguishing tail (password, hurry-up, OK from every service, timeout): TLC requires equal output "
    "on every other step (350 pairs quick / 20 000 thorough).",
    _DAEMON_NOTE + " Tags spelling the current (id, serial) differently (leading zeros, upper case) are not generated (DESIGN.md 9).",
    "DESIGN.md 6 (C04), 9")

add("C11", "model_checking",
    "TLA+ ClassRules spec (rule order, criteria conjunction, Glob, address prefix, first match, trust_username) model-checked by TLC over "
    "enumerated rule tables x clients; each case rendered to a configuration + client history, run on the real daemon with iauth_class "
    "loaded, and the recorded verdict validated by TLC (ClassTrace.tla) against FirstMatch",
    "TLC enumerates rule tables (<=3 rules, names in mixed case, each criterion absent or one of 2-3 patterns incl. CIDR/wildcard masks, "
    "class present/absent, trust_username) x client attribute tuples (1.0e5 states quick) and checks determinism and listing-order "
    "independence; a glob model is checked against a reference matcher. 3 655 (quick) / ~1e5 (thorough) cases are replayed on real daemons: "
    "attributes established by C/u/N/login OK/service OK, TLC compares the class field of D/R and the U line with FirstMatch.",
    "Bounded tables and pattern pools; globs over short strings; the account criterion uses the stamp-stripped account as documented. "
    "UBSan shift diagnostics in irc_pton are recorded only.",
    "DESIGN.md 6 (C11), 5.3")

add("C15", "model_checking",
    "TLA+ spec of the configuration merge (Conf.tla: B = transcription of conf_replace_value / conf_register_*, A = declarative 'file value "
    "else default else gone' contract) model-checked by TLC; one behaviour Register*;Load;Register*;Load;Load per explored transition "
    "replayed through harness/h_conf on the rebuilt src/config.c; dumps and hook logs validated by TLC (ConfTrace.tla)",
    "7 universes (quick; 11 thorough) over names {a,b}, depth <=2, all four node kinds: 4 722 states / 50 535 transitions, each transition's "
    "behaviour (50 528) plus 400 seeded random long histories run on the real code as prefix trees; TLC judges after every step: effective "
    "value = file value else registered default, unregistered leftovers gone, same file twice => no change and no hook, setting hook iff own "
    "effective value changed, object hook iff membership changed, registration before/after loads equivalent, failed load keeps last good.",
    "Exhaustive for the stated universes; larger universes by seeded random histories. Hook = conf_register_*'s change callback recorded by "
    "the harness. ASan covers pointer ownership across loads.",
    "DESIGN.md 6 (C15), 5.3, 8 (D9, D13)")

add("C18", "model_checking",
    "TLA+ spec of log routing (LogRoute.tla: implementation-shaped rescan/merge/refcount model vs declarative Route contract) model-checked "
    "by TLC over sections and reload sequences; each behaviour replayed through harness/h_log on the rebuilt src/log.c + src/config.c with "
    "one numbered probe per (facility, severity) after every load; destination files read back and validated by TLC (LogTrace.tla)",
    "TLC enumerates sections (<=2-3 entries, facilities incl. *, severity expressions of every operator < <= = >= >, lists, *, malformed "
    "entries, 2-3 destinations) and reload sequences (<=3), checking that routing after a reload depends on the new section only. 12 672 "
    "histories / 6.6e5 probe steps (quick) on the real code: TLC requires each probe in exactly Route[fac][sev] U Route[*][sev], every line "
    "complete and carrying (facility:severity).",
    "Destinations restricted to openable file: targets; 'written' = at least once (duplicates not counted, DESIGN.md 9); bounded sections.",
    "DESIGN.md 6 (C18), 5.3")

add("C05", "model_checking", _DAEMON_TECH % "P05_content",
    "TLC explores (i) straight-line scripts C,P,H,X.. that enumerate the rich reply pools exhaustively (every reply kind from every "
    "service type; account 8/64/65/90 chars with and without trailing words; NO/AGAIN/MORE texts with spaces and punctuation up to "
    "200 chars) and (ii) the free environment (every order of replies, passwords, timeout); replayed on the real daemon with "
    "iauth_class loaded and a two-rule probe table. TLC judges every real step: k text = NO text exactly and only after an awaited "
    "NO; R+account (cut to 64) iff an awaited login-type OK carried one for this instance, else D; class field per the probe table; "
    "M +x required for a stamped client that asked +x (permitted for +!-only, forbidden otherwise); C text = MORE/AGAIN text verbatim "
    "to that client only; no other client-directed line kinds.",
    _DAEMON_NOTE + " The class clause uses a fixed two-rule table (rule semantics are C11's subject). Texts are printable ASCII.",
    "DESIGN.md 6 (C05), 9, App. A")

add("C06", "model_checking", _DAEMON_TECH % "P06_queries",
    "TLC explores (i) straight-line scripts enumerating the rich data pools exhaustively (nick 5/30/31/45, host 12/63/64/80, ident "
    "4/10/11/15 or empty, user 6/9/10/13 and ~-prefixed 8/10/12, realname with spaces 11/50/51/70, credentials 10/511/512/600, "
    "passwords without modes / space / separator) in three arrival orders over all protocol types, (ii) the free environment (all "
    "arrival orders incl. hurry-up, password before/after data, repeated passwords). TLC judges every real step: the services "
    "queried = those that became due in this step (plus permitted re-queries after a new password), each with exactly the CHECK / "
    "LOGIN / LOGIN2 lines of its protocol, every field = the text the server sent cut to its limit with the ~ rule, every X line "
    "carries the client's own fresh tag.",
    _DAEMON_NOTE + " Field texts are identified by reference and length (exact match or proper prefix of the text sent).",
    "DESIGN.md 6 (C06), 9, App. A")

add("C07", "model_checking",
    "2-safety by self-composition in TLA+ (NonInterf.tla: world 1 = all clients interleaved, world 2 = the observed client's own events, "
    "both instances of IAuth.tla) model-checked by TLC over every interleaving within the bounds; world-1 behaviours (one per explored "
    "transition) and random merges of three single-client model behaviours are run on the real daemon interleaved and alone (two real "
    "runs, fresh processes, per-client distinct texts) and compared step by step by TLC (DiffTrace.tla) up to tag renaming; contract "
    "conjunct P07_scope on all runs",
    "TLC checks SameConversation / SilentOthers / SameState for the observed client against another client's announce, data, password, "
    "reply, timeout and disconnect traffic in every interleaving (7 713 states / 1.1e5 transitions quick; 6.5e5 / 1.0e7 thorough, plus "
    "simulation of a 3-id configuration); a shared-password-buffer model mutant must be caught. 360+100 (quick) / ~2.5e4 (thorough) pairs "
    "of real runs: the interleaved run projected to one client must print, on each of that client's steps, exactly what the daemon prints "
    "when the client is alone (tags renamed by order of appearance).",
    "Exhaustive only for 2 ids and the stated bounds (the other client's traffic restricted to the lines that reach shared structures); "
    "three-client interleavings are seeded random merges. The equality is between two real runs, so it does not depend on the model.",
    "DESIGN.md 6 (C07)")

add("C09", "model_checking",
    "TLA+ specification of the iauthd->ircd wire format (IAuthWire.tla: lexical rules, per-message grammar, addressing rule using "
    "Addr!Denote / Canon) model-checked by TLC against a generator of the documented message forms and their corruptions (MCWire.tla); "
    "the real daemon is driven to print every message kind for clients announced from a TLC-generated address domain under three logs "
    "sections with warning/error-producing events; every stdout line from the banner on, byte for byte, is judged by TLC (WireTrace.tla)",
    "TLC checks that every generated message form is accepted, that 11 kinds of corruption (double / leading / trailing space, control "
    "character, missing id or port, non-address text, address starting with ':', port > 65535, log-style text, empty line) are rejected "
    "and that Addressed accepts exactly the matching (id, address, port) (31 680 states). Real daemon: 2 080 address values (all 256 "
    "zero/non-zero group patterns, 160 digit-count patterns, 1 536 IPv4 / near-IPv4 shapes, 128 class-boundary values; thorough 12 000 "
    "digit-count patterns and the 9-value octet pool) x up to 4 textual forms, ports {0, 1, 1023, 6667, 32768, 65535, random}, four "
    "history variants that make the daemon print X, d, C, M, U, R/D/k, plus `? config`, `? stats`, unknown info requests, garbage with "
    "id -1, SIGUSR1 reloads of a broken and of a valid file, under logs sections {none, catch-all file, per-facility files}: 5.5e4 steps, "
    "6.2e4 stdout lines (1.9e4 client-directed) in quick, each judged for form and for id / Denote(address text) = Canon(announced) / port.",
    "The announced address is Denote(text the driver sent) - computed by TLC, not by the driver. Class values, service names and account "
    "words without spaces; debug mode excluded by the property; the barrier's own statistics block is judged on every 40th step; "
    "addresses are representatives of digit-count classes (adequacy argued from the printer's code, see C12).",
    "DESIGN.md 6 (C09), 5.3")

add("C17", "model_checking",
    "TLA+/TLC: product of a reloaded and a fresh copy of the implementation-shaped request engine over every pair (and bounded chains) of "
    "service tables, with the config.c merge walk and hook deliveries modelled explicitly (Reload.tla), plus the class-rule cache model "
    "(ReloadCls.tla); contract refinement (IAuthContract RL event); conformance by TLC-generated reload histories replayed on the ASan "
    "daemon (rewrite file, SIGUSR1, log hand-shake) and judged by TLC differentially against a freshly started daemon (ReloadDiff.tla) and "
    "against contract and spec (ReloadTrace.tla, ClassTrace.tla)",
    "TLC checks for every (old, new) pair of service tables over 2 names x {4 protocol types, an unknown word, absent} (1 296 pairs; "
    "thorough: 3 names, 46 656 pairs, 2-reload chains, a free probe environment), with an earlier client idle / completed / pending / "
    "disconnected while awaited across the reload, that the probe client's outputs equal those of the fresh engine step by step "
    "(ProbeEq, ProbeLive) and that the slot table refines the file in force (24 100 states quick; ~5e5 thorough); for rule sections over "
    "<=3 names that the compiled vector equals compile(new) (VecFresh, AllHooked). Seven model mutants (D10, D11, KEEPCONF, NORETYPE, "
    "NOKIDHOOK, ACCUM) must be caught on every run. Real daemon: 681 service histories + 120 rule-table chains (240 reloads) in quick "
    "(~1e4 + 2 400 thorough), each also run on a fresh daemon on the new file; TLC compares `? config` (configured set) and every probe "
    "step (multiset, tags renamed).",
    "Only clients arriving after the reload are judged. Exhaustive for the stated universes; richer rule tables and edit chains are "
    "seeded samples. Names differing only in letter case are one configuration entry (config keys are case-insensitive) and are not "
    "generated; non-string entries and more than 32 services are outside the generated space.",
    "DESIGN.md 6 (C17), 8 (D10, D11), 9")

add("C08", "model_checking",
    "TLA+ spec of the input layer (ReadLineOps/ReadLine: evbuffer, readln CRLF, strtol, in-place tokenizer, argv[16] as an array across the "
    "lines of one read, EOF) model-checked by TLC against a chunking-independent contract; conformance on the real ASan/UBSan daemon: "
    "model-generated histories with junk delivered in exact read() chunks / truncated at every byte / glued without barriers / as chunks of "
    "exactly k x 4096 bytes with the input kept open, differential against the clean run, and exhaustive short byte strings + line mutations "
    "with probes, all traces judged by TLC (ReadLineTrace)",
    "TLC decides exhaustively (streams <=4-8 bytes over 4-10-symbol alphabets, every chunking including reads that fill the read buffer and "
    "are followed by more, EOF after every byte, ARGV 2-3, with/without unknown client ids; 6.7e5 states quick, 2.0e7 thorough; eight bug "
    "switches each refuted, `drainfull` and `argvstale` on every run) that the splitter/tokenizer delivers a function of the byte stream only, "
    "holds no complete line after a read (NoLineWaiting), stores inside argv[] and shows handlers NULL for an absent parameter "
    "(AbsentParamIsNull). Real daemon (quick): 142 histories in ~6 500 deliveries (line per write, one write, byte by byte, all 2-chunk "
    "splits, truncation at every byte followed by EOF), ~510 deliveries with junk lines glued directly in front of lines with no barrier "
    "between them (adjacency family: 59 junk forms x 37 lines carrying their minimum number of parameters, same read chunk vs strictly line "
    "by line), 322 prompt deliveries (a chunk of exactly k x 4096 bytes ending in a barrier line, input kept open, answer required within "
    "5 s), each compared step by step with the clean run; 24 992 byte-level cases with probes. TLC judges completion, prompt, no hang, exit "
    "0, no sanitizer report, same treatment, junk = stutter.",
    "No-crash / no-hang / clean-exit / 'same treatment' are conformance and sanitizer exploration of the spec-generated input space (two "
    "real runs compared by TLC), not model checking. An unterminated last line may be dropped (as the code does) or taken once. Chunks are "
    "exact (written only after FIONREAD reports 0) up to the 4096-byte read size; promptness is judged only for chunks of exactly k x 4096 "
    "bytes and must be late twice. A junk line glued in front of a line may print its own oper notice (compared without oper notices).",
    "DESIGN.md 6 (C08), 13.1, 10")

add("C10", "model_checking",
    "TLA+ resource ledger (BookLedger.tla: request nodes, per-module client records, timer objects, pending timers, statistics counters, "
    "updated call by call as iauth_core.c / set.c / iauth_xquery.c allocate and release them) composed with IAuth.tla x IAuthContract.tla "
    "and model-checked exhaustively (MCBook.tla); abstract many-id bookkeeping spec (BookLong.tla) exhaustive for small bounds and used "
    "with TLC -simulate to generate long and timed histories; conformance on the ASan+LSan daemon judged by TLC (BookTrace.tla)",
    "TLC checks on every state: ledger = live requests exactly, module data and timers exactly for live requests, every pending timer "
    "owned by a request in the table, reported in-use = |table| = |contract's live clients| (P10_count), with re-announcement of live ids, "
    "D/T at every stage, replies and timeouts in every order (39 493 + 5 401 + 617 states quick; thorough adds 3-4 instances and three "
    "services; BookLong exhaustive for 1-3 ids). Real daemon: (i) ~7e3 sampled per-transition behaviours with a barrier after every line, "
    "every process ended by end of input (every second one with requests still pending): in-use judged on every step, exit 0 and no "
    "ASan/LeakSanitizer report at EOF; (ii) TLC-simulated long histories (up to 2 500 steps quick / tens of thousands thorough over 16 ids, "
    "duplicate announcements, stale replies); (iii) real timers (`timeout 1`, no hook): 64 timed histories on a wall-clock tick schedule "
    "with requests finished / replaced before their deadline and requests whose timer fires while pending, the clock run past every "
    "deadline ever set: nothing may be printed for a finished request, pending complete clients must be accepted by the timer.",
    "Exhaustive for the stated bounds; long histories are simulations. Real-timer runs use generous margins; a schedule miss is retried "
    "and, if it persists, counted as inconclusive rather than judged. Leaks are what LeakSanitizer reports at exit. `-1` is not a client id.",
    "DESIGN.md 6 (C10), 13.2")
