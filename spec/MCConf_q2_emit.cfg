SPECIFICATION Spec
CONSTANTS
  NameOrd <- MCNameOrd
  Universe <- U_q2
  ValOpts <- V_q2
  RegOpts <- R_q2
  MaxLoads = 3
  RegPhases = {0, 1}
  WithBad = TRUE
  Bug = {}
VIEW View
INVARIANTS TypeOK ParsedFresh
PROPERTIES BSat_C15_Values BSat_C15_Leftovers BSat_C15_FileNodes BSat_C15_Idempotent BSat_C15_SettingHook BSat_C15_ObjectHook BSat_C15_Register
ACTION_CONSTRAINT Emit
