CONSTANTS
  FULL = FALSE
  Bug = {"M2"}
INIT Init
NEXT Next
INVARIANTS AlgoExact AlgoRange DefsAgree FirstDiffOK
