# Code mutants for bin/selftest.py: M(name, property, file, old, new) / REVERT(name, property, commit subject)
# Each still compiles; none is exercised by the repository's own 90 assertions.

CORE = "modules/iauth_core.c"
XQ = "modules/iauth_xquery.c"

# ---- reverting the repairs --------------------------------------------------------------------------------
REVERT("revert-D1-argc-guards", "C08", "lines lacking a command or its parameter")
REVERT("revert-D15-password-gate", "C03", "a password line did not re-evaluate")
REVERT("revert-D2D3-bang-hold", "C02", "the +! hold was released")
REVERT("revert-D2D3-bang-hold/C03", "C03", "the +! hold was released")
REVERT("revert-D4D14-timedout", "C03", "soft holds could block a client forever")

# ---- C01 ------------------------------------------------------------------------------------------------------
M("softdone-flag-not-set", "C01", CORE,
  "    BITSET_SET(req->flags, IAUTH_SOFT_DONE);\n    iauth_send(req, \"d\");",
  "    iauth_send(req, \"d\");")
M("kill-does-not-retire-request", "C01", CORE,
  "    iauth_send(req, \"k :%s\", reason);\n    /* Notify all the modules we are done with this client. */\n    parse_registered(req, 0);\n}\n\nstatic void notify_pre_registered",
  "    iauth_send(req, \"k :%s\", reason);\n    BITSET_CLEAR(req->flags, IAUTH_RESPONDED);\n}\n\nstatic void notify_pre_registered")
M("challenge-after-kill-order", "C01", XQ,
  "        iauth_kill(req, reply + 3);\n        return;",
  "        { char t_[600]; strncpy(t_, reply + 3, 599); t_[599] = 0; iauth_kill(req, t_); iauth_x_query(service, routing, \"BYE\"); }\n        return;")

# ---- C02 ------------------------------------------------------------------------------------------------------
M("gate-ignores-soft-holds", "C02", CORE,
  "        if (request->soft_holds == 0 || request->timed_out)",
  "        if (request->soft_holds <= 1 || request->timed_out)")
M("hurry-skips-flag-check", "C02", CORE,
  "        && !BITSET_H_ANDNOT(iauth_flags, request->flags)) {",
  "        && (!BITSET_H_ANDNOT(iauth_flags, request->flags) || BITSET_GET(request->flags, IAUTH_GOT_NICK))) {")
M("timeout-clears-hard-hold", "C02", CORE,
  "    req->soft_holds = 0;\n    req->timed_out = 1;",
  "    req->soft_holds = 0;\n    req->holds = 0;\n    req->timed_out = 1;")
M("again-releases-bang-hold", "C02", XQ,
  "        iauth_challenge(req, reply + 6);",
  "        iauth_challenge(req, reply + 6);\n        if (BITSET_GET(cli->modes, IAUTH_XQUERY_HIDDEN_ONLY) && req->holds > 0) req->holds--;")

# ---- C03 ------------------------------------------------------------------------------------------------------
M("unlinked-keeps-soft-hold", "C03", XQ,
  "    if (cli->ref_mask == 0)\n        --req->soft_holds;\n    iauth_check_request(req);",
  "    if (cli->ref_mask == 0 && reply)\n        --req->soft_holds;\n    iauth_check_request(req);")
M("more-reply-no-gate-check", "C03", XQ,
  "        cli->more_mask |= 1u << ii;\n        iauth_challenge(req, reply + 5);",
  "        cli->more_mask |= 1u << ii;\n        iauth_challenge(req, reply + 5);\n        cli->ref_mask &= ~(1u << ii);\n        if (cli->ref_mask == 0) --req->soft_holds;\n        return;")
M("nohostname-no-gate-check", "C03", CORE,
  "            plugin->field_change(req, IAUTH_GOT_HOSTNAME);\n    }\n    iauth_check_request(req);\n}\n\nstatic void parse_password",
  "            plugin->field_change(req, IAUTH_GOT_HOSTNAME);\n    }\n}\n\nstatic void parse_password")

# ---- C04 ------------------------------------------------------------------------------------------------------
M("validate-request-ignores-serial", "C04", CORE,
  "    if (!req || serial != req->serial)\n        return NULL;",
  "    if (!req)\n        return NULL;")
M("xreply-ignores-ref-mask", "C04", XQ,
  "        if ((cli->ref_mask & (1u << ii)) == 0)\n            continue;\n        srv = iauth_xquery_services.vec[ii];",
  "        srv = iauth_xquery_services.vec[ii];")
M("routing-tag-trailing-junk-accepted", "C04", CORE,
  "    serial = strtoul(sep + 1, &sep, 16);\n    if (sep[0] != '\\0')\n        return NULL;",
  "    serial = strtoul(sep + 1, &sep, 16);")
M("stray-more-sets-more-mask", "C04", XQ,
  "    /* See if this is a response from a service that we are waiting for. */",
  "    if (reply && 0 == strncmp(reply, \"MORE \", 5)) cli->more_mask |= 1u;\n    /* See if this is a response from a service that we are waiting for. */")

REVERT("revert-D19-wide-ids", "C08", "a client id outside the int range was truncated")
REVERT("revert-D20-full-table", "C17", "a service added by a reload to a full service table")
REVERT("revert-D21-antidepends", "C20", "a back-end declared with module_antidepends()")
