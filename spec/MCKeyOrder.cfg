SPECIFICATION Spec
