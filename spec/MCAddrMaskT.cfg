CONSTANTS
  FULL = TRUE
  Bug = {}
INIT Init
NEXT Next
INVARIANTS AlgoExact AlgoRange DefsAgree FirstDiffOK
