---------------------------- MODULE MCClassRules ----------------------------
(***************************************************************************)
(* Model checking of ClassRules (property C11).                            *)
(*                                                                         *)
(* Exhaustive model (INIT Init / NEXT Next): the iauth_class section is    *)
(* read entry by entry in FILE order (ConfEntry - every listing of up to   *)
(* MaxRules rules with distinct names from Names, every rule body over the *)
(* criterion pools with at most MaxCrit criteria); then one client out of  *)
(* Clients is accepted (AcceptCli).  Checked in every state:               *)
(*   VecOrder     B's vector is in strictly increasing StrCaseLt order     *)
(*   OrderIndep   every permutation of the listing gives the same vector   *)
(*   Unique       the first matching rule is unique (determinism)          *)
(*   ImplClass / ImplUline / ImplExact                                     *)
(*                B's predicted observation (scan of the vector, first hit *)
(*                stops) satisfies the contract P11_class, P11_uline, and  *)
(*                is exactly the declarative FirstMatch outcome            *)
(* ACTION_CONSTRAINT Emit prints one replayable case per AcceptCli         *)
(* transition (1 in EmitMod).                                              *)
(***************************************************************************)
EXTENDS MCClassPools, Json

CONSTANTS
    Svcs,         \* the configured services in service-vector order: sequence of [name, type]
    EmitMod       \* print every EmitMod-th case (1 = all, 0 = none)

VARIABLES listing, vec, cli, out, want

vars == <<listing, vec, cli, out, want>>

NoCli == [none |-> TRUE]

AllClients == Clients(Svcs)

-----------------------------------------------------------------------------
(* exhaustive model *)
Init == /\ listing = << >>
        /\ vec = << >>
        /\ cli = NoCli
        /\ out = NoCli
        /\ want = NoCli

ConfEntry == /\ cli = NoCli
             /\ Len(listing) < MaxRules
             /\ \E n \in Names, b \in Bodies :
                   /\ \A i \in 1..Len(listing) : listing[i].name # n
                   /\ listing' = Append(listing, MkRule(n, b))
                   /\ vec' = ConfChanged(listing')
             /\ UNCHANGED <<cli, out, want>>

AcceptCli == /\ cli = NoCli
             /\ \E c \in AllClients :
                   /\ cli' = c
                   /\ out' = Accept(vec, c)                       \* B: scan of the vector
                   /\ want' = Outcome(Range(listing), c)         \* A: declarative first match
             /\ UNCHANGED <<listing, vec>>

Next == ConfEntry \/ AcceptCli

-----------------------------------------------------------------------------
(* invariants *)
VecOrder == /\ \A i \in 1..(Len(vec) - 1) : StrCaseLt(vec[i].name, vec[i + 1].name)
            /\ {vec[i].name : i \in 1..Len(vec)} = {listing[i].name : i \in 1..Len(listing)}
            /\ Len(vec) = Len(listing)

Perms(n) == {p \in [1..n -> 1..n] : \A i, j \in 1..n : i # j => p[i] # p[j]}
OrderIndep == cli = NoCli =>
                \A p \in Perms(Len(listing)) : ConfSet([i \in 1..Len(listing) |-> listing[p[i]]]) = ConfSet(listing)
VecIsConf  == vec = ConfChanged(listing)

Unique == cli # NoCli => FirstUnique(Range(listing), cli)

\* B's predicted observation satisfies the contract ...
ImplClass == cli # NoCli => (Accepted(out) /\ out.cls = want.cls)
ImplUline == cli # NoCli => IF want.trust THEN out.u # << >> /\ \A i \in 1..Len(out.u) : out.u[i] \in {cli.user, StripTilde(cli.user)}
                                          ELSE out.u = << >>
\* ... and is exactly the declarative outcome
ImplExact == cli # NoCli =>
                /\ out.u = IF want.trust THEN << StripTilde(cli.user) >> ELSE << >>
                /\ out.v = IF cli.acct # << >> THEN "R" ELSE "D"
                /\ out.acct = cli.acct

Case(l, c, o) == [svcs |-> Svcs, rules |-> l, clis |-> << c >>, want |-> << o >>, nm |-> << Cardinality(Matching(Range(l), c)) >>]

Emit == \/ EmitMod = 0
        \/ cli' = NoCli
        \/ (EmitMod > 1 /\ RandomElement(1..EmitMod) # 1)
        \/ PrintT("@@E" \o ToJson(Case(listing, cli', out')))

=============================================================================
