----------------------------- MODULE IAuthWire -----------------------------
(***************************************************************************)
(* The iauthd -> ircd direction of the IAuth line protocol (property C09): *)
(* what a single well-formed message is, and what "correctly addressed"    *)
(* means for a client-directed message.                                    *)
(*                                                                         *)
(* A line is a sequence of character codes (the LF that ends it removed).  *)
(* Lexical layer (ircu's tokenizer): parameters are separated by single    *)
(* spaces; a parameter that starts with ':' extends to the end of the line *)
(* (the "trailing" parameter, which may contain spaces and may be empty);  *)
(* no other parameter is empty; every character is printable ASCII.        *)
(*                                                                         *)
(* Message layer (ircu doc/readme.iauth, "IAuth to server" messages):      *)
(*   > :<text>                  oper notice                                *)
(*   G <level>                  debug level                                *)
(*   O <letters>                policy options                             *)
(*   V :<text>                  version banner                             *)
(*   a          A <module> :<text>      configuration report               *)
(*   s          S <module> :<text>      statistics report                  *)
(*   X <server> <routing> :<query>      extension query                    *)
(*   <k> <id> <ip> <port> <params of k>  client-directed, k one of          *)
(*       o U u <username>   N <hostname>   I <ip>   M <modes>              *)
(*       C <text>   k <text>   D [<class>]   R <account> [<class>]   d     *)
(***************************************************************************)
EXTENDS Integers, Sequences, FiniteSets

AD == INSTANCE Addr WITH Bug <- {}

Space == 32
ColonC == 58
Printable(c) == c \in 32..126

Ascii == " !\"#$%&'()*+,-./0123456789:;<=>?@ABCDEFGHIJKLMNOPQRSTUVWXYZ[\\]^_`abcdefghijklmnopqrstuvwxyz{|}~"
CodeOf(ch) == 31 + CHOOSE i \in 1..Len(Ascii) : SubSeq(Ascii, i, i) = ch
T(s) == [i \in 1..Len(s) |-> CodeOf(SubSeq(s, i, i))]

(* ---- lexical layer ---------------------------------------------------- *)
\* parameters of a line; <<>> marks a lexical error (the empty line has no parameters and is an error too)
RECURSIVE Params(_, _, _)
Params(line, pos, acc) ==
    IF pos > Len(line) THEN acc
    ELSE IF line[pos] = ColonC /\ acc # <<>>
         THEN Append(acc, SubSeq(line, pos + 1, Len(line)))               \* trailing parameter
         ELSE LET ends == {k \in pos..Len(line) : line[k] = Space}
                  e == IF ends = {} THEN Len(line) + 1 ELSE CHOOSE k \in ends : \A k2 \in ends : k <= k2
              IN IF e = pos THEN <<>>                                      \* empty parameter (two spaces / leading space)
                 ELSE IF e = Len(line) THEN <<>>                           \* trailing space
                 ELSE LET rest == Params(line, e + 1, Append(acc, SubSeq(line, pos, e - 1)))
                      IN rest

Lex(line) == IF line = <<>> \/ \E k \in 1..Len(line) : ~Printable(line[k]) THEN <<>>
             ELSE Params(line, 1, <<>>)

(* ---- fields ----------------------------------------------------------- *)
IsDigit(c) == c \in 48..57
AllDigits(w) == w # <<>> /\ \A k \in 1..Len(w) : IsDigit(w[k])
RECURSIVE DecVal(_, _)
DecVal(w, acc) == IF w = <<>> THEN acc ELSE DecVal(Tail(w), IF acc > 100000000 THEN acc ELSE acc * 10 + (w[1] - 48))
IsInt(w) == AllDigits(w) \/ (Len(w) >= 2 /\ w[1] = 45 /\ AllDigits(Tail(w)))
IntVal(w) == IF w[1] = 45 THEN 0 - DecVal(Tail(w), 0) ELSE DecVal(w, 0)
IsPort(w) == AllDigits(w) /\ Len(w) <= 5 /\ DecVal(w, 0) <= 65535
NoSpace(w) == w # <<>> /\ \A k \in 1..Len(w) : w[k] # Space
IsAddrText(w) == AD!Denote(w) # AD!Bad

ClientKinds == {T("o"), T("U"), T("u"), T("N"), T("I"), T("M"), T("C"), T("k"), T("D"), T("R"), T("d")}
PolicyLetters == {T("A")[1], T("R")[1], T("T")[1], T("U")[1], T("W")[1], T("S")[1]}

(* ---- message layer ---------------------------------------------------- *)
ClientParamsOK(k, ps) ==        \* ps = parameters after <id> <ip> <port>
    CASE k \in {T("o"), T("U"), T("u"), T("N")} -> Len(ps) = 1 /\ NoSpace(ps[1])
      [] k = T("I") -> Len(ps) = 1 /\ IsAddrText(ps[1])
      [] k = T("M") -> Len(ps) = 1 /\ NoSpace(ps[1]) /\ ps[1][1] \in {43, 45}          \* +modes / -modes
      [] k \in {T("C"), T("k")} -> Len(ps) = 1
      [] k = T("D") -> Len(ps) = 0 \/ (Len(ps) = 1 /\ NoSpace(ps[1]))
      [] k = T("R") -> (Len(ps) = 1 \/ Len(ps) = 2) /\ \A n \in 1..Len(ps) : NoSpace(ps[n])
      [] k = T("d") -> Len(ps) = 0
      [] OTHER -> FALSE

IsClientMsg(p) == p # <<>> /\ p[1] \in ClientKinds

WellFormedParams(p) ==
    /\ p # <<>>
    /\ LET k == p[1] IN
       CASE k = T(">") -> Len(p) = 2
         [] k = T("G") -> Len(p) = 2 /\ IsInt(p[2])
         [] k = T("O") -> Len(p) = 2 /\ \A n \in 1..Len(p[2]) : p[2][n] \in PolicyLetters
         [] k = T("V") -> Len(p) = 2
         [] k \in {T("a"), T("s")} -> Len(p) = 1
         [] k \in {T("A"), T("S")} -> Len(p) = 3 /\ NoSpace(p[2])
         [] k = T("X") -> Len(p) = 4 /\ NoSpace(p[2]) /\ NoSpace(p[3])
         [] k \in ClientKinds -> /\ Len(p) >= 4
                                 /\ IsInt(p[2]) /\ IsAddrText(p[3]) /\ IsPort(p[4])
                                 /\ ClientParamsOK(k, SubSeq(p, 5, Len(p)))
         [] OTHER -> FALSE

WellFormed(line) == WellFormedParams(Lex(line))

(* ---- addressing -------------------------------------------------------- *)
\* ann: function id -> [addr |-> 8 groups as announced by the server, port |-> announced port]
\* "carries that client's id, an address text that denotes exactly the address the server announced for it
\*  (IPv4-compatible addresses canonicalise to IPv4-mapped), and the announced port"
Addressed(line, ann) ==
    LET p == Lex(line) IN
    IsClientMsg(p) /\ WellFormedParams(p) =>
        /\ IntVal(p[2]) \in DOMAIN ann
        /\ AD!Canon(AD!Denote(p[3])) = AD!Canon(ann[IntVal(p[2])].addr)
        /\ DecVal(p[4], 0) = ann[IntVal(p[2])].port

\* the address carried inside a query (CHECK nick user <ip> host :real / LOGIN2 <ip> host user cred) is the client's too
=============================================================================
