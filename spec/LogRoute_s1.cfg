SPECIFICATION Spec
VIEW View
CONSTANTS
    Sections <- TheSections
    U = "s1"
    PreReg <- PreModx
    DefTarget <- NoDefaults
    Bug <- NoBug
    MaxReloads = 1
    WithEmit = FALSE
    SampleK = 1
    SampleR = 0
INVARIANTS TypeOK RoutingIsDeclarative RoutingIsContract EmitWrites RefcountsExact HooksInstalled TreeIsSection
ACTION_CONSTRAINT EmitBehaviour
