------------------------------ MODULE MCIAuth ------------------------------
(***************************************************************************)
(* Model-checking harness: IAuth.tla (B) composed with the contract        *)
(* monitor IAuthContract.tla (A), a bounded environment that generates     *)
(* every kind of input line, and a history ghost (hidden by the VIEW) from *)
(* which TLC prints one complete behaviour per explored transition.        *)
(***************************************************************************)
EXTENDS IAuth, Json

CONSTANTS
    Ids,          \* client ids the environment uses
    MaxInst,      \* announcements per id
    MaxPw,        \* password lines per instance
    StrayLevel,   \* 0: no stray replies; 1: stale/unknown/malformed tags and unknown services with two reply kinds; 2: all kinds
    JunkOn,       \* BOOLEAN: junk lines
    EmitMod       \* print every EmitMod-th behaviour (1 = all, 0 = none)

VARIABLES
    cst,          \* contract state
    cviol,        \* conjuncts violated by the last step
    inst,         \* announcements so far, per id
    npw,          \* password lines in the current instance, per id
    oldtags,      \* routing tags of earlier instances, per id
    hist          \* history ghost: sequence of [e |-> event, o |-> output, n |-> in use]

A == INSTANCE IAuthContract

mcvars == <<serial, req, slots, ev, out, cst, cviol, inst, npw, oldtags, hist>>

ContractCfg == [svcs |-> Services, required |-> {"host", "ident", "nick", "user"}, timeout |-> TimeoutOn]

MCInit == /\ Init
          /\ cst = A!CInit(ContractCfg)
          /\ cviol = {}
          /\ inst = [i \in Ids |-> 0]
          /\ npw = [i \in Ids |-> 0]
          /\ oldtags = [i \in Ids |-> {}]
          /\ hist = <<>>

SvcNameSet == {Services[n].name : n \in 1..Len(Services)}

\* texts: <<ref, full length>>
TNick == <<"n1", 5>>
THost == <<"h1", 12>>
TIdent == <<"i1", 4>>
TUser == <<"c1", 6>>
TReal == <<"r1", 11>>
TCred == <<"p1", 10>>
TAcct == <<"ac1", 8>>
TText == <<"t1", 9>>

ModeChoices == { <<"+", "x">>, <<"+", "!">>, <<"-", "!">> }
ModeName(m) == m[1] \o m[2]

DataEvents(i) ==
    { [e |-> "N", id |-> i, host |-> THost], [e |-> "d", id |-> i],
      [e |-> "u", id |-> i, ident |-> TIdent], [e |-> "u0", id |-> i],
      [e |-> "n", id |-> i, nick |-> TNick],
      [e |-> "U", id |-> i, user |-> TUser, tilde |-> 0, real |-> TReal],
      [e |-> "H", id |-> i] }

PasswordEvents(i) ==
    { [e |-> "P", id |-> i, shape |-> "ok", modes |-> m, cred |-> TCred, raw |-> <<"P" \o ModeName(m), 0>>] : m \in ModeChoices }
    \cup { [e |-> "P", id |-> i, shape |-> "nomode", modes |-> <<>>, cred |-> TCred, raw |-> <<"Pbad", 0>>] }

ReplyKinds == {"OK", "OKA", "OKE", "NO", "AGAIN", "MORE", "UNL", "JUNK"}
ReplyEv(s, tag, k) == [e |-> "X", svc |-> s, tag |-> tag, kind |-> k, acct |-> TAcct, text |-> TText]

\* replies a service that is awaited may send (all kinds), to the current instance of i
AwaitedReplies(i) ==
    IF ~Live(i) THEN {}
    ELSE { ReplyEv(slots[s].name, Routing(i, req[i].serial), k) : s \in req[i].ref, k \in ReplyKinds }

\* strays: not-awaited service / unknown service for the current tag; stale, malformed tags
StrayKinds == IF StrayLevel >= 2 THEN ReplyKinds \ {"JUNK"} ELSE {"OKA", "NO"}
StrayReplies(i) ==
    IF StrayLevel = 0 THEN {}
    ELSE LET cur == IF Live(i) THEN {Routing(i, req[i].serial)} ELSE {}
             notAwaited == IF Live(i) THEN (SvcNameSet \cup {"zz.unknown"}) \ {slots[s].name : s \in req[i].ref} ELSE {}
             badtags == oldtags[i] \cup {Hex(i), Hex(i) \o "_1x", "_", "zz_1"}
         IN { ReplyEv(s, t, k) : s \in notAwaited, t \in cur, k \in StrayKinds }
            \cup { ReplyEv(s, t, k) : s \in SvcNameSet, t \in badtags, k \in StrayKinds }

JunkEvents(i) ==
    IF ~JunkOn THEN {}
    ELSE { [e |-> "J", shape |-> "drop", form |-> f, id |-> i] : f \in {"idonly", "blank", "nopar", "unkcmd", "shortC", "shortX", "unkid"} }
         \cup { [e |-> "J", shape |-> "m1", cmd |-> "N", id |-> i], [e |-> "J", shape |-> "Ushort", id |-> i] }

Events ==
    UNION {
      (IF inst[i] < MaxInst THEN {[e |-> "C", id |-> i, addr |-> "A" \o Hex(i), port |-> 1000 + i]} ELSE {})
      \cup (IF Live(i) THEN DataEvents(i) \cup {[e |-> "D", id |-> i], [e |-> "T", id |-> i]} ELSE {})
      \cup (IF Live(i) /\ npw[i] < MaxPw THEN PasswordEvents(i) ELSE {})
      \cup (IF Live(i) /\ req[i].timer = "armed" THEN {[e |-> "TO", id |-> i]} ELSE {})
      \cup AwaitedReplies(i) \cup StrayReplies(i) \cup JunkEvents(i)
      : i \in Ids }

MCNext ==
    \E e \in Events :
       /\ Step(e)
       /\ LET r == A!CStep(cst, e, out', Cardinality(DOMAIN req')) IN
            /\ cst' = r.c
            /\ cviol' = r.v
       /\ inst' = IF e.e = "C" THEN [inst EXCEPT ![e.id] = @ + 1] ELSE inst
       /\ npw' = IF e.e = "C" THEN [npw EXCEPT ![e.id] = 0]
                 ELSE IF e.e = "P" THEN [npw EXCEPT ![e.id] = @ + 1] ELSE npw
       /\ oldtags' = IF e.e = "C" /\ Live(e.id)
                     THEN [oldtags EXCEPT ![e.id] = @ \cup {Routing(e.id, req[e.id].serial)}]
                     ELSE IF e.e \in {"D", "T"} /\ Live(e.id)
                     THEN [oldtags EXCEPT ![e.id] = @ \cup {Routing(e.id, req[e.id].serial)}]
                     ELSE oldtags
       /\ hist' = Append(hist, [e |-> e, o |-> out', n |-> Cardinality(DOMAIN req')])

MCSpec == MCInit /\ [][MCNext]_mcvars

\* state identity: everything but the ghosts (cviol stays in: a violating step must not be deduplicated away)
SlotsNoRefs == [s \in 1..Len(slots) |-> [slots[s] EXCEPT !.refs = 0]]
MCView == <<serial, req, SlotsNoRefs, cst, cviol, inst, npw, oldtags>>

\* one complete behaviour per explored transition
Emit == \/ EmitMod = 0
        \/ (EmitMod > 1 /\ RandomElement(1..EmitMod) # 1)
        \/ PrintT("@@E" \o ToJson(hist'))

\* contract conjuncts, one invariant each so that TLC names the property
P01_once    == "P01_once" \notin cviol
P02_gate    == "P02_gate" \notin cviol
P03_prompt  == "P03_prompt" \notin cviol
P04_stray   == "P04_stray" \notin cviol
P05_content == "P05_content" \notin cviol
P06_queries == "P06_queries" \notin cviol
P07_scope   == "P07_scope" \notin cviol
P09_wire    == "P09_wire" \notin cviol
P10_count   == "P10_count" \notin cviol
P17_config  == "P17_config" \notin cviol

\* contract state and implementation state agree on who is live and who is awaited (refinement mapping sanity)
Agree == /\ DOMAIN cst.cl = DOMAIN req
         /\ \A i \in DOMAIN req :
              /\ cst.cl[i].owes = {slots[s].name : s \in req[i].ref}
              /\ cst.cl[i].expired = req[i].timedout
              /\ (cst.cl[i].acct = A!Nil) = (req[i].account = Nil)

\* ---- configurations (cfg files cannot hold sequences) ----
S_q1 == << [name |-> "a1.svc", type |-> "login"], [name |-> "b2.svc", type |-> "dronecheck"] >>
S_t1a == << [name |-> "a1.svc", type |-> "login"], [name |-> "b2.svc", type |-> "combined"], [name |-> "c3.svc", type |-> "dronecheck"] >>
S_t1b == << [name |-> "a1.svc", type |-> "login-ipr"], [name |-> "b2.svc", type |-> "dronecheck"] >>
S_t1c == << [name |-> "a1.svc", type |-> "login"], [name |-> "b2.svc", type |-> "login"] >>
S_t1d == << [name |-> "a1.svc", type |-> "combined"] >>
S_none == << >>
NoBug == {}
BugD2 == {"D2"}
BugD3 == {"D3"}
BugD4 == {"D4"}
BugD15 == {"D15"}
Ids1 == {5}
Ids2 == {5, 6}
=============================================================================
