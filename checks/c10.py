"""C10 Request bookkeeping balances over any history.

Specification
  spec/BookLedger.tla  resource ledger: request nodes, per-module client records, timer objects, pending timers and the
                       statistics counters, updated call by call as iauth_core.c / set.c / iauth_xquery.c allocate and
                       release them (set_insert replacement, set_remove, iauth_req_cleanup, evtimer_new/add, event_free)
  spec/MCBook.tla      IAuth.tla (B) x IAuthContract.tla (A) x ledger, exhaustive: ledger = live requests exactly, data and
                       timers exactly for live requests, every pending timer owned by a request in the table, in-use =
                       |table| = |contract's live clients| (P10_count, TimerSane and the other invariants of MCIAuth too)
  spec/BookLong.tla    abstract bookkeeping spec for many ids: exhaustive for 2-3 ids (hook timeouts and clock), and the
                       generator (TLC -simulate) of long histories over 16 ids and of timed histories for real timers
  spec/BookTrace.tla   trace validation: contract monitor (oracle), IAuth.tla and the ledger's counters (drift)

Conformance on the real ASan+LSan daemon
  (i)   one behaviour per sampled transition of the exhaustive MCBook graphs, barrier after every line, every process ends
        with end of input (every second process with the last behaviour's requests still pending);
  (ii)  long histories (thousands of steps, 16 ids, duplicate announcements, D/T at every stage, stale replies);
  (iii) real timers (`iauth { timeout N }`, no hook): wall-clock tick schedule, requests finished / replaced before their
        deadline and requests whose timer fires while they are pending; the clock runs past every deadline ever set.
"""
import json
import os
import threading
import time
from concurrent.futures import ThreadPoolExecutor

from vlib import c10run as C
from vlib import iauthrun as R
from vlib.core import MachineryError

LEVEL = "model_checking"
TITLE = "request bookkeeping balances (in-use count, clean release of requests, module data and timers, no dead timer fires)"
OWN_HOOK = {"P10_count"}
# with real timers the only difference to the hook-mode runs is the timer itself: what it wrongly does shows up as
# output for a finished / replaced request, a missing or premature acceptance, a wrong count, a crash
OWN_RT = {"P10_count", "C10_quiet", "P01_once", "P02_gate", "P03_prompt", "P07_scope"}


class Plan:
    def __init__(self, name, table, emit_mod, workers=8, nproc=8, **mc):
        self.name, self.table, self.emit_mod, self.workers, self.nproc, self.mc = name, table, emit_mod, workers, nproc, mc


def config(ctx):
    q = ctx.tier == "quick"
    if q:
        return dict(
            plans=[Plan("q1i2", "S_q1", 120, workers=10, nproc=6, max_inst=2, max_pw=1),
                   Plan("t1di4", "S_t1d", 40, workers=3, nproc=2, max_inst=4, max_pw=0, pw_on=False),
                   Plan("q1i3nt", "S_q1", 25, workers=3, nproc=2, max_inst=3, max_pw=0, pw_on=False, stray=1, timeout_on=False)],
            long_mc=[("x1", [1], dict(max_serial=4, workers=2)),
                     ("x1rt", [1], dict(max_serial=4, real_time=True, workers=2))],
            long_gen=dict(jvms=3, num=2, depth=2500, ids=16), long_gen_nt=dict(jvms=1, num=2, depth=1500), very_long=None,
            rt=dict(seconds=1, from_plan=48, long_num=16, long_depth=50, long_ids=8),
            per_proc=40, nproc=3)
    return dict(
        plans=[Plan("q1i3", "S_q1", 200, workers=16, nproc=12, max_inst=3, max_pw=1),
               Plan("t1di4", "S_t1d", 150, workers=16, nproc=12, max_inst=4, max_pw=1, stray=1),
               Plan("t1ai3", "S_t1a", 60, workers=8, nproc=8, max_inst=3, max_pw=0, pw_on=False, stray=1),
               Plan("q1i3nt", "S_q1", 100, workers=16, nproc=12, max_inst=3, max_pw=1, timeout_on=False),
               Plan("two", "S_t1d", 80, workers=8, nproc=8, ids="Ids2", max_inst=1, max_pw=0, pw_on=False)],
        long_mc=[("x2", [1, 2], dict(max_serial=3, workers=16)),
                 ("x2rt", [1, 2], dict(max_serial=2, real_time=True, workers=16)),
                 ("x3", [1, 2, 3], dict(max_serial=2, workers=16))],
        long_gen=dict(jvms=8, num=8, depth=5000, ids=16), long_gen_nt=dict(jvms=2, num=8, depth=5000),
        very_long=dict(jvms=4, depth=40000, ids=24),
        rt=dict(seconds=2, from_plan=220, long_num=80, long_depth=110, long_ids=12, also_seconds=1, concurrent=False,
                threads=100),
        per_proc=40, nproc=12)


def _rt_part(ctx, cfg, plan_beh, svcs, box):
    """Real timers (runs in its own thread: the daemons are asleep most of the time)."""
    try:
        rc = cfg["rt"]
        rng = ctx.rng.__class__(ctx.seed + 77)
        # three classes of single-client behaviours (by the model's own account of them):
        #   R  a live request with a pending timer is replaced by a re-announcement (its timer must die with it)
        #   F  a timer fires while its request is pending
        #   O  the rest: requests finished by verdict / D / T before their deadline
        def replaced(b):
            prev, armed = 0, False
            for s in b:
                k = s["e"]["e"]
                if k == "C":
                    if s["n"] == prev and armed:
                        return True
                    armed = True
                elif k == "TO":
                    armed = False
                prev = s["n"]
            return False
        cls = {"R": [], "F": [], "O": []}
        for b in plan_beh:
            cls["R" if replaced(b) else "F" if any(s["e"]["e"] == "TO" for s in b) else "O"].append(b)
        for v in cls.values():
            rng.shuffle(v)
        n = rc["from_plan"]
        want = {"R": n // 2, "F": (3 * n) // 10}
        want["O"] = n - want["R"] - want["F"]
        hs = []
        for c in ("R", "F", "O"):
            for i, b in enumerate(cls[c][:want[c]]):
                if c == "R":
                    # two of three: the new instance stays pending (hurried) while the clock passes the old deadline
                    keep = i % 3 != 2
                    hs.append(C.to_timed(b, wait_out=True, cleanup=not keep, late_replace=(i % 2 == 0), probe_hurry=keep))
                else:
                    hs.append(C.to_timed(b, wait_out=(i % 3 != 0), cleanup=(i % 2 == 0), probe_hurry=(i % 4 == 1)))
        box["classes"] = {c: min(len(cls[c]), want[c]) for c in cls}
        r, lb = C.long_generate(ctx, "rt", list(range(1, rc["long_ids"] + 1)), depth=rc["long_depth"], num=rc["long_num"],
                                real_time=True, seed=ctx.seed + 5)
        hs2 = [C.long_to_timed(b, wait_out=(i % 3 != 0)) for i, b in enumerate(lb)]
        hs = [C.rt_with_reload(h, svcs, i) for i, h in enumerate(hs)]
        hs2 = [C.rt_with_reload(h, svcs, i) for i, h in enumerate(hs2)]
        runs = []
        for secs in [rc["seconds"]] + ([rc["also_seconds"]] if rc.get("also_seconds") else []):
            timing = C.Timing(secs)
            t0 = time.time()
            allh = hs + hs2
            out = C.rt_replay(ctx, allh, svcs, timing, tag="rt%d" % secs, nthreads=rc.get("threads", 96))
            if out["inconclusive"]:
                # second chance with little concurrency for the histories whose schedule could not be kept
                idx = out["inconclusive"]
                out2 = C.rt_replay(ctx, [allh[i] for i in idx], svcs, timing, tag="rt%db" % secs, nthreads=12, retries=1)
                for j, i in enumerate(idx):
                    out["records"][i] = out2["records"][j]
                out["late_attempts"] += out2["late_attempts"]
                C.rt_rewrite(out)
            runs.append((timing, out, time.time() - t0))
        box["rt"] = (hs + hs2, len(hs), runs)
    except BaseException as e:      # noqa: reported by the main thread
        box["err"] = e


def run(ctx):
    cfg = config(ctx)
    ctx.cov["rule"] = (
        "hook-mode histories = one behaviour (shortest path + the transition + probe tail) per sampled transition of the "
        "exhaustively explored MCBook graphs (re-announcement of live ids, D/T at every stage, timeout before/after "
        "replies, stale replies) and long BookLong-generated histories over 16 ids, each step barriered and judged by TLC "
        "(P10_count, clean end of input, ledger counters); real-timer histories = the same single-client behaviours and "
        "BookLong clock histories on a wall-clock tick schedule (no hook); distinct = distinct event sequences")
    ctx.assumptions += [
        "output is attributed to steps by the `-1 ? stats2` barrier (single-threaded daemon, every line flushed)",
        "hook-mode runs: the request timeout fires only where `<id> ! timeout` is sent (timeout 1h configured)",
        "real-timer runs: a request announced in tick window k has its deadline strictly between windows k+2 and k+3 "
        "(timeout = 2.5 ticks); runs whose measured send/acknowledge times left their window are discarded and retried",
        "release of memory is observed through LeakSanitizer/AddressSanitizer at process exit and the exit status",
        "the in-use number is the `<n> in use` field of the statistics line; the alloc/free counters are compared with "
        "the ledger as drift only (the code does not count requests disposed by replacement or at exit as frees)"]
    rep = C.Reporter(ctx, OWN_HOOK, OWN_RT)
    obs = {"steps": 0, "inuse_reports": 0, "eof": 0, "eof_clean": 0, "eof_pending": 0, "replacements": 0, "announcements": 0,
           "verdicts": 0, "withdrawn": 0, "hook_timeouts": 0, "max_inuse": 0}
    model = {"replacements": 0, "withdrawn": 0, "timeouts": 0, "verdicts": 0, "end_pending": 0}
    distinct = set()
    t_all = time.time()
    rl_rng = ctx.rng.__class__(ctx.seed + 4242)

    # ---- 1. TLC: exhaustive runs (B x A x ledger; abstract spec), generation of long histories -----------------------
    pool = ThreadPoolExecutor(24)
    f_plans = [pool.submit(C.book_model_check, ctx, p.name, p.table, workers=p.workers, emit_mod=p.emit_mod, **p.mc)
               for p in cfg["plans"]]
    f_longmc = [pool.submit(C.long_model_check, ctx, name, ids, **kw) for name, ids, kw in cfg["long_mc"]]
    lg = cfg["long_gen"]
    f_gen = [pool.submit(C.long_generate, ctx, "g%d" % j, list(range(1, lg["ids"] + 1)), lg["depth"], lg["num"],
                         seed=ctx.seed * 100 + j) for j in range(lg["jvms"])]
    nt = cfg.get("long_gen_nt")
    f_gen_nt = [pool.submit(C.long_generate, ctx, "n%d" % j, list(range(1, lg["ids"] + 1)), nt["depth"], nt["num"],
                            timeout_on=False, seed=ctx.seed * 100 + 30 + j) for j in range(nt["jvms"])] if nt else []
    if cfg["very_long"]:
        vl = cfg["very_long"]
        f_gen += [pool.submit(C.long_stream, ctx, "v%d" % j, list(range(1, vl["ids"] + 1)), vl["depth"],
                              seed=ctx.seed * 100 + 50 + j) for j in range(vl["jvms"])]

    # ---- 2. per plan: replay with the hook, validate, report; the first plan also feeds the real-timer thread -------
    box = {}
    rt_thread = None
    for p, fut in zip(cfg["plans"], f_plans):
        t0 = time.time()
        r, beh = fut.result()
        ctx.model_checked(r)
        svcs = R.SERVICE_TABLES[p.table]
        timeout_on = p.mc.get("timeout_on", True)
        if rt_thread is None:
            single = [b for b in beh if len({s["e"]["id"] for s in b if "id" in s["e"]}) <= 1]
            rt_thread = threading.Thread(target=_rt_part, args=(ctx, cfg, single, svcs, box))
            if cfg["rt"].get("concurrent", True):
                rt_thread.start()
        behaviours = [[s["e"] for s in b] for b in beh]
        tails = [R.probe_tail(b, svcs) for b in behaviours]
        # every third behaviour: the operator changes `iauth { timeout }` and reloads while the requests are pending
        behaviours = [C.with_reloads(b, svcs, timeout_on, rl_rng, 6) if i % 3 == 1 else b for i, b in enumerate(behaviours)]
        # every second one: the same history with ids from another part of the int range
        behaviours = [C.shift_ids(b, i) for i, b in enumerate(behaviours)]
        tails = [C.shift_ids(t, i) for i, t in enumerate(tails)]
        for b in beh:       # what the model says these behaviours exercise (independent of the code under test)
            prev = 0
            for s in b:
                if s["e"]["e"] == "C" and s["n"] == prev:
                    model["replacements"] += 1
                elif s["e"]["e"] in ("D", "T") and s["n"] < prev:
                    model["withdrawn"] += 1
                elif s["e"]["e"] == "TO":
                    model["timeouts"] += 1
                model["verdicts"] += sum(1 for m in s["o"] if m["k"] in ("D", "R", "k"))
                prev = s["n"]
            model["end_pending"] += 1 if prev > 0 else 0
        t1 = time.time()
        res = C.hook_replay(ctx, behaviours, svcs, timeout_on, nproc=p.nproc, tag=p.name, tails=tails,
                            per_proc=cfg["per_proc"], live_every=2)
        t2 = time.time()
        vals = C.validate_many(ctx, res, nthreads=p.nproc)
        t3 = time.time()
        nf = 0
        for x, v in zip(res, vals):
            rep.hook("plan %s/%s" % (p.name, p.table), x, v, behaviours, tails, svcs, timeout_on, table=p.table)
            nf += len(v[0])
            _observe(x["trace"], obs)
        steps = sum(x["steps"] for x in res)
        ctx.cov["evaluations"] += steps
        ctx.cov["traces_validated_against_impl"] += len(behaviours)
        for b in behaviours:
            if len(b) >= 2:
                distinct.add(R.hist_short(b))
        for b in sorted(behaviours, key=len)[-1:]:
            ctx.sample({"plan": p.name, "history": R.hist_short(b)})
        ctx.note("plan %s/%s%s: MCBook %d states %d transitions, ledger invariants hold (TLC %.0fs incl. wait); %d behaviours, "
                 "%d steps replayed (%.0fs), validated by TLC BookTrace (%.0fs); %d contract findings"
                 % (p.name, p.table, "" if timeout_on else " [no timeout]", r.distinct, r.generated, t1 - t0, len(behaviours),
                    steps, t2 - t1, t3 - t2, nf))
        _unlink(res)

    # ---- 3. abstract spec: exhaustive runs ------------------------------------------------------------------------
    for (name, ids, kw), fut in zip(cfg["long_mc"], f_longmc):
        r = fut.result()
        ctx.model_checked(r)
        ctx.note("BookLong/%s: ids %s, %s: %d states %d transitions, ledger invariants hold (%.0fs)"
                 % (name, ids, {k: v for k, v in kw.items() if k != "workers"}, r.distinct, r.generated, r.wall_s))

    # ---- 4. long histories (with a configured timeout: hook; and without one) -------------------------------------
    svcs = R.SERVICE_TABLES["S_q1"]
    lh = {"count": 0, "steps": 0, "longest": 0, "announcements": 0, "ids": lg["ids"], "without_timeout": 0}
    for timeout_on, futs in ((True, f_gen), (False, f_gen_nt)):
        longs = []
        for fut in futs:
            r, lb = fut.result()
            longs += [[dict(s["e"], pn=s["pn"]) for s in b] for b in lb]
        if not longs:
            continue
        longs = [C.shift_ids(C.with_reloads(h, svcs, timeout_on, rl_rng, 150), i) for i, h in enumerate(longs)]
        t1 = time.time()
        res = C.hook_replay(ctx, longs, svcs, timeout_on, nproc=cfg["nproc"], tag="long%d" % timeout_on, per_proc=1,
                            live_every=2)
        t2 = time.time()
        vals = C.validate_many(ctx, res, nthreads=cfg["nproc"])
        t3 = time.time()
        plain = [[{k: v for k, v in e.items() if k != "pn"} for e in h] for h in longs]
        for x, v in zip(res, vals):
            rep.hook("long history (BookLong, %d ids%s)" % (lg["ids"], "" if timeout_on else ", no timeout"), x, v, plain, None,
                     svcs, timeout_on, table="S_q1")
            _observe(x["trace"], obs)
        steps = sum(x["steps"] for x in res)
        ctx.cov["evaluations"] += steps
        ctx.cov["traces_validated_against_impl"] += len(longs)
        for h in plain:
            distinct.add(hash(json.dumps(h, sort_keys=True)))
        for h in longs:
            prev = 0
            for e in h:
                if e["e"] == "RL":
                    continue
                if e["e"] == "C" and e["pn"] == prev:
                    model["replacements"] += 1
                prev = e["pn"]
        lh["count"] += len(longs)
        lh["steps"] += steps
        lh["longest"] = max(lh["longest"], max(len(h) for h in longs))
        lh["announcements"] += sum(1 for h in longs for e in h if e["e"] == "C")
        lh["without_timeout"] += 0 if timeout_on else len(longs)
        if timeout_on:
            ctx.sample({"long": C.ev_sig(plain[0][:40]) + " ..."})
        ctx.note("long histories%s: %d histories, %d steps (longest %d) replayed (%.0fs), validated by TLC (%.0fs)"
                 % ("" if timeout_on else " [no timeout]", len(longs), steps, max(len(h) for h in longs), t2 - t1, t3 - t2))
        _unlink(res)
    ctx.cov["long_histories"] = lh

    # ---- 5. real timers --------------------------------------------------------------------------------------------
    if not cfg["rt"].get("concurrent", True):
        rt_thread.start()           # thorough: hundreds of daemons on a wall-clock schedule, after the CPU-bound work
    rt_thread.join()
    if "err" in box:
        raise box["err"]
    hs, nplan, runs = box["rt"]
    rts = {"histories": 0, "from_exhaustive_behaviours": nplan, "records": 0, "wait_records": 0, "timer_firings": 0,
           "firings_with_output": 0, "eof_clean": 0, "eof": 0, "late_attempts": 0, "inconclusive": 0}
    for timing, out, wall in runs:
        t2 = time.time()
        vals = C.validate(ctx, out["trace"], out["lines"]) if out["lines"] else ([], [], [], [])
        rep.rt("real timers, timeout %d s" % timing.seconds, out, vals, hs, R.SERVICE_TABLES[cfg["plans"][0].table], timing)
        for hi, recs in enumerate(out["records"]):
            if recs is None:
                continue
            rts["histories"] += 1
            ctx.cov["traces_validated_against_impl"] += 1
            distinct.add("rt:" + C.ev_sig(hs[hi]))
            for rr in recs:
                rts["records"] += 1
                if rr["e"] == "W":
                    rts["wait_records"] += 1
                elif rr["e"] == "S":
                    ctx.cov["evaluations"] += 1
                    if rr["ev"]["e"] == "TO":
                        rts["timer_firings"] += 1
                        rts["firings_with_output"] += 1 if rr["o"] else 0
                elif rr["e"] == "Eof":
                    rts["eof"] += 1
                    rts["eof_clean"] += 1 if (rr["exit"] == 0 and not rr["san"]) else 0
        rts["late_attempts"] += out["late_attempts"]
        rts["inconclusive"] += len(out["inconclusive"])
        ctx.note("real timers (timeout %d s, tick %.2f s): %d timed histories on %d daemons (%.0fs wall), %d schedule misses "
                 "retried, %d inconclusive; validated by TLC (%.0fs)"
                 % (timing.seconds, timing.tau, len(hs), len(hs), wall, out["late_attempts"], len(out["inconclusive"]),
                    time.time() - t2))
    for h in hs[:2]:
        ctx.sample({"timed": C.ev_sig(h)})
    rts["classes_of_exhaustive_behaviours"] = box.get("classes")
    ctx.cov["real_timers"] = rts
    rep.finish()
    pool.shutdown()

    # ---- anti-vacuity ---------------------------------------------------------------------------------------------
    ctx.cov["distinct_nontrivial"] = len(distinct)
    ctx.cov["observed"] = obs
    ctx.cov["model_says_exercised"] = model
    ctx.cov["exhaustive"] = False
    if ctx.violations:
        return                      # the findings are the result; the counts below describe a run on correct code
    for k, v in model.items():
        if not v:
            raise MachineryError("vacuous run: the replayed model behaviours contain no %s" % k)
    if obs["inuse_reports"] != obs["steps"]:
        raise MachineryError("vacuous: %d of %d steps carried no in-use number" % (obs["steps"] - obs["inuse_reports"], obs["steps"]))
    for k in ("eof", "eof_pending", "verdicts", "hook_timeouts"):
        if not obs[k]:
            raise MachineryError("vacuous run: no %s observed in the hook-mode traces" % k)
    for k in ("wait_records", "timer_firings", "firings_with_output", "eof"):
        if not rts[k]:
            raise MachineryError("vacuous run: no %s in the real-timer traces" % k)
    if not (box.get("classes") or {}).get("R"):
        raise MachineryError("vacuous run: no real-timer history replaces a request whose timer is pending")
    if rts["inconclusive"] * 4 > max(1, len(hs) * len(runs)):
        raise MachineryError("real-timer schedule could not be kept on %d of %d runs (machine too loaded)"
                             % (rts["inconclusive"], len(hs) * len(runs)))
    ctx.note("total %.0fs" % (time.time() - t_all))


def _observe(trace, obs):
    """Counts over a recorded hook-mode trace (anti-vacuity numbers; no judgement)."""
    prev = None
    with open(trace) as f:
        for line in f:
            rec = json.loads(line)
            k = rec["e"]
            if k == "Eof":
                obs["eof"] += 1
                obs["eof_clean"] += 1 if (rec["exit"] == 0 and not rec["san"]) else 0
                if prev is not None and prev.get("n", 0) > 0:
                    obs["eof_pending"] += 1
            elif k == "S":
                obs["steps"] += 1
                if rec["n"] >= 0:
                    obs["inuse_reports"] += 1
                    obs["max_inuse"] = max(obs["max_inuse"], rec["n"])
                e = rec["ev"]["e"]
                if e == "C":
                    obs["announcements"] += 1
                    if prev is not None and prev["e"] == "S" and prev["n"] == rec["n"]:
                        obs["replacements"] += 1
                elif e in ("D", "T") and prev is not None and prev["e"] == "S" and rec["n"] < prev["n"]:
                    obs["withdrawn"] += 1
                elif e == "TO":
                    obs["hook_timeouts"] += 1
                for m in rec["o"]:
                    if m["k"] in ("D", "R", "k"):
                        obs["verdicts"] += 1
            prev = rec


def _unlink(res):
    for x in res:
        for p in (x["trace"], x["trace"] + ".idx"):
            try:
                os.unlink(p)
            except OSError:
                pass


def replay(ctx, body):
    rp = body["replay"]
    rep = C.Reporter(ctx, OWN_HOOK, OWN_RT)
    if rp["kind"] == "c10-rt":
        timing = C.Timing(rp["seconds"])
        hs = [rp["history"]]
        out = C.rt_replay(ctx, hs, rp["svcs"], timing, tag="replay", nthreads=1)
        if out["inconclusive"]:
            raise MachineryError("real-timer schedule could not be kept")
        vals = C.validate(ctx, out["trace"], out["lines"])
        rep.rt("replay", out, vals, hs, rp["svcs"], timing)
        n = out["lines"]
    else:
        beh = [rp["events"]]
        res = C.hook_replay(ctx, beh, rp["svcs"], rp.get("timeout_on", True), nproc=1, tag="replay", per_proc=1,
                            live_every=1 if rp.get("leave_live") else 10**9)
        vals = C.validate_many(ctx, res, nthreads=1)
        rep.hook("replay", res[0], vals[0], beh, None, rp["svcs"], rp.get("timeout_on", True), table=rp.get("table"))
        n = res[0]["steps"]
    rep.finish()
    ctx.cov["evaluations"] = n
    ctx.cov["distinct_nontrivial"] = 1
    ctx.cov["traces_validated_against_impl"] = 1
    ctx.cov["rule"] = "replay of one recorded history"
    ctx.cov["samples"] = [C.ev_sig(rp.get("events") or rp.get("history"))[:600]]
