-------------------------- MODULE MCReloadClassGen --------------------------
(***************************************************************************)
(* Property C17, class rules: seeded sampling model (INIT GenInit / NEXT   *)
(* GenNext, -workers 1): GenN chains  old -> new1 -> new2  of iauth_class  *)
(* sections over the rich pools of MCClassPools; each step of a chain is   *)
(* one edit of a stated KIND (add a rule, remove a rule, change / set /    *)
(* drop the class value in place, change / add / drop one criterion in     *)
(* place, rename a rule (changes the order), toggle trust_username, no     *)
(* change, two edits at once, an unrelated fresh section); clients are     *)
(* drawn so that every rule of every table of the chain is hit by one      *)
(* client where the pools hold matching values, plus GenM random clients.  *)
(* GenOk checks on every chain what MCReloadClass checks exhaustively on   *)
(* the small pools (vector after each reload = vector of a fresh start;    *)
(* P11 for every client); GenEmit prints the chain for the replay on the   *)
(* real daemon.                                                            *)
(***************************************************************************)
EXTENDS MCClassPools, ReloadCls, Json

CONSTANTS GenN, GenM

VARIABLES gk, gsv, gchain, gkinds, gc, gwant, gnm
gvars == <<gk, gsv, gchain, gkinds, gc, gwant, gnm>>

Pick(S) == RandomElement(S)
The(S) == CHOOSE x \in S : TRUE        \* binds one random draw (TLC re-evaluates RandomElement at every reference)
PickOr(S, D) == IF S = {} THEN Pick(D) ELSE Pick(S)

RBody(i) ==
    LET opt(P) == IF Pick(1..3) = 1 THEN Pick(P \ {None}) ELSE None
    IN  [class |-> IF Pick(1..2) = 1 THEN Pick(ClassP \ {None}) ELSE None,
         account |-> opt(AcctP), address |-> opt(AddrP), username |-> opt(UserP), hostname |-> opt(HostP),
         xreply_ok |-> opt(OkP), trust |-> Pick(1..3) = 1]

InjSeqs(n) == {s \in [1..n -> Names] : \A i, j \in 1..n : i # j => s[i] # s[j]}
RSection(k) == The({ [i \in 1..Len(ns) |-> MkRule(ns[i], RBody(i))] :
                  ns \in { Pick(InjSeqs(The({ IF n > MaxRules THEN MaxRules ELSE n : n \in { << 1, 2, 2, 3, 3 >>[Pick(1..5)] } }))) } })

UsedNames(l) == {l[i].name : i \in 1..Len(l)}
FreeNames(l) == {n \in Names : \A i \in 1..Len(l) : ~StrCaseEq(n, l[i].name)}
PoolOf(key) == CASE key = "account" -> AcctP [] key = "address" -> AddrP [] key = "username" -> UserP
                 [] key = "hostname" -> HostP [] key = "xreply_ok" -> OkP [] key = "class" -> ClassP
EditKeys == {"account", "address", "username", "hostname", "xreply_ok"}
RemoveIdx(l, i) == SubSeq(l, 1, i - 1) \o SubSeq(l, i + 1, Len(l))

\* one edit of kind k applied to listing l; an edit that is impossible on l (nothing to remove, no name left) leaves l unchanged
Edit1(l, k) ==
    IF k = "same" THEN l
    ELSE IF k = "add"
    THEN IF Len(l) >= MaxRules \/ FreeNames(l) = {} THEN l
         ELSE The({ SubSeq(l, 1, p) \o << MkRule(n, b) >> \o SubSeq(l, p + 1, Len(l)) :
                    n \in {Pick(FreeNames(l))}, b \in {RBody(Len(l))}, p \in {Pick(0..Len(l))} })
    ELSE IF l = << >> THEN l
    ELSE IF k = "remove" THEN The({ RemoveIdx(l, i) : i \in {Pick(1..Len(l))} })
    ELSE IF k = "class"
    THEN The({ The({ [l EXCEPT ![i].class = v] : v \in {PickOr(ClassP \ {l[i].class}, ClassP)} }) : i \in {Pick(1..Len(l))} })
    ELSE IF k = "crit"
    THEN The({ [l EXCEPT ![ik[1]][ik[2]] = PickOr(PoolOf(ik[2]) \ {l[ik[1]][ik[2]]}, PoolOf(ik[2]))] :
               ik \in {<< Pick(1..Len(l)), Pick(EditKeys) >>} })
    ELSE IF k = "rename"
    THEN IF FreeNames(l) = {} THEN l
         ELSE The({ [l EXCEPT ![i].name = n] : n \in {Pick(FreeNames(l))}, i \in {Pick(1..Len(l))} })
    ELSE IF k = "trust"
    THEN The({ [l EXCEPT ![i].trust = ~@] : i \in {Pick(1..Len(l))} })
    ELSE l

EditKinds == << "add", "remove", "class", "class", "crit", "crit", "crit", "rename", "trust", "same", "two", "fresh" >>
\* -> [l |-> new listing, k |-> kind]
Edit(l) == The({ [l |-> IF k = "two" THEN The({ Edit1(m, k2[2]) : m \in {Edit1(l, k2[1])} })
                        ELSE IF k = "fresh" THEN RSection(Len(l))
                        ELSE Edit1(l, k),
                  k |-> IF k = "two" THEN "two:" \o k2[1] \o "+" \o k2[2] ELSE k] :
                k2 \in {<< << "add", "remove", "class", "crit", "rename", "trust" >>[Pick(1..6)],
                          << "add", "remove", "class", "crit", "rename", "trust" >>[Pick(1..6)] >>},
                k \in {EditKinds[Pick(1..Len(EditKinds))]} })

\* a client meant to satisfy every criterion of rule r (where the pools hold a matching value)
XrOk(svcs, r) == {x \in XrSet(svcs) :
                     /\ \A i \in 1..Len(svcs) : ((x[i].ok /\ x[i].ref) => Len(svcs) >= 2)
                     /\ (Present(r.account) => (\E i \in 1..Len(svcs) : svcs[i].type # "dronecheck" /\ x[i].ok))
                     /\ (Present(r.xreply_ok) => (\E i \in 1..Len(svcs) : x[i].svc = Val(r.xreply_ok) /\ x[i].ok))}
HitClient(svcs, r) ==
    The({ [addr |-> PickOr({a \in CAddr : Present(r.address) => AddrMatches(Val(r.address), a)}, CAddr),
           host |-> PickOr({h \in CHost : Present(r.hostname) => Glob(Val(r.hostname), h)}, CHost),
           ident |-> PickOr({u \in CIdent : /\ (Present(r.username) => Glob(Val(r.username), u))
                                            /\ (r.trust => Untrusted(u))}, CIdent),
           user |-> Pick(CUser),
           acct |-> IF \E i \in 1..Len(svcs) : svcs[i].type # "dronecheck" /\ xr[i].ok
                    THEN (IF Present(r.account) THEN PickOr({a \in CAcct \ {<< >>} : Glob(Val(r.account), AcctName(a))}, {<< >>})
                          ELSE IF Pick(1..2) = 1 THEN Pick(CAcct \ {<< >>}) ELSE << >>)
                    ELSE << >>,
           xr |-> xr] : xr \in { PickOr(XrOk(svcs, r), {x \in XrSet(svcs) : \A i \in 1..Len(svcs) : (x[i].ok /\ x[i].ref) => Len(svcs) >= 2}) } })

RClient(svcs) ==
    The({ [addr |-> Pick(CAddr), host |-> Pick(CHost), ident |-> Pick(CIdent), user |-> Pick(CUser),
           acct |-> IF (\E i \in 1..Len(svcs) : svcs[i].type # "dronecheck" /\ xr[i].ok) /\ Pick(1..4) # 1
                    THEN Pick(CAcct \ {<< >>}) ELSE << >>,
           xr |-> xr] : xr \in { Pick({x \in XrSet(svcs) : \A i \in 1..Len(svcs) : (x[i].ok /\ x[i].ref) => Len(svcs) >= 2}) } })

RECURSIVE HitAll(_, _)
\* two edits of the SAME criterion of the same rule, one after the other (e.g. add a criterion, then change it in place:
\* the second reload meets the hooks installed - or not - by the first)
CritAt(l, i, key) == [l EXCEPT ![i][key] = PickOr(PoolOf(key) \ {l[i][key]}, PoolOf(key))]
SameCrit(old) == IF old = << >> THEN << [l |-> old, k |-> "same"], [l |-> old, k |-> "same"] >>
                 ELSE The({ The({ << [l |-> m1, k |-> "crit"], [l |-> CritAt(m1, ik[1], ik[2]), k |-> "crit:again"] >> :
                                  m1 \in {CritAt(old, ik[1], ik[2])} }) :
                            ik \in {<< Pick(1..Len(old)), Pick(EditKeys) >>} })

HitAll(svcs, l) == IF l = << >> THEN << >> ELSE << HitClient(svcs, l[1]) >> \o HitAll(svcs, Tail(l))

\* what the implementation-shaped spec predicts for client c under table l, and how many rules match (computed once per
\* (table, client): evaluating the address criteria is the expensive part)
WantOf(l, c) == Accept(ConfChanged(l), c)
NmOf(l, c) == Cardinality(Matching(Range(l), c))

GenInit == /\ gk \in 1..GenN
           /\ \E sv \in {SvcChoices[Pick(1..Len(SvcChoices))]} :
              \E old \in {RSection(gk)} :
              \E sc \in {IF Pick(1..4) = 1 THEN SameCrit(old) ELSE << >>} :
              \E e1 \in {IF sc # << >> THEN sc[1] ELSE Edit(old)} :
              \E e2 \in {IF sc # << >> THEN sc[2] ELSE Edit(e1.l)} :
              \E cl \in {HitAll(sv, e1.l) \o HitAll(sv, e2.l) \o [j \in 1..GenM |-> RClient(sv)]} :
                 /\ gsv = sv
                 /\ gchain = << old, e1.l, e2.l >>
                 /\ gkinds = << e1.k, e2.k >>
                 /\ gc = cl
                 /\ gwant = [t \in 1..3 |-> [j \in 1..Len(cl) |-> WantOf(<< old, e1.l, e2.l >>[t], cl[j])]]
                 /\ gnm = [t \in 1..3 |-> [j \in 1..Len(cl) |-> NmOf(<< old, e1.l, e2.l >>[t], cl[j])]]
GenNext == UNCHANGED gvars

\* the module's state along the chain
GS1 == FreshCls(gchain[1])
GS2 == LET s == GS1 IN ReloadCls(s.tree, s.vec, gchain[2])
GS3 == LET s == GS2 IN ReloadCls(s.tree, s.vec, gchain[3])

\* the reloaded module's vector is the fresh one (so its answers are gwant), and gwant is the declarative outcome
GenOk == LET vs == << GS1.vec, GS2.vec, GS3.vec >>
         IN  \A t \in 1..3 :
                /\ vs[t] = ConfChanged(gchain[t])
                /\ \A j \in 1..Len(gc) :
                      LET o == gwant[t][j]
                          w == Outcome(Range(gchain[t]), gc[j])
                      IN  /\ Accepted(o) /\ o.cls = w.cls
                          /\ o.u = (IF w.trust THEN << StripTilde(gc[j].user) >> ELSE << >>)
                          /\ Consistent(gsv, gc[j])

GenEmit == PrintT("@@E" \o ToJson([svcs |-> gsv, chain |-> gchain, kinds |-> gkinds, clis |-> gc, want |-> gwant, nm |-> gnm]))

RB_none == {}
RB_D10 == {"D10"}
RB_NOKIDHOOK == {"NOKIDHOOK"}
RB_ACCUM == {"ACCUM"}
=============================================================================
