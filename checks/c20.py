"""C20 - module load / post-init / unload order (src/module.c).

Pipeline (DESIGN.md sections 2, 5.3, 6):

1. TLC model-checks spec/ModLoad.tla (B, the loader transcribed) against the ordering
   contract spec/ModLoadContract.tla (A) for every case of the tier's enumeration
   (a case = dependency graph + order of the module_depends() calls + listing + at most one
   module without a shared object + hook profile: which modules lack the optional entry points
   module_post_init / module_destructor / module_constructor -- the last only for modules that
   declare nothing) and prints every case together with the event log B predicts.  Random cases on 4-6 modules, and hook profiles for a sample of the enumerated
   cases whose profiles TLC does not enumerate, are drawn here (ctx.rng), handed to the same
   specification through a case file, and model-checked the same way.
2. Every case is rendered into a dependency file for the stub modules (harness/stubmod.c in
   eight variants: every combination of the three entry points; one copy per module name
   and variant), a library directory and a configuration, and the REAL daemon is started once
   per case.  The stubs' event log and the exit status are collected.
3. TLC validates every real log against the contract (spec/ModLoadTrace.tla).  This is the
   only source of VIOLATION.  A rejected case is re-run on a fresh process and judged again
   before it is reported.
4. The real log is compared with B's prediction; a difference the contract does not object
   to is DRIFT.

Python renders inputs, moves bytes, counts and compares two sequences for equality; it never
evaluates an ordering rule.
"""
import json
import multiprocessing
import os
import shutil
import signal
import subprocess
import time

from vlib import core, tlc as _tlc

LEVEL = "model_checking"
TITLE = "module load / post-init / unload order respects declared dependencies"

MAXMODS = 6
GRACE = 20.0            # seconds a daemon may take to stop by itself before it is stopped from outside
GRACE_AFTER_ANOMALY = 2.0
MAX_ANOMALIES = 12      # per worker: after that many externally stopped daemons the worker gives up
REAL_BUDGET_S = 620    # thorough: wall-clock budget for the daemon runs (cuts the 4-module enumeration only)
MIN_TAIL_S = 60        # ... of which at least this much for the 4-module enumeration
CHUNK = 20000           # trace lines per TLC validation run
INVARIANT_TO_CONJUNCT = lambda name: name.rstrip("_")


# ----------------------------------------------------------------------------------------
# cases
# ----------------------------------------------------------------------------------------

CASE_FIELDS = ("n", "deps", "list", "missing", "nopost", "nodtor", "noctor")


def anti_of(c):
    """edges declared from the other end: anti[p-1] = the modules p names with module_antidepends()"""
    return c.get("anti") or [[] for _ in range(c["n"])]


def case_key(c):
    return json.dumps([c["n"], c["deps"], c["list"], c["missing"], c["nopost"], c["nodtor"], c["noctor"]]
                      + ([anti_of(c)] if any(anti_of(c)) else []), separators=(",", ":"))


def graph_key(c):
    return json.dumps([c["n"], c["deps"], c["list"], c["missing"]] + ([anti_of(c)] if any(anti_of(c)) else []),
                      separators=(",", ":"))


def case_size(c):
    return (c["n"], sum(len(d) for d in c["deps"]), len(c["list"]), len(c["missing"]),
            len(c["nopost"]) + len(c["nodtor"]) + len(c["noctor"]), case_key(c))


def signature(c):
    deps = " ".join("m%d:%s" % (i + 1, ",".join(["m%d" % d for d in ds] + ["~m%d" % d for d in anti_of(c)[i]]))
                    for i, ds in enumerate(c["deps"]))
    sig = "%s | modules (%s) | no .so: %s" % (deps, ", ".join("m%d" % m for m in c["list"]),
                                             ",".join("m%d" % m for m in c["missing"]) or "-")
    if c.get("nopost"):
        sig += " | no post-init: " + ",".join("m%d" % m for m in c["nopost"])
    if c.get("nodtor"):
        sig += " | no destructor: " + ",".join("m%d" % m for m in c["nodtor"])
    if c.get("noctor"):
        sig += " | no constructor: " + ",".join("m%d" % m for m in c["noctor"])
    return sig


def with_defaults(c):
    """Replay bodies written before hook profiles existed (or before the constructor became part of
    them): every module has every entry point not mentioned."""
    c = dict(c)
    c.setdefault("nopost", [])
    c.setdefault("nodtor", [])
    c.setdefault("noctor", [])
    c.setdefault("anti", [[] for _ in range(c["n"])])
    return c


def draw_profile(rng, n, deps, missing, force=False):
    """Hook profile drawn at random: per case one probability for 'lacks module_post_init', one for
    'lacks module_destructor' (most stock modules lack one or both) and one for 'lacks
    module_constructor' (only modules that declare nothing can: a constructor is the only place to
    call module_depends() from).  force: not the full profile."""
    have = [m for m in range(1, n + 1) if m not in missing]
    silent = [m for m in have if not deps[m - 1]]
    while True:
        qp, qd = rng.choice([0.0, 0.3, 0.6, 0.9]), rng.choice([0.0, 0.3, 0.6, 0.9])
        qc = rng.choice([0.0, 0.0, 0.4, 0.8])
        nopost = [m for m in have if rng.random() < qp]
        nodtor = [m for m in have if rng.random() < qd]
        noctor = [m for m in silent if rng.random() < qc]
        if nopost or nodtor or noctor or not force or not have:
            return nopost, nodtor, noctor


def reach(deps, m):
    out, st = set(), [m]
    while st:
        x = st.pop()
        for y in deps[x - 1]:
            if y not in out:
                out.add(y)
                st.append(y)
    return out


def shape_counts(c):
    """Coverage counters only (syntactic): which absent-hook shapes does the case contain?"""
    n, deps = c["n"], c["deps"]

    def paths(a, b, depth=0):          # number of distinct dependency paths a -> b (acyclic graphs only)
        return 1 if a == b else sum(paths(y, b, depth + 1) for y in deps[a - 1])
    two_nopost = any(paths(a, b) >= 2 for b in c["nopost"] for a in range(1, n + 1) if a != b)
    nodtor_with_deps = any(deps[m - 1] for m in c["nodtor"])
    through = lambda hookless: any(y in hookless and z not in deps[x - 1] and z not in hookless and x not in hookless
                                   for x in range(1, n + 1) for y in deps[x - 1] for z in deps[y - 1])
    # a module without constructor that is not named in the list can only be loaded from inside another
    # module's module_depends() call; "mid": that call is not the last one of its constructor
    unlisted = [h for h in c["noctor"] if h not in c["list"]]
    nested = bool(unlisted)
    nested_mid = any(h in deps[x - 1][:-1] for h in unlisted for x in range(1, n + 1))
    listed_first = any(h in c["list"] and not any(h in reach(deps, x) for x in c["list"][:c["list"].index(h)])
                       for h in c["noctor"])
    two_noctor = any(paths(a, b) >= 2 for b in c["noctor"] for a in range(1, n + 1) if a != b)
    return {"two_paths_to_module_without_post_init": two_nopost,
            "module_without_destructor_has_dependencies": nodtor_with_deps,
            "post_init_order_only_through_hookless_module": through(c["nopost"]),
            "destructor_order_only_through_hookless_module": through(c["nodtor"]),
            "module_without_constructor_loaded_only_as_a_dependency": nested,
            "module_without_constructor_pulled_in_before_the_last_call_of_a_constructor": nested_mid,
            "module_without_constructor_listed_ahead_of_its_users": listed_first,
            "two_paths_to_module_without_constructor": two_noctor,
            "module_without_any_entry_point": any(m in c["nopost"] and m in c["nodtor"] for m in c["noctor"])}


def canon(n, deps, lst, missing, nopost=(), nodtor=(), noctor=()):
    """Restrict a drawn case to the modules the loader can ever touch (named in the list or pulled
    in by module_depends()) and rename them order-preservingly to 1..k.  Purely syntactic."""
    seen, stack = set(lst), list(lst)
    while stack:
        x = stack.pop()
        if x in missing:
            continue
        for y in deps[x - 1]:
            if y not in seen:
                seen.add(y)
                stack.append(y)
    order = sorted(seen)
    ren = {m: i + 1 for i, m in enumerate(order)}
    nd = [[ren[y] for y in (deps[m - 1] if m not in missing else [])] for m in order]
    return {"n": len(order), "deps": nd, "list": [ren[m] for m in lst],
            "missing": sorted(ren[m] for m in missing if m in ren),
            "nopost": sorted(ren[m] for m in nopost if m in ren and m not in missing),
            "nodtor": sorted(ren[m] for m in nodtor if m in ren and m not in missing),
            "noctor": sorted(ren[m] for m in noctor if m in ren and m not in missing and not deps[m - 1])}


def random_case(rng, n, style):
    """style: 'dag' (edges follow a random hidden order: acyclic), 'any' (arbitrary digraph,
    self-dependencies possible)."""
    p = rng.choice([0.15, 0.3, 0.45, 0.6])
    hidden = list(range(1, n + 1))
    rng.shuffle(hidden)
    rank = {m: i for i, m in enumerate(hidden)}
    deps = []
    for m in range(1, n + 1):
        ds = []
        for t in range(1, n + 1):
            if style == "dag":
                ok = rank[t] > rank[m]
            else:
                ok = t != m or rng.random() < 0.15
            if ok and rng.random() < p:
                ds.append(t)
        if rng.random() < 0.7:
            rng.shuffle(ds)           # order of the module_depends() calls
        deps.append(ds)
    k = rng.randint(1, n)
    lst = rng.sample(range(1, n + 1), k)
    missing = []
    if rng.random() < 0.12:
        leaves = [m for m in range(1, n + 1) if not deps[m - 1]]
        if leaves:
            missing = [rng.choice(leaves)]
    nopost, nodtor, noctor = draw_profile(rng, n, deps, missing)
    return canon(n, deps, lst, missing, nopost, nodtor, noctor)


def diamond(nopost=(), nodtor=(), noctor=()):
    return {"n": 4, "deps": [[2, 3], [4], [4], []], "list": [1], "missing": [],
            "nopost": list(nopost), "nodtor": list(nodtor), "noctor": list(noctor)}


def triangle_nopost_bottom():
    """m1 -> {m2, m3}, m2 -> m3; m3 (reached along two paths in m1's walk) has no module_post_init."""
    return {"n": 3, "deps": [[2, 3], [3], []], "list": [1], "missing": [], "nopost": [3], "nodtor": [],
            "noctor": []}


def chain_nodtor_top():
    """m3 -> m2 -> m1; m3 has no module_destructor (and the dependencies sort before their dependents)."""
    return {"n": 3, "deps": [[], [1], [2]], "list": [3], "missing": [], "nopost": [], "nodtor": [3],
            "noctor": []}


def helper_pulled_in():
    """m1 -> m2; only m1 is named in the configuration; m2 (a plain library of helper functions) has no
    module_constructor and is first loaded from inside m1's module_depends() call."""
    return {"n": 2, "deps": [[2], []], "list": [1], "missing": [], "nopost": [], "nodtor": [], "noctor": [2]}


def helper_among_others(lst=(1,), noctor=(2,)):
    """m1 -> {m2, m3, m4} in that call order, m3 -> m4; m2 has no module_constructor."""
    return {"n": 4, "deps": [[2, 3, 4], [], [4], []], "list": list(lst), "missing": [],
            "nopost": [], "nodtor": [], "noctor": list(noctor)}


def anti_chain():
    return with_defaults({"n": 3, "deps": [[], [], []], "anti": [[], [3], [1]], "list": [1, 3, 2], "missing": []})


def fixed_cases():
    return [diamond(), diamond(nopost=[4]), diamond(nodtor=[2, 3]), diamond(nopost=[2, 3, 4], nodtor=[1, 2, 3, 4]),
            triangle_nopost_bottom(), chain_nodtor_top(),
            helper_pulled_in(), diamond(noctor=[4]), diamond(nopost=[4], nodtor=[4], noctor=[4]),
            helper_among_others(), helper_among_others(lst=(3, 1)), helper_among_others(lst=(2, 1)),
            helper_among_others(noctor=(2, 4)), anti_chain()]


# ----------------------------------------------------------------------------------------
# model side
# ----------------------------------------------------------------------------------------

def parse_emitted(path):
    out = []
    with open(path, errors="replace") as f:
        for line in f:
            if line.startswith('"@@E'):
                out.append(json.loads(json.loads(line)[3:]))
    return out


def model_run(ctx, cfg, name, exhaustive, env=None, workers=8, timeout=1500, coverage=True):
    """B => A on the model; returns the emitted cases (with B's predicted log and status)."""
    outp = os.path.join(ctx.scratch, "model-%s.out" % name)
    r = ctx.tlc("ModLoad", cfg, workers=workers, timeout=timeout, deadlock=True, coverage=coverage,
                stdout_path=outp, env=env)
    if not r.ok:
        raise core.MachineryError("model-only run %s: TLC reports %s on the unchanged specification:\n%s"
                                  % (cfg, r.violated, r.violation_text[:2000]))
    for act in ("LoadList", "Ctor", "Prepass", "WalkNode", "DfsStep", "CloseRounds", "CloseLeftovers"):
        if coverage and r.coverage.get(act, (0, 0))[0] == 0:
            raise core.MachineryError("model run %s never took action %s" % (cfg, act))
    cases = parse_emitted(outp)
    if not cases:
        raise core.MachineryError("model run %s emitted no case" % cfg)
    if exhaustive:
        ctx.model_checked(r)
    ctx.note("model %s: %d cases, %d distinct states, %d transitions, depth %d, %.1fs: B satisfies A"
             % (name, len(cases), r.distinct, r.generated, r.depth, r.wall_s))
    os.unlink(outp)
    return cases


MODEL_MUTANTS = [
    # (Bug switch, cfg, case, conjunct TLC must report, coverage key, text)
    ("D12", "ModLoad_bugD12file.cfg", diamond, "B_StartsComplete", "model_mutant_D12", "the diamond"),
    ("NoPostNoMark", "ModLoad_bugNoPostfile.cfg", triangle_nopost_bottom, "B_StartsComplete",
     "model_mutant_NoPostNoMark", "m1 -> {m2, m3}, m2 -> m3 with m3 lacking module_post_init"),
    ("NoDtorNoUnlink", "ModLoad_bugNoDtorfile.cfg", chain_nodtor_top, "B_DtorBeforeDeps",
     "model_mutant_NoDtorNoUnlink", "m3 -> m2 -> m1 with m3 lacking module_destructor"),
    ("NoCtorNoRestore", "ModLoad_bugNoCtorfile.cfg", helper_pulled_in, "B_PostInitAfterDeps",
     "model_mutant_NoCtorNoRestore", "m1 -> m2, only m1 listed, with m2 lacking module_constructor"),
    ("NoAntiMirror", "ModLoad_bugNoAntifile.cfg", anti_chain, "B_DtorBeforeDeps",
     "model_mutant_NoAntiMirror", "m2 back-end of m3, m3 back-end of m1 (module_antidepends), listed m1, m3, m2"),
]


def model_mutant_must_fail(ctx):
    """Anti-vacuity of the model side: with a Bug switch on -- module_dfs() as before commit 47cba46
    ("D12"); module_dfs() returning early, without the visited mark, for a module without
    module_post_init ("NoPostNoMark"); module_cleanup() unlinking from the dependencies' rdepends only
    when a destructor was found ("NoDtorNoUnlink"); module_load() returning early, without
    `loading_module = prior`, for a module without module_constructor ("NoCtorNoRestore") -- TLC must report the expected conjunct on the
    smallest case that shows the difference (the same cases pass with Bug = "none": they are
    part of the drawn cases below)."""
    import concurrent.futures

    def one(mm):
        bug, cfg, mk, expect, key, text = mm
        p = os.path.join(ctx.scratch, "mm-%s.ndjson" % bug)
        with open(p, "w") as f:
            f.write(json.dumps(mk()) + "\n")
        r = _tlc.run("ModLoad", cfg, workers=1, timeout=300, deadlock=True, env={"CASES": p})
        return mm, r.violated
    with concurrent.futures.ThreadPoolExecutor(max_workers=len(MODEL_MUTANTS)) as ex:
        for (bug, cfg, mk, expect, key, text), got in ex.map(one, MODEL_MUTANTS):
            if got != expect:
                raise core.MachineryError("model mutant Bug=%s on %s: expected %s, TLC says %r" % (bug, text, expect, got))
            ctx.cov[key] = "%s violated on %s, as required" % (expect, text)


# ----------------------------------------------------------------------------------------
# real side
# ----------------------------------------------------------------------------------------

VARIANTS = ("all", "nopost", "nodtor", "neither", "noctor", "noctor_nopost", "noctor_nodtor", "noctor_neither")


def variant_of(c, m):
    return VARIANTS[(1 if m in c["nopost"] else 0) + (2 if m in c["nodtor"] else 0) + (4 if m in c["noctor"] else 0)]


def prepare_libs(ctx):
    """pool/m<k>.<variant>.so for k = 1..6 and the eight stub variants: copies, not links, so that
    every module name has its own inode, statics and dlopen handle whatever its variant.  A case's
    library directory (made by render) links m<k>.so to the variant its hook profile asks for and
    has no entry for a module without a shared object."""
    root = os.path.join(ctx.scratch, "libs")
    pool = os.path.join(root, "pool")
    os.makedirs(pool, exist_ok=True)
    for v in VARIANTS:
        stub = ctx.build.stubmod(v)
        for m in range(1, MAXMODS + 1):
            shutil.copyfile(stub, os.path.join(pool, "m%d.%s.so" % (m, v)))
    return root


def render(c, libroot, wdir, lib_text=None):
    """deps file, configuration and (unless lib_text is given: replay text only) the library directory."""
    if len(c["missing"]) > 1 or c["n"] > MAXMODS \
            or set(c["missing"]) & (set(c["nopost"]) | set(c["nodtor"]) | set(c["noctor"])) \
            or any(c["deps"][m - 1] or anti_of(c)[m - 1] for m in c["noctor"]):    # nobody to call module_depends() for it
        raise core.MachineryError("case outside the renderable space: %r" % (c,))
    lib = lib_text or os.path.join(wdir, "lib")
    if lib_text is None:
        shutil.rmtree(lib, ignore_errors=True)
        os.makedirs(lib)
        for m in range(1, c["n"] + 1):
            if m not in c["missing"]:
                os.symlink(os.path.join(libroot, "pool", "m%d.%s.so" % (m, variant_of(c, m))),
                           os.path.join(lib, "m%d.so" % m))
    # the constructor walks its items in order: module_depends() calls, then module_antidepends() calls (ModLoad!Calls)
    deps = "".join("m%d:%s%s\n" % (i + 1, "".join(" m%d" % d for d in ds), "".join(" ~m%d" % d for d in anti_of(c)[i]))
                   for i, ds in enumerate(c["deps"]))
    conf = "core {\n  library_path ( \"%s\" )\n  modules ( %s )\n}\n" % (lib, ", ".join("m%d" % m for m in c["list"]))
    with open(os.path.join(wdir, "deps"), "w") as f:
        f.write(deps)
    with open(os.path.join(wdir, "conf"), "w") as f:
        f.write(conf)
    return deps, conf


# a legal log has at most 4 events per module plus "running" (25 for 6 modules); a runaway start-up (constructors
# re-entering each other) writes tens of thousands: only the first LOG_CAP events are kept and judged
LOG_CAP = 400


def read_log(path):
    """The stub modules' log -> [[kind, module number], ...]; purely syntactic."""
    out = []
    try:
        with open(path) as f:
            for line in f:
                line = line.strip()
                if not line:
                    continue
                if len(out) >= LOG_CAP:
                    break
                try:
                    o = json.loads(line)
                    name = o.get("m")
                    out.append([o["e"], int(name[1:]) if name else 0])
                except Exception:
                    out.append(["garbled:" + line[:40], 0])
    except FileNotFoundError:
        pass
    return out


def run_one(daemon, libroot, wdir, c, grace):
    """Start the real daemon once on case c.  Returns the trace line (dict) plus diagnostics."""
    render(c, libroot, wdir)
    logp = os.path.join(wdir, "log")
    errp = os.path.join(wdir, "stderr")
    for p in (logp, errp):
        try:
            os.unlink(p)
        except FileNotFoundError:
            pass
    env = dict(os.environ)
    env.pop("VERIF_MODSTOP_ARMED", None)
    env.update({"VERIF_MODDEPS": os.path.join(wdir, "deps"), "VERIF_MODLOG": logp, "VERIF_MODSTOP": "1",
                "ASAN_OPTIONS": "detect_leaks=0:abort_on_error=0:exitcode=97", "UBSAN_OPTIONS": "print_stacktrace=1"})
    with open(errp, "w") as ferr:
        p = subprocess.Popen(["timeout", "-k", "5", "90", daemon, "-n", "-f", os.path.join(wdir, "conf")],
                             cwd=wdir, env=env, stdin=subprocess.DEVNULL, stdout=ferr, stderr=ferr)
        external_at = None
        try:
            p.wait(timeout=grace)
        except subprocess.TimeoutExpired:
            # still alive long after start-up: it sits in the event loop (or hangs).  Record that it
            # was seen alive, then use the documented clean stop (timeout(1) forwards the signal).
            external_at = len(read_log(logp))
            p.send_signal(signal.SIGHUP)
            try:
                p.wait(timeout=15)
            except subprocess.TimeoutExpired:
                p.kill()
                p.wait()
    log = read_log(logp)
    nlines = len(log)
    if external_at is not None and not any(e[0] == "running" for e in log):
        log.insert(external_at, ["running", 0])
        nlines += 1
    status = p.returncode
    err = ""
    if status != 0:
        try:
            with open(errp, errors="replace") as f:
                err = f.read()[-1500:]
        except OSError:
            pass
    line = {"n": c["n"], "deps": c["deps"], "anti": anti_of(c), "list": c["list"], "missing": c["missing"],
            "nopost": c["nopost"], "nodtor": c["nodtor"], "noctor": c["noctor"],
            "log": log, "events": nlines, "status": status}
    return line, external_at is not None, err


def _worker(args):
    wid, daemon, libroot, scratch, cases, deadline = args
    if deadline is not None and time.time() > deadline:
        return ["not-run"] * len(cases)
    wdir = os.path.join(scratch, "run", "w%d-%d" % (wid, os.getpid()))
    os.makedirs(wdir, exist_ok=True)
    out, anomalies, grace = [], 0, GRACE
    for c in cases:
        if deadline is not None and time.time() > deadline:
            out.append("not-run")
            continue
        if anomalies >= MAX_ANOMALIES:
            out.append(None)
            continue
        line, ext, err = run_one(daemon, libroot, wdir, c, grace)
        if ext:
            anomalies += 1
            grace = GRACE_AFTER_ANOMALY
        out.append((line, ext, err))
    shutil.rmtree(wdir, ignore_errors=True)
    return out


def run_real(ctx, cases, libroot, procs=16, budget_s=None):
    """Run every case on the real daemon (one process per case), `procs` at a time.  With a
    budget, cases not started when it is used up are returned as "not-run" (the caller orders
    the cases so that those belong to the tail of the exhaustive 4-module enumeration, and checks
    that).  The workers themselves stop starting daemons at the deadline, so that the pool always
    drains and is closed normally (terminating a pool with queued jobs can hang)."""
    daemon = ctx.build.daemon
    os.makedirs(os.path.join(ctx.scratch, "run"), exist_ok=True)
    per = max(1, min(250, (len(cases) + procs * 4 - 1) // (procs * 4)))
    deadline = None if budget_s is None else time.time() + budget_s
    jobs = [(i, daemon, libroot, ctx.scratch, [dict({k: c[k] for k in CASE_FIELDS}, anti=anti_of(c)) for c in cases[s:s + per]], deadline)
            for i, s in enumerate(range(0, len(cases), per))]
    res = []
    if len(cases) <= 4:
        for j in jobs:
            res.extend(_worker(j))
    else:
        pool = multiprocessing.get_context("fork").Pool(procs)
        try:
            for part in pool.imap(_worker, jobs):
                res.extend(part)
            pool.close()
        except BaseException:
            pool.terminate()
            raise
        finally:
            pool.join()
    if len(res) != len(cases):
        raise core.MachineryError("daemon runs: %d results for %d cases" % (len(res), len(cases)))
    return res


# ----------------------------------------------------------------------------------------
# oracle: TLC on the real logs
# ----------------------------------------------------------------------------------------

def _validate_chunk(args):
    path, nlines, start = args
    r = _tlc.run("ModLoadTrace", "ModLoadTrace.cfg", workers=1, timeout=1200, deadlock=True,
                 env={"TRACE": path, "START": str(start)}, heap="3g")
    bad = None
    if not r.ok:
        import re
        ls = re.findall(r"\bl = (\d+)", r.output)      # last state of the error trace = the rejected line
        bad = int(ls[-1]) if ls else None
    return r.violated, bad, r.generated, r.violation_text[:1500]


def validate(ctx, lines, tag, max_findings=4):
    """TLC judges every line.  Returns [(conjunct, index into lines, tlc text)], at most
    max_findings, smallest cases first within a chunk (lines are sorted by case size)."""
    import concurrent.futures
    findings = []
    chunks = []
    for s in range(0, len(lines), CHUNK):
        part = lines[s:s + CHUNK]
        p = os.path.join(ctx.scratch, "trace-%s-%d.ndjson" % (tag, s))
        with open(p, "w") as f:
            for ln in part:
                f.write(json.dumps(ln, separators=(",", ":")) + "\n")
        chunks.append((p, len(part), s))
    judged = 0

    def work(ch):
        p, n, base = ch
        found, start, ok_lines = [], 1, 0
        while start <= n and len(found) < max_findings:
            violated, bad, gen, text = _validate_chunk((p, n, start))
            if violated is None:
                ok_lines += n - start + 1
                break
            if violated in ("deadlock", "postcondition") or violated.startswith("eval-error") or bad is None \
                    or not violated.startswith("A_"):
                raise core.MachineryError("trace validation of %s failed without naming a conjunct (%s), line %r:\n%s"
                                          % (p, violated, bad, text))
            found.append((INVARIANT_TO_CONJUNCT(violated), base + bad - 1, text))
            ok_lines += bad - start + 1
            start = bad + 1
        return found, ok_lines

    with concurrent.futures.ThreadPoolExecutor(max_workers=4) as ex:
        for found, ok_lines in ex.map(work, chunks):
            findings.extend(found)
            judged += ok_lines
    for p, _, _ in chunks:
        os.unlink(p)
    findings.sort(key=lambda f: f[1])
    return findings[:max_findings * 2], judged


def _swap_events(line, kind, x, z):
    import copy
    ln = copy.deepcopy(line)
    ix, iz = ln["log"].index([kind, x]), ln["log"].index([kind, z])
    ln["log"][ix], ln["log"][iz] = ln["log"][iz], ln["log"][ix]
    return ln


def _through_hookless(line, kind, hookless):
    """(x, y, z): x -> y -> z in the dependency graph, y lacks the hook, x and z have it and logged it,
    and z is no direct dependency of x.  Syntactic search for a log to corrupt; TLC judges the copy."""
    have = {e[1] for e in line["log"] if e[0] == kind}
    for x in range(1, line["n"] + 1):
        for y in line["deps"][x - 1]:
            for z in line["deps"][y - 1]:
                if y in hookless and x in have and z in have and z not in line["deps"][x - 1]:
                    return x, y, z
    return None


def must_reject(ctx, lines):
    """Anti-vacuity of the oracle: corrupted copies of real, accepted logs must be rejected, each for
    the stated reason.  Choosing WHICH log to corrupt is not a judgement: TLC decides whether the
    corrupted copies are rejected."""
    import copy
    import concurrent.futures
    good_line = thr_dtor = thr_post = has_nodtor = noctor_used = noctor_free = None
    for l in lines:
        if l["status"] != 0:
            continue
        pis = [e[1] for e in l["log"] if e[0] == "post-init"]
        if l["noctor"]:
            used = any(l["noctor"][0] in ds for ds in l["deps"])
            if noctor_used is None and used and l["noctor"][0] in l["nopost"] and l["noctor"][0] in l["nodtor"]:
                noctor_used = l
            if noctor_free is None and not used and l["noctor"][0] not in l["nopost"]:
                noctor_free = l
        if good_line is None and not l["nopost"] and not l["nodtor"] and not l["noctor"] and len(pis) >= 3 \
                and pis[0] in reach(l["deps"], pis[-1]):      # swapping first and last post-init must break the order
            good_line = l
        if thr_dtor is None and _through_hookless(l, "dtor", l["nodtor"]):
            thr_dtor = l
        if thr_post is None and _through_hookless(l, "post-init", l["nopost"]):
            thr_post = l
        if has_nodtor is None and l["nodtor"] and len(l["nodtor"]) < l["n"]:
            has_nodtor = l
        if good_line and thr_dtor and thr_post and has_nodtor and noctor_used and noctor_free:
            break
    for what, v in (("whose last post-init depends on its first (all hooks)", good_line),
                    ("with destructor order through a module without destructor", thr_dtor),
                    ("with post-init order through a module without post-init", thr_post),
                    ("with some but not all modules lacking a destructor", has_nodtor),
                    ("in which a module that others depend on lacks every entry point", noctor_used),
                    ("in which a module that nobody depends on lacks the constructor and has a post-init", noctor_free)):
        if v is None:
            raise core.MachineryError("no accepted real log " + what)
    tests = []
    a = copy.deepcopy(good_line)          # one destructor line deleted
    idx = max(i for i, e in enumerate(a["log"]) if e[0] == "dtor")
    del a["log"][idx]
    a["events"] -= 1
    tests.append(("dtor line deleted", a, "A_StopsClean"))
    b = copy.deepcopy(good_line)          # a dependent's post-init moved to the front of the post-inits
    pis = [i for i, e in enumerate(b["log"]) if e[0] == "post-init"]
    b["log"][pis[0]], b["log"][pis[-1]] = b["log"][pis[-1]], b["log"][pis[0]]
    tests.append(("first and last post-init swapped", b, "A_PostInitAfterDeps"))
    c = copy.deepcopy(good_line)          # a field flipped
    c["status"] = 1
    tests.append(("status flipped to 1", c, "A_StopsClean"))
    d = copy.deepcopy(good_line)          # transport damage
    d["events"] += 1
    tests.append(("line count wrong", d, "deadlock"))
    # the hook profile of the record is what the contract is applied with
    x, y, z = _through_hookless(thr_dtor, "dtor", thr_dtor["nodtor"])
    tests.append(("dtor(m%d) and dtor(m%d) swapped, m%d -> m%d -> m%d with m%d lacking a destructor" % (x, z, x, y, z, y),
                  _swap_events(thr_dtor, "dtor", x, z), "A_DtorBeforeDeps"))
    x, y, z = _through_hookless(thr_post, "post-init", thr_post["nopost"])
    tests.append(("post-init(m%d) and post-init(m%d) swapped, m%d -> m%d -> m%d with m%d lacking a post-init" % (x, z, x, y, z, y),
                  _swap_events(thr_post, "post-init", x, z), "A_PostInitAfterDeps"))
    e = copy.deepcopy(has_nodtor)         # a module without destructor declared to have one
    e["nodtor"] = e["nodtor"][1:]
    tests.append(("module without destructor recorded as having one", e, "A_StopsClean"))
    f = copy.deepcopy(good_line)          # a module that logged a post-init declared to have none
    f["nopost"] = [[ev for ev in f["log"] if ev[0] == "post-init"][0][1]]
    tests.append(("module that logged post-init recorded as lacking it", f, "deadlock"))
    g = copy.deepcopy(noctor_free)        # a module without constructor declared to have one
    g["noctor"] = g["noctor"][1:]
    tests.append(("module without constructor, with a post-init, recorded as having a constructor", g, "A_CtorOnce"))
    g2 = copy.deepcopy(noctor_used)       # the same for a module that another module depends on
    g2["noctor"] = g2["noctor"][1:]
    tests.append(("dependency without any entry point recorded as having a constructor", g2, "A_DepsConstructedFirst"))
    h = copy.deepcopy(good_line)          # a module that logged its constructor declared to have none
    leaf = [m for m in range(1, h["n"] + 1) if not h["deps"][m - 1]][0]
    h["noctor"] = [leaf]
    tests.append(("module that logged ctor-begin / ctor-end recorded as lacking the constructor", h, "deadlock"))
    k = copy.deepcopy(noctor_free)        # the post-init of a module without constructor is owed all the same
    hm = k["noctor"][0]
    k["log"].remove(["post-init", hm])
    k["events"] -= 1
    tests.append(("post-init of a module without constructor deleted", k, "A_StartsComplete"))

    def one(arg):
        i, (what, ln, expect) = arg
        p = os.path.join(ctx.scratch, "corrupt-%d.ndjson" % i)
        with open(p, "w") as fh:
            fh.write(json.dumps(ln) + "\n")
        r = _tlc.run("ModLoadTrace", "ModLoadTrace.cfg", workers=1, timeout=300, deadlock=True,
                     env={"TRACE": p, "START": "1"})
        os.unlink(p)
        got = INVARIANT_TO_CONJUNCT(r.violated) if r.violated else None
        if got != expect:
            with open(os.path.join(os.environ.get("VERIF_SCRATCH", "/var/tmp"), "iauthd-verif", "c20-selftest-failed.json"), "w") as fh:
                fh.write(json.dumps(ln) + "\n")
        return what, expect, got
    with concurrent.futures.ThreadPoolExecutor(max_workers=7) as ex:
        for what, expect, got in ex.map(one, enumerate(tests)):
            if got != expect:
                raise core.MachineryError("oracle self-test: corrupted trace (%s) gave %r, expected %r"
                                          % (what, got, expect))
    ctx.cov["oracle_selftest"] = "%d corrupted copies of accepted real logs rejected (%s)" % (
        len(tests), "; ".join("%s: %s" % (t[0], t[2]) for t in tests))


# ----------------------------------------------------------------------------------------
# the check
# ----------------------------------------------------------------------------------------

def confirm_and_report(ctx, libroot, line, conjunct, text):
    """Second opinion on a fresh process, judged by TLC again; only then a VIOLATION."""
    c = dict({k: line[k] for k in CASE_FIELDS}, anti=anti_of(line))
    res = run_real(ctx, [c], libroot)
    line2, _, err = res[0]
    found, _ = validate(ctx, [line2], "confirm")
    if not found:
        ctx.note("case %s: rejected once (%s) but accepted on a fresh process; not reported" % (signature(c), conjunct))
        return False
    conj2 = found[0][0]
    deps_txt, conf_txt = render(c, libroot, _tmpdir(ctx), lib_text="<libdir>")
    ctx.violation(
        what="real daemon on %s: log %s, exit status %s violates %s" % (
            signature(c), " ".join("%s(%s)" % (e, m) if m else e for e, m in line2["log"]), line2["status"], conj2),
        conjunct=conj2, signature=signature(c),
        replay={"case": c, "deps_file": deps_txt, "conf": conf_txt,
                "libdir": {"m%d.so" % m: "harness/stubmod.c, variant " + variant_of(c, m)
                           for m in range(1, c["n"] + 1) if m not in c["missing"]},
                "observed_log": line2["log"],
                "observed_status": line2["status"], "stderr_tail": err, "tlc": found[0][2][:800]})
    return True


def _tmpdir(ctx):
    d = os.path.join(ctx.scratch, "render")
    os.makedirs(d, exist_ok=True)
    return d


def run(ctx):
    quick = ctx.tier == "quick"
    rng = ctx.rng
    t0 = time.time()
    libroot = prepare_libs(ctx)

    # ---- 1. model side: B => A, cases and predictions -----------------------------------------
    model_mutant_must_fail(ctx)
    predicted = {}
    ordered = []

    def add(cases, origin):
        for c in cases:
            k = case_key(c)
            if k not in predicted:
                predicted[k] = c
                c["origin"] = origin
                ordered.append(c)

    if quick:
        add(model_run(ctx, "ModLoad_quick.cfg", "n<=3", True),
            "enum n<=3, calls in name order, paired hook profiles for the good cases")
        add(model_run(ctx, "ModLoad_antiq.cfg", "n<=3-antidepends", True),
            "enum n<=3 with edges declared by module_antidepends() too, all entry points")
    else:
        add(model_run(ctx, "ModLoad_anti.cfg", "n<=3-antidepends", True, workers=12),
            "enum n<=3 with edges declared by module_antidepends() too, paired hook profiles")
        add(model_run(ctx, "ModLoad_orders.cfg", "n<=3-all-call-orders", True, workers=12),
            "enum n<=3, every call order; for the good cases every post-init/destructor profile, every set of "
            "declaration-free modules without constructor")
        add(model_run(ctx, "ModLoad_profiles.cfg", "n<=3-all-profiles", True, workers=12),
            "enum n<=3 without self-dependencies, every hook profile")
        add(model_run(ctx, "ModLoad_thorough.cfg", "n<=4", True, workers=14, timeout=2400, coverage=False),
            "enum n<=4 without self-dependencies")
    # hook profiles TLC did not enumerate: drawn here for a sample of the enumerated cases that were
    # emitted with all hooks only (cyclic / unloadable cases on <=3 modules; the 4-module cases)
    by_graph = {}
    for c in ordered:
        by_graph.setdefault(graph_key(c), []).append(c)
    only_full = [cs[0] for cs in by_graph.values() if len(cs) == 1 and not cs[0]["nopost"] and not cs[0]["nodtor"]
                 and not cs[0]["noctor"] and len(cs[0]["missing"]) < cs[0]["n"]]
    plain = lambda c: not c["missing"] and all(m + 1 not in ds for m, ds in enumerate(c["deps"]))
    strata = ([("cyclic without self-dependency, <=3 modules", [c for c in only_full if c["n"] <= 3 and plain(c)], 600),
               ("other refused cases, <=3 modules", [c for c in only_full if c["n"] <= 3 and not plain(c)], 500)]
              if quick else
              [("cyclic or unloadable, <=3 modules", [c for c in only_full if c["n"] <= 3], 5000),
               ("good, 4 modules", [c for c in only_full if c["n"] == 4 and c["class"] == "good"], 12000),
               ("cyclic, 4 modules", [c for c in only_full if c["n"] == 4 and c["class"] != "good"], 6000)])
    drawn, seen = [], set()
    for c in fixed_cases():
        if case_key(c) not in predicted and case_key(c) not in seen:
            seen.add(case_key(c))
            drawn.append(c)
    nvariants = {}
    for what, pool, count in strata:
        pool = sorted(pool, key=case_key)
        for c in (rng.sample(pool, count) if len(pool) > count else pool):
            nopost, nodtor, noctor = draw_profile(rng, c["n"], [d + a for d, a in zip(c["deps"], anti_of(c))], c["missing"],
                                                  force=True)
            v = {"n": c["n"], "deps": c["deps"], "anti": anti_of(c), "list": c["list"], "missing": c["missing"],
                 "nopost": nopost, "nodtor": nodtor, "noctor": noctor}
            if case_key(v) not in seen:
                seen.add(case_key(v))
                drawn.append(v)
                nvariants[what] = nvariants.get(what, 0) + 1
    ctx.cov["drawn_hook_profiles_for_enumerated_cases"] = nvariants
    # drawn cases (same specification, cases through a file)
    plan = ([(3, "any", 250), (4, "dag", 350), (4, "any", 350), (5, "dag", 150), (5, "any", 100),
             (6, "dag", 150), (6, "any", 100)] if quick else
            [(4, "any", 1500), (5, "dag", 600), (5, "any", 400), (6, "dag", 600), (6, "any", 400)])
    for n, style, count in plan:
        tries = 0
        got = 0
        while got < count and tries < count * 30:
            tries += 1
            c = random_case(rng, n, style)
            k = case_key(c)
            if c["n"] != n or k in seen or k in predicted:
                continue
            seen.add(k)
            drawn.append(c)
            got += 1
    cpath = os.path.join(ctx.scratch, "cases.ndjson")
    with open(cpath, "w") as f:
        for c in drawn:
            f.write(json.dumps(c) + "\n")
    filecases = model_run(ctx, "ModLoad_file.cfg", "drawn", False, env={"CASES": cpath}, workers=8, timeout=2400)
    if len(filecases) != len(drawn):
        raise core.MachineryError("model emitted %d of %d drawn cases" % (len(filecases), len(drawn)))
    add(filecases, "drawn with seed %d" % ctx.seed)
    ctx.cov["model_drawn_cases"] = len(drawn)

    classes = {}
    shapes = {"good_cases_with_a_module_lacking_post_init": 0, "good_cases_with_a_module_lacking_destructor": 0,
              "good_cases_with_a_module_lacking_constructor": 0,
              "refused_cases_with_a_module_lacking_a_hook": 0, "refused_cases_with_a_module_lacking_constructor": 0}
    for c in ordered:
        classes[c["class"]] = classes.get(c["class"], 0) + 1
        if c["class"] == "good":
            shapes["good_cases_with_a_module_lacking_post_init"] += 1 if c["nopost"] else 0
            shapes["good_cases_with_a_module_lacking_destructor"] += 1 if c["nodtor"] else 0
            shapes["good_cases_with_a_module_lacking_constructor"] += 1 if c["noctor"] else 0
            for k, v in shape_counts(c).items():
                shapes[k] = shapes.get(k, 0) + (1 if v else 0)
        else:
            shapes["refused_cases_with_a_module_lacking_a_hook"] += 1 if c["nopost"] or c["nodtor"] else 0
            shapes["refused_cases_with_a_module_lacking_constructor"] += 1 if c["noctor"] else 0
    ctx.cov["cases_by_class"] = classes
    ctx.cov["absent_hook_shapes"] = shapes
    for cl in ("good", "cyclic", "unloadable"):
        if not classes.get(cl):
            raise core.MachineryError("no case of class %s generated" % cl)
    for k, v in shapes.items():
        if not v:
            raise core.MachineryError("no case with shape %s generated" % k)
    t_model = time.time() - t0

    # ---- 2. real side --------------------------------------------------------------------------
    # smallest cases first (the first rejected line of a trace is then a minimal failing input);
    # thorough: the exhaustive 4-module enumeration comes last, in seeded random order, so that a
    # time budget on a busy machine cuts a random part of its cyclic cases and nothing else
    head = [c for c in ordered if not c["origin"].startswith("enum n<=4") or c["n"] < 4]
    tail = [c for c in ordered if c["origin"].startswith("enum n<=4") and c["n"] == 4]
    head.sort(key=case_size)
    rng.shuffle(tail)
    tail.sort(key=lambda c: c["class"] != "good")     # acyclic 4-module cases first (class computed by TLC)
    ordered = head + tail
    t1 = time.time()
    res = run_real(ctx, head, libroot)
    if tail:
        res += run_real(ctx, tail, libroot, budget_s=max(MIN_TAIL_S, REAL_BUDGET_S - (time.time() - t1)))
    t_real = time.time() - t1
    lines, idx_case, skipped, external, notrun = [], [], 0, 0, 0
    for c, r in zip(ordered, res):
        if r is None:
            skipped += 1
            continue
        if r == "not-run":
            notrun += 1
            continue
        line, ext, err = r
        external += 1 if ext else 0
        lines.append(line)
        idx_case.append((c, err))
    if any(r == "not-run" for r in res[:len(head)]):
        raise core.MachineryError("a mandatory case was not run")
    ctx.cov["daemon_runs"] = len(lines)
    ctx.cov["daemon_runs_per_s"] = round(len(lines) / max(t_real, 1e-3))
    ctx.cov["daemons_stopped_from_outside"] = external
    ctx.cov["evaluations"] = sum(len(l["log"]) + 1 for l in lines)
    if tail:
        ctx.cov["enum4_cases_total"] = len(tail)
        ctx.cov["enum4_cases_run_on_daemon"] = len(tail) - notrun
        if notrun:
            ctx.note("busy machine: %d of the %d enumerated 4-module cases were run on the real daemon within "
                     "the budget of %ds for all daemon runs (all acyclic ones first, then a random subset, seed %d); "
                     "all of them were model-checked" % (len(tail) - notrun, len(tail), REAL_BUDGET_S, ctx.seed))

    # ---- 3. oracle -----------------------------------------------------------------------------
    t2 = time.time()
    findings, judged = validate(ctx, lines, "main")
    t_val = time.time() - t2
    ctx.cov["traces_validated_against_impl"] = judged
    reported = 0
    seen_conj = set()
    for conj, i, text in findings:
        if conj in seen_conj and reported >= 2:
            continue
        seen_conj.add(conj)
        if confirm_and_report(ctx, libroot, lines[i], conj, text):
            reported += 1
    if skipped and not ctx.violations:
        raise core.MachineryError("%d cases were not run because daemons had to be stopped from outside, "
                                  "and the cases that were run show no violation" % skipped)
    if skipped:
        ctx.note("%d cases not run after %d daemons had to be stopped from outside" % (skipped, external))

    # a real accepted log, corrupted, must be rejected (choosing WHICH log to corrupt is not a
    # judgement: TLC decides whether the corrupted copies are rejected)
    if not findings:
        must_reject(ctx, lines)

    # ---- 4. drift ------------------------------------------------------------------------------
    ndrift = 0
    first = None
    for line, (c, err) in zip(lines, idx_case):
        if line["log"] != [list(e) for e in c["log"]] or (line["status"] != 0) != (c["status"] != 0):
            ndrift += 1
            if first is None:
                first = {"case": signature(c), "model_log": c["log"], "model_status": c["status"],
                         "real_log": line["log"], "real_status": line["status"], "stderr_tail": err[-400:]}
    ctx.cov["logs_equal_to_model_prediction"] = len(lines) - ndrift
    if ndrift:
        ctx.drift("%d of %d real event logs differ from the log ModLoad.tla predicts; first: %s"
                  % (ndrift, len(lines), first["case"]), first)

    # ---- evidence ------------------------------------------------------------------------------
    nontrivial = sum(1 for l in lines if l["n"] >= 2 and sum(map(len, l["deps"])) >= 1)
    ctx.cov["distinct_nontrivial"] = nontrivial
    ctx.cov["rule"] = ("distinct cases (dependency graph with call order, listing, missing module, hook profile = "
                       "which modules lack module_post_init / module_destructor / module_constructor) with at "
                       "least two modules and at least one module_depends() edge, each run on its own daemon "
                       "process; distinct_nontrivial_absent_hook = those of them in which some module lacks an "
                       "entry point; distinct_nontrivial_absent_constructor = those in which some module lacks "
                       "module_constructor")
    ctx.cov["distinct_nontrivial_absent_hook"] = sum(1 for l in lines if l["n"] >= 2 and sum(map(len, l["deps"])) >= 1
                                                     and (l["nopost"] or l["nodtor"] or l["noctor"]))
    ctx.cov["distinct_nontrivial_absent_constructor"] = sum(1 for l in lines if l["n"] >= 2 and l["noctor"]
                                                            and sum(map(len, l["deps"])) >= 1)
    ctx.cov["exhaustive"] = True
    ctx.cov["modules_max"] = max(l["n"] for l in lines)
    ctx.cov["timing_s"] = {"model": round(t_model, 1), "daemons": round(t_real, 1), "validation": round(t_val, 1)}
    picks = ([l for l in lines if l["n"] == 4 and l["status"] == 0 and not l["nopost"] and not l["nodtor"]
              and not l["noctor"]][:1]
             + [l for l in lines if l["n"] == 4 and l["status"] == 0 and l["nopost"] and l["nodtor"]
                and sum(map(len, l["deps"])) >= 4][:2]
             + [l for l in lines if l["n"] >= 3 and l["status"] == 0 and l["noctor"] and not l["nopost"]
                and any(m not in l["list"] for m in l["noctor"]) and sum(map(len, l["deps"])) >= 3][:1]
             + [l for l in lines if l["status"] != 0 and l["n"] == 3][:2])
    for l in picks:
        ctx.sample({"case": signature(l), "log": " ".join("%s(%s)" % (e, m) if m else e for e, m in l["log"]),
                    "status": l["status"]})
    ctx.assumptions.append("modules are the stub harness/stubmod.c, built in eight variants (every combination of "
                           "module_constructor / module_post_init / module_destructor present or absent) and copied "
                           "per module name m1..m6; only a module that declares nothing may lack module_constructor "
                           "(a constructor is the only place to call module_depends() from); edges are declared "
                           "with module_depends() or, from the other end, module_antidepends(); module_is_backend is outside "
                           "the contract")
    ctx.assumptions.append("'running' = a zero-delay libevent timer, armed by the first stub that gets control (a "
                           "module_constructor, or the ELF constructor of a stub without one), fired inside "
                           "main()'s event loop (or the process was still alive %ss after start); the daemon is "
                           "then stopped with SIGHUP, its documented clean stop" % int(GRACE))
    ctx.assumptions.append("at most one module without a shared object per case, and that module declares nothing")
    ctx.assumptions.append("order requirements relate the events of modules that have the entry point, over the "
                           "transitive closure of the full dependency relation; a module without the entry point "
                           "contributes no event and owes none; a dependency without module_constructor counts as "
                           "constructed once loaded (no constructor event is required of it or for it)")
    ctx.assumptions.append("hook profiles: every profile for %s; one profile drawn at random (seed %d) for a sample of "
                           "the other enumerated cases, for 4-module cases and for the random graphs"
                           % ("the good cases on <=3 modules as far as module_post_init / module_destructor go, all "
                              "of them with every constructor, and every non-empty set of declaration-free modules "
                              "lacking module_constructor only / every entry point" if quick else
                              "every case on <=3 modules without self-dependency or missing module (constructor "
                              "included: every subset of the declaration-free modules lacks it), and for the good "
                              "cases on <=3 modules with any call order as far as module_post_init / module_destructor "
                              "go, plus every non-empty set of declaration-free modules lacking module_constructor "
                              "only / every entry point", ctx.seed))
    ctx.note("real daemon: %d starts in %.1fs (%d/s); TLC judged %d logs in %.1fs; %d differ from the model"
             % (len(lines), t_real, ctx.cov["daemon_runs_per_s"], judged, t_val, ndrift))


def replay(ctx, body):
    c = with_defaults(body["replay"]["case"])
    libroot = prepare_libs(ctx)
    res = run_real(ctx, [c], libroot)
    line, _, err = res[0]
    found, judged = validate(ctx, [line], "replay")
    ctx.cov["traces_validated_against_impl"] = judged
    ctx.cov["evaluations"] = len(line["log"]) + 1
    ctx.note("replayed %s: log %s status %s" % (signature(c), line["log"], line["status"]))
    if found:
        ctx.violation(what="real daemon on %s violates %s (replay)" % (signature(c), found[0][0]),
                      conjunct=found[0][0], signature=signature(c),
                      replay={"case": c, "observed_log": line["log"], "observed_status": line["status"],
                              "stderr_tail": err, "tlc": found[0][2][:800]})
