------------------------------ MODULE BookLong ------------------------------
(***************************************************************************)
(* C10, large-scale part: an abstract specification of just the request    *)
(* bookkeeping of iauthd-c for MANY client ids (e.g. 1..16), used          *)
(*  (1) exhaustively with a few ids and a bound on the number of           *)
(*      announcements, to check the ledger invariants of BookLedger.tla    *)
(*      for unboundedly interleaved clients (ids reused, duplicate         *)
(*      announcements of live ids, withdrawal at every stage, timers       *)
(*      firing before / after replies, several timers due at once), and    *)
(*  (2) as the generator of LONG histories (thousands of steps) that are   *)
(*      replayed on the real daemon: GenNext takes one uniformly chosen    *)
(*      enabled event per step (TLC -simulate), the history ghost `hist`   *)
(*      is printed when it reaches GenDepth.                               *)
(*                                                                         *)
(* Per client only what decides whether the request is still in the table  *)
(* is kept: which data items arrived, which services are awaited, whether  *)
(* the timer fired.  The configuration is fixed: a1.svc = login (queried   *)
(* once a password is stored), b2.svc = dronecheck (queried once host,     *)
(* ident, nick and user are known); passwords only ask for +x, so there    *)
(* are no hard holds.  Events are records in the vocabulary of IAuth.tla / *)
(* vlib/daemon.py, so the recorded traces are validated by BookTrace.tla   *)
(* (full contract + implementation-shaped spec); this module's own         *)
(* prediction of the in-use number travels in the history as `pn` and is   *)
(* compared with the daemon's by the driver's trace (drift only).          *)
(*                                                                         *)
(* Time.  RealTime = FALSE: a timer fires where the environment says so    *)
(* (event TO, the `<id> ! timeout` hook).  RealTime = TRUE: there is a     *)
(* clock `now` in ticks, input lines are sent in short bursts at the tick  *)
(* boundaries, the configured timeout is 2.5 ticks, so a request announced *)
(* in burst k has its deadline strictly between bursts k+2 and k+3: the    *)
(* action Tick advances the clock and fires every pending timer whose      *)
(* deadline lies in the interval, in order of announcement (libevent's     *)
(* heap order for equal durations).  Deadlines are kept relative to the    *)
(* clock (ticks left: 3, 2, 1), so with MaxNow = 0 the clock itself is not *)
(* part of the state identity and the exhaustive runs cover unbounded time.*)
(***************************************************************************)
EXTENDS Integers, Sequences, FiniteSets, TLC, Json

CONSTANTS
    Ids,          \* client ids
    TimeoutOn,    \* iauth { timeout } configured
    RealTime,     \* timers fire by the clock (Tick) instead of by TO events
    MaxSerial,    \* exhaustive runs: bound on the number of announcements (CONSTRAINT Bounded)
    MaxNow,       \* exhaustive runs: bound on the clock (0: none; the clock is then left out of the state identity)
    GenDepth,     \* generation: length of the histories printed (0: no history ghost)
    Stream        \* generation of one very long history: print one line per step instead of keeping the history

VARIABLES
    serial,       \* iauth_serial
    cl,           \* live requests: id -> record
    old,          \* id -> serial of the previous instance of id (0: none): source of stale routing tags
    led,          \* resource ledger (BookLedger)
    now,          \* clock in ticks (RealTime only)
    hist          \* history ghost

LG == INSTANCE BookLedger

vars == <<serial, cl, old, led, now, hist>>

Items == {"host", "ident", "nick", "user"}
Svcs == <<"a1.svc", "b2.svc">>            \* slot order
IsLogin(s) == s = "a1.svc"

HexDigit(n) == CASE n = 0 -> "0" [] n = 1 -> "1" [] n = 2 -> "2" [] n = 3 -> "3" [] n = 4 -> "4"
                 [] n = 5 -> "5" [] n = 6 -> "6" [] n = 7 -> "7" [] n = 8 -> "8" [] n = 9 -> "9"
                 [] n = 10 -> "a" [] n = 11 -> "b" [] n = 12 -> "c" [] n = 13 -> "d" [] n = 14 -> "e"
                 [] n = 15 -> "f"
RECURSIVE Hex(_)
Hex(n) == IF n < 16 THEN HexDigit(n) ELSE Hex(n \div 16) \o HexDigit(n % 16)
Routing(id, ser) == Hex(id) \o "_" \o Hex(ser)

Live(i) == i \in DOMAIN cl

NewReq(ser) == [ser |-> ser, got |-> {}, hostset |-> FALSE, pw |-> FALSE, sent |-> {}, ref |-> {},
                timer |-> IF TimeoutOn THEN "armed" ELSE "none", dl |-> 3]

Init == /\ serial = 0
        /\ cl = <<>>
        /\ old = [i \in Ids |-> 0]
        /\ led = LG!LedInit
        /\ now = 0
        /\ hist = <<>>

-----------------------------------------------------------------------------
\* iauth_xquery_check(req, flag): which services are queried now
Queried(r, flag) ==
    {s \in {Svcs[1], Svcs[2]} :
        /\ ~(s \in r.sent /\ (flag # "pw" \/ ~IsLogin(s)))
        /\ (IsLogin(s) => r.pw)
        /\ (~IsLogin(s) => Items \subseteq r.got)}
XCheck(r, flag) == LET q == Queried(r, flag) IN [r EXCEPT !.sent = @ \cup q, !.ref = @ \cup q]

\* iauth_check_request(): accepted (and retired) iff all data present and nothing awaited or the timer has fired
Accepts(r) == Items \subseteq r.got /\ (r.ref = {} \/ r.timer = "fired")

Without(f, i) == [j \in DOMAIN f \ {i} |-> f[j]]
With(f, i, v) == [j \in DOMAIN f \cup {i} |-> IF j = i THEN v ELSE f[j]]

\* end of a handler: re-evaluate the gate.  Returns <<cl', verdict>> (verdict: "" or the kind of the verdict line)
Finish(i, r) == IF Accepts(r) THEN <<Without(cl, i), "D">> ELSE <<With(cl, i, r), "">>

\* <<cl', verdict>> for event e (a function of the state: the specification is deterministic per event)
Effect(e) ==
    LET i == IF "id" \in DOMAIN e THEN e.id ELSE 0 IN
    CASE e.e = "C" -> <<With(cl, i, NewReq(serial + 1)), "">>
      [] e.e \in {"D", "T"} -> <<IF Live(i) THEN Without(cl, i) ELSE cl, "">>
      [] e.e = "X" ->
           LET tg == {j \in DOMAIN cl : Routing(j, cl[j].ser) = e.tag} IN
           IF tg = {} THEN <<cl, "">>
           ELSE LET j == CHOOSE x \in tg : TRUE
                    r == cl[j]
                IN IF e.svc \notin r.ref THEN <<cl, "">>
                   ELSE IF e.kind = "NO" THEN <<Without(cl, j), "k">>
                   ELSE Finish(j, [r EXCEPT !.ref = @ \ {e.svc}])
      [] OTHER ->
           IF ~Live(i) THEN <<cl, "">>          \* iauth_read() drops a line for an id without a request
           ELSE CASE e.e = "N" -> IF cl[i].hostset THEN <<cl, "">>
                                  ELSE Finish(i, XCheck([cl[i] EXCEPT !.got = @ \cup {"host"}, !.hostset = TRUE], "host"))
                  [] e.e = "d" -> Finish(i, XCheck([cl[i] EXCEPT !.got = @ \cup {"host"}], "host"))
                  [] e.e = "u" -> Finish(i, XCheck([cl[i] EXCEPT !.got = @ \cup {"ident"}], "ident"))
                  [] e.e = "n" -> Finish(i, XCheck([cl[i] EXCEPT !.got = @ \cup {"nick"}], "nick"))
                  [] e.e = "U" -> Finish(i, XCheck([cl[i] EXCEPT !.got = @ \cup {"user"}], "user"))
                  [] e.e = "H" -> Finish(i, XCheck([cl[i] EXCEPT !.got = Items], "hurry"))
                  [] e.e = "P" -> Finish(i, XCheck([cl[i] EXCEPT !.pw = TRUE], "pw"))
                  [] e.e = "TO" -> IF cl[i].timer # "armed" THEN <<cl, "">>
                                   ELSE Finish(i, [cl[i] EXCEPT !.timer = "fired"])
                  [] OTHER -> <<cl, "">>

VerdictOut(e, v) ==
    IF v = "" THEN <<>>
    ELSE LET tg == IF e.e = "X" THEN {j \in DOMAIN cl : Routing(j, cl[j].ser) = e.tag} ELSE {e.id}
         IN << [k |-> v, id |-> CHOOSE x \in tg : TRUE] >>

-----------------------------------------------------------------------------
\* the environment
Reply(i, s, ser, k) == [e |-> "X", svc |-> s, tag |-> Routing(i, ser), kind |-> k,
                        acct |-> <<"ac1", 8>>, text |-> <<"t1", 9>>, trail |-> ""]
\* <<event, weight>>: the generator picks an event with probability proportional to its weight; the exhaustive
\* runs ignore the weights
WEventsOf(i) ==
    {<<[e |-> "C", id |-> i, addr |-> "A" \o Hex(i), port |-> 1000 + i], IF Live(i) THEN 1 ELSE 2>>}
    \cup (IF Live(i)
          THEN { <<[e |-> "N", id |-> i, host |-> <<"h1", 12>>], 2>>, <<[e |-> "d", id |-> i], 2>>,
                 <<[e |-> "u", id |-> i, ident |-> <<"i1", 4>>], 3>>, <<[e |-> "n", id |-> i, nick |-> <<"n1", 5>>], 3>>,
                 <<[e |-> "U", id |-> i, user |-> <<"c1", 6>>, tilde |-> 0, real |-> <<"r1", 11>>], 3>>,
                 <<[e |-> "H", id |-> i], 1>>,
                 <<[e |-> "P", id |-> i, shape |-> "ok", modes |-> <<"+", "x">>, cred |-> <<"p1", 10>>, raw |-> <<"P+xp1", 0>>], 1>>,
                 <<[e |-> "D", id |-> i], 1>>, <<[e |-> "T", id |-> i], 1>> }
               \cup (IF ~RealTime /\ cl[i].timer = "armed" THEN {<<[e |-> "TO", id |-> i], 1>>} ELSE {})
               \cup {<<Reply(i, s, cl[i].ser, k), IF k = "NO" THEN 1 ELSE 2>> : s \in cl[i].ref, k \in {"OK", "OKA", "NO", "UNL"}}
          ELSE \* late lines for a client that is gone
               IF old[i] # 0 THEN { <<[e |-> "H", id |-> i], 1>>, <<[e |-> "T", id |-> i], 1>> }
                                  \cup (IF RealTime THEN {} ELSE {<<[e |-> "TO", id |-> i], 1>>})
               ELSE {})
    \* replies carrying the routing tag of an earlier instance
    \cup (IF old[i] # 0 THEN {<<Reply(i, Svcs[2], old[i], "OK"), 1>>, <<Reply(i, Svcs[1], old[i], "NO"), 1>>} ELSE {})

WEvents == UNION {WEventsOf(i) : i \in Ids}
Events == {x[1] : x \in WEvents}

\* the history ghost: kept (GenDepth > 0), or streamed one line per step (Stream: very long histories, one per TLC
\* run; the generator's action has exactly one successor, so the line is printed once per step), or absent
Record(r) == IF Stream THEN (IF PrintT("@@S" \o ToJson(r)) THEN hist ELSE hist)
             ELSE IF GenDepth > 0 THEN Append(hist, r)
             ELSE hist

Do(e) ==
    LET x == Effect(e)
        o == VerdictOut(e, x[2])
        ended == (DOMAIN cl) \ (DOMAIN x[1])
    IN /\ cl' = x[1]
       /\ serial' = IF e.e = "C" THEN serial + 1 ELSE serial
       /\ old' = [i \in Ids |-> IF e.e = "C" /\ i = e.id /\ Live(i) THEN cl[i].ser
                                ELSE IF i \in ended THEN cl[i].ser ELSE old[i]]
       /\ led' = LG!LedStep(led, e, o, TimeoutOn, TRUE)
       /\ now' = now
       /\ hist' = Record([e |-> e, pn |-> Cardinality(DOMAIN x[1]), pv |-> x[2]])

\* the clock advances by one tick: every pending timer with its deadline in the interval fires, oldest first
\* (libevent's heap order for equal durations); a request whose gate is open once its timer has fired is accepted
RECURSIVE BySerial(_)
BySerial(ids) == IF ids = {} THEN <<>>
                 ELSE LET i == CHOOSE x \in ids : \A y \in ids : cl[x].ser <= cl[y].ser
                      IN <<i>> \o BySerial(ids \ {i})
RECURSIVE FireLedger(_, _, _)
FireLedger(L, order, k) == IF k > Len(order) THEN L ELSE FireLedger(LG!TimerFire(L, order[k]), order, k + 1)

Tick ==
    /\ RealTime
    /\ LET due == {i \in DOMAIN cl : cl[i].timer = "armed" /\ cl[i].dl = 1}
           Fired(i) == [cl[i] EXCEPT !.timer = "fired"]
           gone == {i \in due : Accepts(Fired(i))}
           order == BySerial(due)
       IN /\ cl' = [i \in DOMAIN cl \ gone |->
                      IF i \in due THEN Fired(i)
                      ELSE IF cl[i].timer = "armed" THEN [cl[i] EXCEPT !.dl = @ - 1]   \* deadlines are relative to the clock
                      ELSE cl[i]]
          /\ led' = LG!RetireAll(FireLedger(led, order, 1), gone)
          /\ old' = [i \in Ids |-> IF i \in gone THEN cl[i].ser ELSE old[i]]
          /\ hist' = Record([e |-> [e |-> "Tick", fire |-> order], pn |-> Cardinality(DOMAIN cl \ gone), pv |-> ""])
    /\ now' = now + 1
    /\ UNCHANGED serial

Next == (\E e \in Events : Do(e)) \/ Tick

\* generation: a uniformly chosen client id, then one of its enabled events with probability proportional to its weight
\* (each event occurs weight-many times in the urn)
UrnOf(i) == UNION { {<<x[1], k>> : k \in 1..x[2]} : x \in WEventsOf(i) }
\* (the random draws are bound by \E over singleton sets: TLC evaluates an operator argument or LET definition that
\* contains RandomElement anew at every use, a bound variable once)
\* With the clock, a tick is drawn like a client id: the pseudo ids 0, -1, ... stand for "let time pass" (about
\* one step in five).
TickSlots == IF RealTime THEN {0 - k : k \in 0..((Cardinality(Ids) + 3) \div 4 - 1)} ELSE {}
\* (Now(S) = S, but state-dependent: TLC evaluates a constant-level expression such as RandomElement(Ids) only once)
Now(S) == IF serial >= 0 THEN S ELSE {}
GenNext == \E i \in {RandomElement(Now(Ids \cup TickSlots))} :
             IF i <= 0 THEN Tick
             ELSE \E x \in {RandomElement(UrnOf(i))} : Do(x[1])

GenEmit == Len(hist) # GenDepth \/ PrintT("@@E" \o ToJson(hist))

Bounded == serial <= MaxSerial /\ (MaxNow = 0 \/ now <= MaxNow)
View == <<serial, cl, old, [led EXCEPT !.nfree = @ + led.nrepl, !.nrepl = 0], IF MaxNow = 0 THEN 0 ELSE now>>

-----------------------------------------------------------------------------
(* The bookkeeping invariants *)
LedgerExact == /\ LG!LedExact(led)
               /\ DOMAIN led.tab = DOMAIN cl
               /\ \A i \in DOMAIN cl : led.tab[i] = cl[i].ser
LedgerData == LG!LedData(led, TRUE)
LedgerTimers == LG!LedTimers(led, TimeoutOn)
ArmedOwned == LG!LedArmedOwned(led)
TimerAgree == \A i \in DOMAIN cl :
    /\ (cl[i].timer = "armed") <=> (cl[i].ser \in led.armed)
    /\ (cl[i].timer = "fired") <=> (cl[i].ser \in led.timers \ led.armed)
LedgerCounters == LG!LedCounters(led) /\ led.nalloc = serial
InUseAgrees == LG!InUse(led) = Cardinality(DOMAIN cl)
\* no request stays in the table once the gate is open; with the clock, no pending timer is overdue
NoReadyLeft == \A i \in DOMAIN cl : ~Accepts(cl[i])
NoOverdue == \A i \in DOMAIN cl : cl[i].timer = "armed" => cl[i].dl \in 1..3
SerialsUnique == \A i, j \in DOMAIN cl : i # j => cl[i].ser # cl[j].ser
=============================================================================
