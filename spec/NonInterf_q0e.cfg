CONSTANTS
  Services <- S_t1d
  TimeoutOn = TRUE
  Bug <- NoBug
  A = 5
  Others <- O1
  MaxInstA = 1
  MaxInstO = 1
  MaxPw = 0
  OtherFull = FALSE
  EmitMod = 40
  NIBug <- NoNIBug
INIT NIInit
NEXT NINext
VIEW NIView
ACTION_CONSTRAINT Emit
INVARIANT SameConversation
INVARIANT SilentOthers
INVARIANT SameState
