----------------------------- MODULE ClassRules -----------------------------
(***************************************************************************)
(* Connection-class rules (property C11), modules/iauth_class.c.           *)
(*                                                                         *)
(* Layer A (contract, follows the property text, independent of the code): *)
(*   StrCaseLt (case-insensitive alphabetical order of rule names), Glob   *)
(*   (and its declarative definition GlobDecl), AcctName (account without  *)
(*   the ":stamp" suffix), MaskDoc (documented meaning of a mask text) +   *)
(*   Addr!PrefixEq, OkFrom, Matches (criteria conjunction), FirstMatch,    *)
(*   ClassOf (class value or else the rule's name), Outcome, and the two   *)
(*   contract conjuncts P11_class / P11_uline over an OBSERVATION.         *)
(* Layer B (implementation-shaped, transcribed from the C code):           *)
(*   ConfSetInsert / ConfChanged (the configuration set keeps the rules    *)
(*   ordered by conf_object_cmp = strcasecmp of their names; the module    *)
(*   copies them into a vector in that order), LoadRule (irc_pton of the   *)
(*   address text, Addr!PtonAlgo), CutStamp, FnMatch, XreplyOk             *)
(*   (iauth_xreply_ok's five results), RuleCheck (the chain of early       *)
(*   returns of iauth_class_rule_check), ForeachRule (first non-zero       *)
(*   result stops the scan), ClassAssign, Accept (iauth_accept: U lines,   *)
(*   then the R/D line).                                                   *)
(*                                                                         *)
(* Texts are sequences of character codes.  An optional setting is <<>>    *)
(* (absent) or <<text>> (present).                                         *)
(*                                                                         *)
(* A RULE (one entry of the iauth_class section, as written in the file):  *)
(*   [name, class, account, address, username, hostname, xreply_ok : opt,  *)
(*    trust : BOOLEAN]   (name is a text, not optional)                    *)
(* A CLIENT (attributes at acceptance time):                               *)
(*   addr   text of the address announced by the C line                    *)
(*   host   resolved host name ("" = none)                                 *)
(*   ident  ident reply = auth_username ("" = none); untrusted iff it      *)
(*          starts with "~"                                                *)
(*   user   client-supplied user name (U line)                             *)
(*   acct   account stamp as sent by the login service, with its optional  *)
(*          ":stamp" suffix ("" = none)                                    *)
(*   xr     per configured service, in the daemon's service-vector order:  *)
(*          [svc, ok, ref, sent]  ok = an OK arrived from it before the    *)
(*          accepting event, ref = a query is still unanswered, sent = it  *)
(*          was queried at all                                             *)
(*                                                                         *)
(* Glob is fnmatch(3) without flags RESTRICTED to patterns made of "*",    *)
(* "?" and literal characters (no "[", no "\").                            *)
(***************************************************************************)
EXTENDS Integers, Sequences, FiniteSets

CONSTANT CBug     \* subset of {"STRCMP", "REVERSE", "LAST", "NAMEONLY", "STAMP", "CLIUSER", "XR0", "TRUSTALL"}:
                  \* re-introduces a defect into layer B (model mutants, anti-vacuity); {} = the code as it is

AD == INSTANCE Addr WITH Bug <- {}

(* a TLA+ string as a sequence of character codes (TLC evaluates Len and SubSeq on strings) *)
Ascii == " !\"#$%&'()*+,-./0123456789:;<=>?@ABCDEFGHIJKLMNOPQRSTUVWXYZ[\\]^_`abcdefghijklmnopqrstuvwxyz{|}~"
CodeOf(ch) == 31 + CHOOSE i \in 1..Len(Ascii) : SubSeq(Ascii, i, i) = ch
T(s) == [i \in 1..Len(s) |-> CodeOf(SubSeq(s, i, i))]

Star   == 42
QMark  == 63
Colon  == 58
Dot    == 46
Slash  == 47
Tilde  == 126

CLASSLEN   == 63
ACCOUNTLEN == 64

Present(o) == o # << >>
Val(o)     == o[1]

-----------------------------------------------------------------------------
(* A.1  Order of rule names: case-insensitive alphabetical (= strcasecmp < 0). *)
Lower(c) == IF c \in 65..90 THEN c + 32 ELSE c
LowerStr(s) == [i \in 1..Len(s) |-> Lower(s[i])]

RECURSIVE SeqLt(_, _)
SeqLt(a, b) == IF b = << >> THEN FALSE
               ELSE IF a = << >> THEN TRUE
               ELSE IF a[1] # b[1] THEN a[1] < b[1]
               ELSE SeqLt(Tail(a), Tail(b))

StrCaseLt(a, b) == SeqLt(LowerStr(a), LowerStr(b))
StrCaseEq(a, b) == LowerStr(a) = LowerStr(b)

-----------------------------------------------------------------------------
(* A.2  Glob.  Declarative definition: the pattern matches iff its characters *)
(* can be assigned consecutive pieces of the string - a literal its own       *)
(* character, "?" any one character, "*" any (possibly empty) piece.  f[i] is *)
(* the number of characters consumed by the first i pattern characters.       *)
GlobDecl(p, s) ==
    \E f \in [0..Len(p) -> 0..Len(s)] :
        /\ f[0] = 0
        /\ f[Len(p)] = Len(s)
        /\ \A i \in 1..Len(p) :
              IF p[i] = Star THEN f[i] >= f[i - 1]
              ELSE /\ f[i] = f[i - 1] + 1
                   /\ (p[i] = QMark \/ p[i] = s[f[i]])

(* The same as a recursion (used for evaluation; TLC checks Glob = GlobDecl   *)
(* over all short patterns and strings, MCClassGlob.cfg).                     *)
RECURSIVE Glob(_, _)
Glob(p, s) ==
    IF p = << >> THEN s = << >>
    ELSE IF p[1] = Star
         THEN \E k \in 0..Len(s) : Glob(Tail(p), SubSeq(s, k + 1, Len(s)))
         ELSE /\ s # << >>
              /\ (p[1] = QMark \/ p[1] = s[1])
              /\ Glob(Tail(p), Tail(s))

GlobOk(p) == \A i \in 1..Len(p) : p[i] \notin {91, 92}      \* no "[" and no "\"

-----------------------------------------------------------------------------
(* A.3  The account criterion ignores the stamp suffix.                       *)
AcctName(a) ==
    IF \E i \in 1..Len(a) : a[i] = Colon
    THEN LET p == CHOOSE i \in 1..Len(a) : a[i] = Colon /\ \A j \in 1..(i - 1) : a[j] # Colon
         IN  SubSeq(a, 1, p - 1)
    ELSE a

-----------------------------------------------------------------------------
(* A.4  Documented meaning of a mask text (comment of irc_pton in             *)
(* modules/iauth.h, doc/iauthd-c.conf.example): "*" = everything (length 0);  *)
(* "a.b.c.d/n" (trailing octets may be missing, as in 192.168/16) = the       *)
(* first 96+n bits of the IPv4-mapped address; "x:y::/n" (or the short form   *)
(* "x:y/n") = the first n bits; "a.b.*" / "x:y:*" = the octets / groups       *)
(* written; a plain address = all 128 bits.                                   *)
HasCh(t, c) == \E i \in 1..Len(t) : t[i] = c
AllStars(t) == t # << >> /\ \A i \in 1..Len(t) : t[i] = Star
HasGap(t)   == \E i \in 1..(Len(t) - 1) : t[i] = Colon /\ t[i + 1] = Colon

V4Net(o) == LET q == o \o AD!Zeros(4 - Len(o))
            IN  << 0, 0, 0, 0, 0, 65535, 256 * q[1] + q[2], 256 * q[3] + q[4] >>

NoMask == [ok |-> FALSE, bits |-> 0, net |-> AD!Zeros(8)]

MaskDoc(t) ==
    IF AllStars(t) THEN [ok |-> TRUE, bits |-> 0, net |-> AD!Zeros(8)]
    ELSE IF HasCh(t, Slash)
    THEN LET parts == AD!Split(t, Slash)
         IN  IF Len(parts) # 2 THEN NoMask
             ELSE LET left == parts[1]
                      n    == AD!DecField(parts[2])
                  IN  IF n < 0 THEN NoMask
                      ELSE IF HasCh(left, Colon)
                      THEN LET fs == AD!Split(left, Colon)
                               a  == IF HasGap(left) \/ Len(fs) = 8 THEN AD!Denote(left)
                                     ELSE LET g == [i \in 1..Len(fs) |-> AD!HexField(fs[i])]      \* short form x:y/n
                                          IN  IF Len(g) < 8 /\ AD!ValidGroups(g) THEN g \o AD!Zeros(8 - Len(g)) ELSE AD!Bad
                           IN  IF a = AD!Bad \/ n > 128 THEN NoMask
                               ELSE [ok |-> TRUE, bits |-> n, net |-> a]
                      ELSE LET fs == AD!Split(left, Dot)
                               o  == [i \in 1..Len(fs) |-> AD!DecField(fs[i])]
                           IN  IF Len(fs) \in 2..4 /\ (\A i \in 1..Len(o) : o[i] >= 0) /\ n <= 32
                               THEN [ok |-> TRUE, bits |-> 96 + n, net |-> V4Net(o)]
                               ELSE NoMask
    ELSE IF Len(t) >= 3 /\ t[Len(t)] = Star /\ t[Len(t) - 1] = Dot
    THEN LET fs == AD!Split(SubSeq(t, 1, Len(t) - 2), Dot)
             o  == [i \in 1..Len(fs) |-> AD!DecField(fs[i])]
         IN  IF Len(fs) \in 1..3 /\ (\A i \in 1..Len(o) : o[i] >= 0)
             THEN [ok |-> TRUE, bits |-> 96 + 8 * Len(fs), net |-> V4Net(o)]
             ELSE NoMask
    ELSE IF Len(t) >= 3 /\ t[Len(t)] = Star /\ t[Len(t) - 1] = Colon
    THEN LET fs == AD!Split(SubSeq(t, 1, Len(t) - 2), Colon)
             g  == [i \in 1..Len(fs) |-> AD!HexField(fs[i])]
         IN  IF Len(fs) \in 1..7 /\ AD!ValidGroups(g)
             THEN [ok |-> TRUE, bits |-> 16 * Len(fs), net |-> g \o AD!Zeros(8 - Len(g))]
             ELSE NoMask
    ELSE LET a == AD!Denote(t)
         IN  IF a = AD!Bad THEN NoMask ELSE [ok |-> TRUE, bits |-> 128, net |-> AD!Canon(a)]

ClientAddr(t) == LET a == AD!Denote(t) IN IF a = AD!Bad THEN AD!Bad ELSE AD!Canon(a)

AddrMatches(mask, addrText) ==
    LET m == MaskDoc(mask)
        a == ClientAddr(addrText)
    IN  m.ok /\ a # AD!Bad /\ AD!PrefixEq(a, m.net, m.bits)

-----------------------------------------------------------------------------
(* A.5  "OK from a named service".                                            *)
OkFrom(c, name) == \E i \in 1..Len(c.xr) : c.xr[i].svc = name /\ c.xr[i].ok

Untrusted(ident) == ident # << >> /\ ident[1] = Tilde

-----------------------------------------------------------------------------
(* A.6  The rule table.                                                       *)
Matches(r, c) ==
    /\ Present(r.account)   => Glob(Val(r.account), AcctName(c.acct))
    /\ Present(r.address)   => AddrMatches(Val(r.address), c.addr)
    /\ Present(r.username)  => Glob(Val(r.username), c.ident)
    /\ Present(r.hostname)  => Glob(Val(r.hostname), c.host)
    /\ Present(r.xreply_ok) => OkFrom(c, Val(r.xreply_ok))

Matching(R, c) == {r \in R : Matches(r, c)}

(* the first matching rule in case-insensitive alphabetical order of names *)
IsFirst(r, M) == r \in M /\ \A q \in M \ {r} : StrCaseLt(r.name, q.name)
FirstMatch(R, c) == LET M == Matching(R, c)
                    IN  IF M = {} THEN << >> ELSE << CHOOSE r \in M : IsFirst(r, M) >>
FirstUnique(R, c) == LET M == Matching(R, c)
                     IN  M # {} => Cardinality({r \in M : IsFirst(r, M)}) = 1

ClassOf(r) == IF Present(r.class) THEN Val(r.class) ELSE r.name

(* what the property demands for an accepted client:                         *)
(*   cls   the class ("" = no class)                                          *)
(*   trust TRUE iff the ident must be upgraded to the client's user name      *)
Outcome(R, c) ==
    LET f == FirstMatch(R, c)
    IN  IF f = << >> THEN [cls |-> << >>, trust |-> FALSE, rule |-> << >>]
        ELSE [cls |-> ClassOf(f[1]), trust |-> f[1].trust /\ Untrusted(c.ident), rule |-> f[1].name]

StripTilde(u) == IF u # << >> /\ u[1] = Tilde THEN Tail(u) ELSE u

(* An OBSERVATION: [v |-> "D" | "R" | other, cls |-> text, acct |-> text, u |-> sequence of the names of  *)
(* the U lines printed for the client].                                                                   *)
Accepted(obs) == obs.v \in {"D", "R"}

(* C11, first two sentences: the class field of the D/R line *)
P11_class(R, c, obs) == Accepted(obs) => obs.cls = Outcome(R, c).cls

(* C11, last sentence: a U line carrying the client-supplied user name iff a matching (= the deciding)    *)
(* rule has trust_username and the ident is untrusted.  Whether a leading "~" of the client-supplied      *)
(* name itself is kept is not determined by the property: both spellings are accepted.                    *)
P11_uline(R, c, obs) ==
    Accepted(obs) =>
        IF Outcome(R, c).trust
        THEN obs.u # << >> /\ \A i \in 1..Len(obs.u) : obs.u[i] \in {c.user, StripTilde(c.user)}
        ELSE obs.u = << >>

-----------------------------------------------------------------------------
(* B.1  Configuration: the section's entries live in a set ordered by         *)
(* conf_object_cmp (strcasecmp of the names); iauth_class_conf_changed walks  *)
(* it with set_first / set_next and fills a vector in that order.             *)
LoadRule(r) ==
    LET p == IF Present(r.address) THEN AD!PtonAlgo(Val(r.address), TRUE, FALSE)
             ELSE [addr |-> AD!Zeros(8), bits |-> AD!Unset]
    IN  [name |-> r.name, class |-> r.class, account |-> r.account, username |-> r.username,
         hostname |-> r.hostname, xreply_ok |-> r.xreply_ok,
         address |-> p.addr,
         address_bits |-> IF p.bits = AD!Unset THEN 0 ELSE p.bits,      \* the vector is calloc'ed
         trust_username |-> r.trust]

RECURSIVE ConfSetInsert(_, _)
ConfSetInsert(vec, r) ==          \* in-order position of a new node (names are distinct under strcasecmp)
    IF vec = << >> THEN << r >>
    ELSE IF (IF "STRCMP" \in CBug THEN SeqLt(r.name, vec[1].name) ELSE StrCaseLt(r.name, vec[1].name)) THEN << r >> \o vec
    ELSE << vec[1] >> \o ConfSetInsert(Tail(vec), r)

RECURSIVE ConfSet(_)
ConfSet(listing) == IF listing = << >> THEN << >>
                    ELSE ConfSetInsert(ConfSet(SubSeq(listing, 1, Len(listing) - 1)), listing[Len(listing)])

ConfChanged(listing) == LET s == ConfSet(listing) IN [i \in 1..Len(s) |-> LoadRule(s[i])]

-----------------------------------------------------------------------------
(* B.2  The request as the module sees it.                                    *)
ReqOf(c) == [remote_addr   |-> AD!PtonAlgo(c.addr, FALSE, FALSE).addr,
             account       |-> c.acct,
             auth_username |-> c.ident,
             cli_username  |-> c.user,
             hostname      |-> c.host,
             xq            |-> c.xr,
             class         |-> << >>]

(* strchr(req->account, ':') and the copy into acct[] *)
CutStamp(a) == LET sep == AD!FirstIndex(a, Colon) IN IF sep >= 0 THEN SubSeq(a, 1, sep) ELSE a

(* fnmatch(pattern, string, 0) for the restricted pattern language, as the    *)
(* usual backtracking loop: on "*" try the rest of the pattern at every       *)
(* suffix, shortest skip first.                                               *)
RECURSIVE FnMatch(_, _)
RECURSIVE FnStar(_, _, _)
FnStar(p, s, k) == IF FnMatch(p, SubSeq(s, k + 1, Len(s))) THEN TRUE
                   ELSE IF k >= Len(s) THEN FALSE
                   ELSE FnStar(p, s, k + 1)
FnMatch(p, s) ==
    IF p = << >> THEN s = << >>
    ELSE IF p[1] = Star THEN FnStar(Tail(p), s, 0)
    ELSE IF s = << >> THEN FALSE
    ELSE IF p[1] = QMark \/ p[1] = s[1] THEN FnMatch(Tail(p), Tail(s))
    ELSE FALSE

(* iauth_xreply_ok(): 1 OK received, 0 in progress, -2 never asked, -3 other final reply, -4 no such service *)
RECURSIVE XreplyOkLoop(_, _, _)
XreplyOkLoop(xq, name, ii) ==
    IF ii > Len(xq) THEN -4
    ELSE IF ~StrCaseEq(name, xq[ii].svc) THEN XreplyOkLoop(xq, name, ii + 1)
    ELSE IF xq[ii].ok THEN 1
    ELSE IF xq[ii].ref THEN 0
    ELSE IF ~xq[ii].sent THEN -2
    ELSE -3
XreplyOk(req, name) == XreplyOkLoop(req.xq, name, 1)

Trunc(s, n) == IF Len(s) > n THEN SubSeq(s, 1, n) ELSE s

Miss == [hit |-> FALSE, u |-> << >>, class |-> << >>]

(* iauth_class_rule_check *)
RuleCheck(rule, req) ==
    IF Present(rule.account) /\ ~FnMatch(Val(rule.account), IF "STAMP" \in CBug THEN req.account ELSE CutStamp(req.account)) THEN Miss
    ELSE IF rule.address_bits # 0 /\ AD!CheckMaskAlgo(req.remote_addr, rule.address, rule.address_bits) = 0 THEN Miss
    ELSE IF Present(rule.username) /\ ~FnMatch(Val(rule.username), IF "CLIUSER" \in CBug THEN req.cli_username ELSE req.auth_username) THEN Miss
    ELSE IF Present(rule.hostname) /\ ~FnMatch(Val(rule.hostname), req.hostname) THEN Miss
    ELSE IF Present(rule.xreply_ok) /\ XreplyOk(req, Val(rule.xreply_ok)) < (IF "XR0" \in CBug THEN 0 ELSE 1) THEN Miss
    ELSE [hit   |-> TRUE,
          u     |-> IF rule.trust_username /\ ("TRUSTALL" \in CBug \/ (req.auth_username # << >> /\ req.auth_username[1] = Tilde))
                    THEN << StripTilde(req.cli_username) >>        \* iauth_trust_username(req, cli_username + ofs)
                    ELSE << >>,
          class |-> Trunc(IF Present(rule.class) /\ "NAMEONLY" \notin CBug THEN Val(rule.class) ELSE rule.name, CLASSLEN - 1)]      \* strlcpy

(* iauth_class_foreach_rule: for (idx = 0; idx < used && res == 0; ++idx) *)
RECURSIVE ForeachRule(_, _, _)
ForeachRule(vec, idx, req) ==
    IF idx > Len(vec) THEN Miss
    ELSE LET res == RuleCheck(vec[IF "REVERSE" \in CBug THEN Len(vec) + 1 - idx ELSE idx], req)
         IN  IF res.hit
             THEN IF "LAST" \in CBug
                  THEN LET more == ForeachRule(vec, idx + 1, req)
                       IN  IF more.hit THEN [more EXCEPT !.u = res.u \o more.u] ELSE res
                  ELSE res
             ELSE ForeachRule(vec, idx + 1, req)

(* iauth_class_assign: nothing to do if a class is already assigned *)
ClassAssign(vec, req) == IF req.class # << >> THEN [Miss EXCEPT !.class = req.class] ELSE ForeachRule(vec, 1, req)

(* iauth_accept: pre_registered hooks, then the verdict line.  Predicted observation. *)
Accept(vec, c) ==
    LET req == ReqOf(c)
        res == ClassAssign(vec, req)
    IN  [v |-> IF req.account # << >> THEN "R" ELSE "D", cls |-> res.class, acct |-> req.account, u |-> res.u]

=============================================================================
