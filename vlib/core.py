"""Check context: verdict rules (VIOLATION / DRIFT / KNOWN-FINDING), evidence, replays."""
import hashlib
import json
import os
import random
import re
import shutil
import sys
import time
import traceback

from . import build as _build
from . import tlc as _tlc

VERIF = os.path.dirname(os.path.dirname(os.path.abspath(__file__)))
EVIDENCE_DIR = os.path.join(VERIF, "evidence")
REPLAY_DIR = os.path.join(VERIF, "replays")
KNOWN = os.path.join(VERIF, "KNOWN_FINDINGS.json")
if os.environ.get("VERIF_MUTANT"):
    # runs against a patched copy of the repository (self-tests, seeded defects) must not touch the
    # evidence and replays of the real tree
    _m = os.path.join(os.environ.get("VERIF_SCRATCH", "/var/tmp"), "iauthd-verif", "mutant-out-%d" % os.getpid())
    EVIDENCE_DIR = os.path.join(_m, "evidence")
    REPLAY_DIR = os.path.join(_m, "replays")


def load_known():
    try:
        with open(KNOWN) as f:
            return json.load(f).get("findings", [])
    except FileNotFoundError:
        return []


def pool_map(fn, args, nproc, chunksize=1):
    """map over worker processes; a worker that dies (killed from outside, e.g. by the kernel when memory runs out)
    is a machinery failure - never a hang and never a verdict."""
    import concurrent.futures
    from concurrent.futures.process import BrokenProcessPool
    args = list(args)
    try:
        with concurrent.futures.ProcessPoolExecutor(max(1, min(nproc, len(args) or 1))) as ex:
            return list(ex.map(fn, args, chunksize=chunksize))
    except BrokenProcessPool as e:
        raise MachineryError("a worker process died while replaying (killed from outside, e.g. out of memory): %s" % e)


class Ctx:
    """One run of one property's check."""

    def __init__(self, pid, tier, seed, level):
        self.pid = pid
        self.tier = tier
        self.seed = seed
        self.level = level
        self.rng = random.Random(seed)
        self.t0 = time.time()
        self.violations = []      # not matched by a known finding
        self.known_hits = []      # (entry, violation)
        self.drifts = []
        self.notes = []
        self.assumptions = []
        self.cov = {"evaluations": 0, "distinct_nontrivial": 0, "rule": "", "samples": [],
                    "states": 0, "transitions": 0, "traces_validated_against_impl": 0, "exhaustive": False}
        self.tlc_runs = []
        self._build = None
        self._scratch = None
        self._known = [k for k in load_known() if k.get("property") == pid]
        self._seen_sig = set()

    # -- resources -----------------------------------------------------------------
    @property
    def build(self):
        if self._build is None:
            t = time.time()
            self._build = _build.get()
            self.cov["build_s"] = round(time.time() - t, 1)
            self.cov["build_tree_hash"] = os.path.basename(self._build.root)
        return self._build

    @property
    def scratch(self):
        if self._scratch is None:
            self._scratch = _build.run_scratch(self.pid.lower())
        return self._scratch

    def cleanup(self):
        if self._scratch and not os.environ.get("VERIF_KEEP"):
            shutil.rmtree(self._scratch, ignore_errors=True)
        if os.environ.get("VERIF_MUTANT") and not os.environ.get("VERIF_KEEP"):
            shutil.rmtree(os.path.dirname(EVIDENCE_DIR), ignore_errors=True)

    # -- reporting -----------------------------------------------------------------
    def note(self, msg):
        self.notes.append(msg)
        print("  " + msg, flush=True)

    def sample(self, s, limit=6):
        if len(self.cov["samples"]) < limit:
            self.cov["samples"].append(s)

    def tlc(self, module, cfg, **kw):
        """Run TLC; record model-checking numbers in the evidence.  A violated invariant in a
        *model-only* run on the unchanged specs is a machinery error (exit 2), not a VIOLATION."""
        r = _tlc.run(module, cfg, **kw)
        self.tlc_runs.append({"module": module, "cfg": cfg, "generated": r.generated, "distinct": r.distinct,
                              "depth": r.depth, "wall_s": round(r.wall_s, 1), "violated": r.violated,
                              "simulate": kw.get("simulate")})
        return r

    def model_checked(self, r):
        """Account an exhaustive TLC run in the model-checking coverage numbers."""
        self.cov["states"] += r.distinct
        self.cov["transitions"] += r.generated

    def drift(self, msg, detail=None):
        self.drifts.append({"msg": msg, "detail": detail})
        print("DRIFT property=%s %s" % (self.pid, msg), flush=True)

    def violation(self, what, conjunct, signature, replay):
        """Report a violation of the contract observed on the real code.

        signature: canonical short string of the minimised failing input/history; known findings
        match on (conjunct, regex over signature)."""
        for k in self._known:
            if k.get("status") != "known":
                continue
            m = k.get("match", {})
            if m.get("conjunct") not in (None, conjunct):
                continue
            if re.search(m.get("signature", "^$"), signature):
                if (id(k), signature) not in self._seen_sig:
                    self._seen_sig.add((id(k), signature))
                    self.known_hits.append((k, signature))
                return None
        key = (conjunct, signature)
        if key in self._seen_sig:
            return None
        self._seen_sig.add(key)
        os.makedirs(REPLAY_DIR, exist_ok=True)
        body = {"property": self.pid, "conjunct": conjunct, "what": what, "signature": signature,
                "tier": self.tier, "seed": self.seed, "replay": replay}
        h = hashlib.sha256(json.dumps(body, sort_keys=True, default=str).encode()).hexdigest()[:12]
        path = os.path.join(REPLAY_DIR, "%s-%s.json" % (self.pid, h))
        with open(path, "w") as f:
            json.dump(body, f, indent=1, default=str)
        self.violations.append({"what": what, "conjunct": conjunct, "signature": signature, "replay": path})
        return path

    # -- finish --------------------------------------------------------------------
    replay_mode = False      # --replay runs report on stdout only: the evidence file describes the last real run

    def finish(self):
        for k, sig in self.known_hits:
            print("KNOWN-FINDING: property=%s %s [%s]" % (self.pid, k.get("what", ""), sig), flush=True)
        for v in self.violations[:20]:
            print("VIOLATION property=%s replay=%s" % (self.pid, v["replay"]), flush=True)
            print("  conjunct=%s  %s" % (v["conjunct"], v["what"]), flush=True)
            print("  signature: %s" % v["signature"], flush=True)
        cov = dict(self.cov)
        cov["tlc_runs"] = self.tlc_runs
        cov["conformance_to_impl_spec"] = not self.drifts
        if self.drifts:
            cov["drift"] = self.drifts[:10]
        if self.notes:
            cov["notes"] = self.notes[:40]
        if self.known_hits:
            cov["known_findings_hit"] = [k.get("what", "") for k, _ in self.known_hits]
        if self.level == "model_checking":
            # level keys must be measured; fall back is the generic keys, which are present too
            if not cov["states"] or not cov["transitions"]:
                cov.pop("states"), cov.pop("transitions")
        ev = {"property_id": self.pid, "tier": self.tier, "seed": self.seed, "level": self.level,
              "coverage": cov, "assumptions": self.assumptions, "wall_s": round(time.time() - self.t0, 2),
              "violations": len(self.violations)}
        if self.replay_mode:
            return 1 if self.violations else 0
        os.makedirs(EVIDENCE_DIR, exist_ok=True)
        tmp = os.path.join(EVIDENCE_DIR, ".%s.json.tmp" % self.pid)
        with open(tmp, "w") as f:
            json.dump(ev, f, indent=1, default=str)
        os.replace(tmp, os.path.join(EVIDENCE_DIR, "%s.json" % self.pid))
        return 1 if self.violations else 0


class MachineryError(Exception):
    """Something in the verification machinery itself failed (exit 2, never a VIOLATION)."""


def main(argv):
    import argparse
    import importlib
    ap = argparse.ArgumentParser(prog="vcheck")
    ap.add_argument("prop")
    ap.add_argument("--tier", default=os.environ.get("VERIF_TIER", "quick"), choices=["quick", "thorough"])
    ap.add_argument("--seed", type=int, default=int(os.environ.get("VERIF_SEED", "1") or 1))
    ap.add_argument("--replay", default=None)
    a = ap.parse_args(argv)
    if a.prop == "replay":
        ap.error("use: vcheck <Cxx> --replay <path>")
    pid = a.prop.upper()
    mod = importlib.import_module("checks." + pid.lower())
    ctx = Ctx(pid, a.tier, a.seed, getattr(mod, "LEVEL", "model_checking"))
    print("== %s (%s, seed %d): %s" % (pid, a.tier, a.seed, getattr(mod, "TITLE", "")), flush=True)
    rc = 2
    try:
        if a.replay:
            with open(a.replay) as f:
                body = json.load(f)
            ctx.replay_mode = True
            mod.replay(ctx, body)
        else:
            mod.run(ctx)
        rc = ctx.finish()
        print("== %s done in %.1fs: %s" % (pid, time.time() - ctx.t0,
              "VIOLATIONS=%d" % len(ctx.violations) if rc else "held on everything explored"), flush=True)
    except (MachineryError, _tlc.TLCError, _build.BuildError) as e:
        print("MACHINERY-ERROR property=%s: %s" % (pid, e), flush=True)
        traceback.print_exc()
        rc = 2
    except Exception as e:   # noqa
        print("MACHINERY-ERROR property=%s: unexpected %r" % (pid, e), flush=True)
        traceback.print_exc()
        rc = 2
    finally:
        ctx.cleanup()
    return rc
