\* sample; checks/c12.py and checks/c13.py write one configuration per run into their scratch directory
CONSTANTS
  Bug = {}
  DOM = "pat"
  NC = 3
  CHUNK = 0
  NCHUNK = 1
  COUNT = 0
  FULL = FALSE
  MAXLEN = 0
  ALPHA = "A10"
SPECIFICATION Spec
