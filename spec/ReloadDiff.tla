------------------------------ MODULE ReloadDiff ------------------------------
(***************************************************************************)
(* Property C17: the differential oracle.  Two REAL runs are compared:     *)
(*   a = the daemon that was started on an old file and RELOADED (SIGUSR1) *)
(*       with the new one,                                                 *)
(*   b = a daemon FRESHLY started on the new file,                         *)
(* both then serving the same probe clients.  Each line of the ndjson file *)
(* named by TRACE is one compared observation                              *)
(*   {"id": job, "k": index, "kind": K, "a": .., "b": ..}                  *)
(*   K = "step"    a, b: the parsed messages one probe input line printed  *)
(*                 (routing tags renamed by order of first appearance: the *)
(*                 serial component differs between the runs).  Required:  *)
(*                 the same messages as a MULTISET - slots of the service  *)
(*                 table are reused across reloads, so the order in which  *)
(*                 the X lines of one step go out may differ;              *)
(*   K = "config"  a, b: the lines of "-1 ? config".  Required: the same   *)
(*                 set of (name, type) reported as configured by xquery    *)
(*                 ("-name type" lines = records kept only for clients     *)
(*                 that are still awaited are not compared), every other   *)
(*                 line equal as a multiset;                               *)
(*   K = "case"    a, b: what a probe client was told (verdict kind, class *)
(*                 field, account field, U lines) - class-rule probes.     *)
(*                 Required: a = b.                                        *)
(* Offending line numbers are printed as "@@V".                            *)
(***************************************************************************)
EXTENDS Integers, Sequences, FiniteSets, TLC, Json, IOUtils

VARIABLE l
TraceLog == ndJsonDeserialize(IOEnv.TRACE)

Count(seq, v) == Cardinality({n \in 1..Len(seq) : seq[n] = v})
SameBag(a, b) == /\ Len(a) = Len(b)
                 /\ \A n \in 1..Len(a) : Count(a, a[n]) = Count(b, a[n])

IsXq(m) == m.k = "A" /\ m.mod = "xquery" /\ "conf" \in DOMAIN m
Configured(o) == {<<o[n].name, o[n].type>> : n \in {j \in 1..Len(o) : IsXq(o[j]) /\ o[j].conf}}
Others(o) == SelectSeq(o, LAMBDA m : ~IsXq(m))

Same(rec) == CASE rec.kind = "step"   -> SameBag(rec.a, rec.b)
               [] rec.kind = "config" -> Configured(rec.a) = Configured(rec.b) /\ SameBag(Others(rec.a), Others(rec.b))
               [] rec.kind = "case"   -> rec.a = rec.b
               [] OTHER -> FALSE

DInit == l = 1
DNext == /\ l <= Len(TraceLog)
         /\ IF Same(TraceLog[l]) THEN TRUE
            ELSE PrintT("@@V" \o ToJson([l |-> l, id |-> TraceLog[l].id, k |-> TraceLog[l].k]))
         /\ l' = l + 1
=============================================================================
