\* C20: thorough: as quick, but every order of the module_depends() calls
SPECIFICATION Spec
CONSTANTS
    Source = "enum"
    MaxN = 3
    SelfLoops = TRUE
    DepOrders = "all"
    WithMissing = TRUE
    WithAnti = FALSE
    Profiles = "full"
    Bug = "none"
INVARIANTS
    TypeOK RdependsMirrorsDepends SetEmptyAtExit NoGhostInGoodCase
    B_CtorOnce B_DepsConstructedFirst B_PostInitOnce B_PostInitAfterDeps B_DtorBeforeDeps
    B_StartsComplete B_StopsClean B_AbortsWithError B_NeverRunsPartial
ACTION_CONSTRAINT EmitCase
