# add(pid, category, technique, level text, level note, design ref) -- one entry per built check
