----------------------------- MODULE MCAddrMask -----------------------------
(***************************************************************************)
(* C13 (i) on the model: the transcribed irc_check_mask (CheckMaskAlgo)      *)
(* succeeds exactly when the leading bits are equal (PrefixEq), for every    *)
(* prefix length 0..128 and                                                  *)
(*  - every group x every single-bit / low-mask / high-mask difference in    *)
(*    that group x three base addresses, and three identical pairs;          *)
(*  - FULL: in addition every 16-bit difference 1..65535, in group d mod 8.  *)
(* The three formulations of "the leading n bits are equal" used in this     *)
(* framework (bitwise, by groups, by first differing bit) are checked to     *)
(* agree on the same cases.  (The real irc_check_mask is run on all          *)
(* 8 x 65535 (group, difference) pairs by checks/c13.py.)                    *)
(***************************************************************************)
EXTENDS Addr, TLC

CONSTANT FULL

VARIABLE c          \* [lo, hi] range of case indices (16-way split tree)

Bases == << Zeros(8),
            << 65535, 65535, 65535, 65535, 65535, 65535, 65535, 65535 >>,
            << 4660, 43981, 1, 32768, 255, 65280, 21845, 43690 >> >>
NQ     == MaskCaseCount(FALSE)                                        \* 8 * 48
NCases == 3 * NQ + 3 + (IF FULL THEN 65535 ELSE 0)

Init == c = [lo |-> 0, hi |-> NCases - 1]
Split16 == \E k \in 0..15 :
              LET s  == c.hi - c.lo + 1
                  a  == c.lo + (k * s) \div 16
                  b  == c.lo + ((k + 1) * s) \div 16 - 1
              IN  /\ b >= a
                  /\ c' = [lo |-> a, hi |-> b]
Next == c.hi > c.lo /\ Split16

Leaf == c.lo = c.hi
I    == c.lo
Same == I >= 3 * NQ /\ I < 3 * NQ + 3
Wide == I >= 3 * NQ + 3                                              \* the FULL part
D    == IF Wide THEN I - (3 * NQ + 3) + 1 ELSE IF Same THEN 0 ELSE MaskCaseDiff(FALSE, I % NQ)
G    == IF Wide THEN D % 8 ELSE IF Same THEN 0 ELSE MaskCaseGroup(FALSE, I % NQ)
A    == IF Wide THEN Bases[3] ELSE IF Same THEN Bases[I - 3 * NQ + 1] ELSE Bases[(I \div NQ) + 1]
M    == IF Same THEN A ELSE [A EXCEPT ![G + 1] = A[G + 1] ^^ D]

AlgoExact == Leaf => \A n \in 0..128 : (CheckMaskAlgo(A, M, n) = 1) = PrefixEqG(A, M, n)
AlgoRange == Leaf => \A n \in 0..128 : CheckMaskAlgo(A, M, n) \in {0, 1}
DefsAgree == Leaf /\ (~Wide \/ I % 16 = 0) =>
                 \A n \in 0..128 : /\ PrefixEq(A, M, n) = PrefixEqG(A, M, n)
                                   /\ PrefixEq(A, M, n) = (n <= FirstDiff(A, M))
FirstDiffOK == Leaf /\ ~Same => FirstDiff(A, M) \in (16 * G)..(16 * G + 15)
=============================================================================
