CONSTANTS
  ARGV = 2
  Bug <- NoBug
  Alphabet <- Sigma10
  MaxLen = 5
  MaxChunk = 5
  Streams <- AllStreams
  LiveIds <- Live05
INIT RInit
NEXT RNext
INVARIANT DeliveredIsContract
INVARIANT BufferIsTail
INVARIANT NoLineWaiting
INVARIANT ArgvInBounds
INVARIANT AbsentParamIsNull
INVARIANT EofClean
