"""C14  Config parsing is total and a failed load changes nothing.

Inputs: renderings of trees in the documented syntax (printed by TLC from spec/ConfSyntax.tla),
truncated at every byte, with single bytes replaced / deleted / inserted from a hostile
alphabet, plus all short byte strings over a reduced alphabet; each loaded by the real
conf_read() (harness/h_confparse, ASan+UBSan) on top of each of four prior states (nothing
loaded; after F1; after F1 then F2; after F1 then F3 = lists grown past their first allocation - with registered nodes of all four kinds).  Every load is
recorded as begin (bytes, dump before) / end (rc, dump after, hook log); TLC
(spec/ConfParseTrace) judges every line: begin has its end (no crash, no hang), rc # 0 =>
dump unchanged and no hook ran, rc = 0 => the live tree is a well-formed configuration in
which every registered node is still registered.
"""
import hashlib
import time

from vlib import confparse as cp
from vlib import core

LEVEL = "exploration"
TITLE = "Config parsing is total and a failed load changes nothing"

CONJ_TEXT = {
    "C14_Total": "loading the file did not complete (crash, sanitizer abort or hang)",
    "C14_Atomic": "a failed load changed the live configuration",
    "C14_NoNotify": "a failed load delivered a change notification",
    "C14_PostState": "a successful load left a malformed live tree or dropped a registered node",
}

H = cp.hx
REGISTER = [
    "regs . 0 %s %s" % (H("plain"), H("dflt")),
    "regs . 0 %s -" % H("nul"),
    "regp . %s %s %s" % (H("addr"), H("h0"), H("80")),
    "regl . %s %s %s" % (H("lst"), H("x"), H("y")),
    "regs %s 2 %s %s" % (H("obj"), H("num"), H("7")),
    "regs %s 4 %s %s" % (H("obj"), H("ival"), H("1m")),
    "rego . %s" % H("emptyobj"),
]
F1 = (b'plain zz\naddr "::1" 8080\nlst (q, r)\nobj { num 12; extra e }\n'
      b'new { k v; l (1, 2); in { deep "\\x41" } }\nun reg\nnul given\n')
F2 = b'plain yy;addr h2 82\nlst ()\nobj { num 13; ival 2h }\nother { p q r }\n'
UNIT = (b'test_config {\n    plain jane;\n    list this, funky, people;\n    inaddr "::1" 8080\n'
        b'    escaped "\\a\\b\\f\\n\\r\\t\\v\\x41"\n    empty_list ()\n\n    integer 321;\n    volume 1G2M3K4;\n}\n')

# lists that grew beyond their first allocation (4, 8 elements) before the input is applied
F3 = (b'plain ww\nlst (a, b, c, d, e, f, g, h, i)\nobj { num 14 }\n'
      b'new { k v2; l (1, 2, 3, 4, 5, 6) }\nother { m (1, 2, 3, 4, 5) }\n')

STATES = [
    ("S0", REGISTER, {}),
    ("S1", REGISTER + ["load F1 " + H(F1)], {"F1": (REGISTER, F1)}),
    ("S2", REGISTER + ["load F1 " + H(F1), "load F2 " + H(F2)],
     {"F1": (REGISTER, F1), "F2": (REGISTER + ["load F1 " + H(F1)], F2)}),
    ("S3", REGISTER + ["load F1 " + H(F1), "load F3 " + H(F3)],
     {"F1": (REGISTER, F1), "F3": (REGISTER + ["load F1 " + H(F1)], F3)}),
]

HOSTILE = [b"{", b"}", b"(", b")", b",", b";", b'"', b"\\", b"/", b"*", b"\n", b" ", b"a", b"x", b"4", b"#",
           b"\x00", b"\x01", b"\x80", b"\xff", b"\r", b"\t"]
SHORT_Q = [b"a", b" ", b'"', b"\\", b"{", b"}", b"(", b"\n"]
SHORT_T = [b"a", b" ", b'"', b"\\", b"/", b"*", b"{", b"}", b"(", b")", b",", b";", b"\n", b"x"]


# large but bounded inputs: long tokens, many items, deep nesting (see the note on recursion depth in the report)
STRESS = [
    b"a{" * 1500,
    b"a{" * 60 + b"}" * 60 + b"\n",          # (the JSON reader of TLC nests at most 255 levels)
    b"k " + b"x" * 20000 + b"\n",
    b'k "' + b"\\x41" * 5000 + b'"\n',
    b"l (" + b",".join(b"i%d" % i for i in range(1500)) + b")\n",
    b"l " + b", ".join(b"i%d" % i for i in range(1500)) + b"\n",
    b"\n" * 5000 + b"a b\n",
    b"/*" + b"*" * 10000,
    b'"' + b"\\" * 9999,
    b'"' + b"\\" * 10000,
    b'k "' + b"a" * 10000,
    b"k v " * 3000,
]


def _plan(ctx):
    if ctx.tier == "quick":
        return dict(gen=("rnd", dict(total=2, ntapes=1)), nbase=14, maxlen=100, per_pos=1, short=(SHORT_Q, 3), short4=None)
    return dict(gen=("rnd", dict(total=3, ntapes=2)), nbase=90, maxlen=140, per_pos=2, short=(SHORT_T, 3), short4=SHORT_Q)


def _strings(alpha, n):
    out = [b""]
    layer = [b""]
    for _ in range(n):
        layer = [s + a for s in layer for a in alpha]
        out += layer
    return out


def _inputs(ctx, plan, bases):
    """Mutations of the base files + short strings (deduplicated, order deterministic for a seed)."""
    rng = ctx.rng
    seen = set()
    out = []

    def add(b, kind):
        if b not in seen:
            seen.add(b)
            out.append((b, kind))

    for b in bases:
        add(b, "valid")
        for i in range(len(b)):
            add(b[:i], "truncated")
        for i in range(len(b)):
            add(b[:i] + b[i + 1:], "deleted")
            for _ in range(plan["per_pos"]):
                add(b[:i] + rng.choice(HOSTILE) + b[i + 1:], "replaced")
                add(b[:i] + rng.choice(HOSTILE) + b[i:], "inserted")
    # runs of bytes outside printable ASCII (a Latin-1 / UTF-8 comment or string, binary junk) on the line on which
    # the parse then fails: bare, as a quoted string, inside a comment, and as the unterminated end of the file
    pool = bytes(range(0x80, 0x100)) + bytes(c for c in range(1, 0x20) if c not in (10, 13))
    for b in bases:
        for i in range(rng.randrange(3), len(b) + 1, 3):
            run = bytes(rng.choice(pool) for _ in range(rng.choice((9, 12, 17, 24, 25, 40))))
            add(b[:i] + run, "binary run")
            add(b[:i] + b'"' + run, "binary run")
            add(b[:i] + b'"' + run + b'" ' + b[i:], "binary run")
            add(b[:i] + b"/*" + run + b"*/" + b[i:], "binary run")
            add(b[:i] + run + b[i:], "binary run")
    for s in STRESS:
        add(s, "stress")
    alpha, n = plan["short"]
    for s in _strings(alpha, n):
        add(s, "short")
    if plan["short4"]:
        for s in _strings(plan["short4"], 4):
            add(s, "short")
    return out


def _report(ctx, ts_list, viols_list):
    bad = {}
    drift = []
    for (sname, setup, loads, ts), viols in zip(ts_list, viols_list):
        for ci, inv, ln in viols:
            if inv == "Drift_ParseAgrees":
                context, case, cid = ts.locate(ci, ln)
                if case is not None and len(drift) < 5:
                    drift.append((sname, case.files[0]))
                continue
            if inv.startswith("Gen_"):
                raise core.MachineryError("%s failed on a C14 trace (no generated lines expected)" % inv)
            if not inv.startswith(cp.CONTRACT_PREFIXES):
                continue
            context, case, cid = ts.locate(ci, ln)
            if case is None:
                if cid in loads:          # one of the prior state's own loads
                    pre, data = loads[cid]
                    case, use_setup = cp.Case(cid, [data]), pre
                else:
                    raise core.MachineryError("TLC rejected line %d (%s) which belongs to no case" % (ln, inv))
            else:
                use_setup = setup
            size = len(case.files[0]) + (0 if use_setup is setup else -10 ** 6)
            if inv not in bad or size < bad[inv][0]:
                bad[inv] = (size, sname, use_setup, case)
    for inv, (size, sname, setup, case) in sorted(bad.items()):
        again, lines, err = cp.rerun(ctx, setup, case, "c14-" + inv)
        again = [a for a in again if a.startswith(cp.CONTRACT_PREFIXES)]
        if not again:
            ctx.note("%s on %s/%s was not reproduced on a fresh process - not reported" % (inv, sname, case.id))
            continue
        conj = inv if inv in again else again[0]
        nloads = sum(1 for c in setup if c.startswith("load "))
        what = "%s; after %d earlier load(s); input: %s" % (CONJ_TEXT.get(conj, conj), nloads, cp.show(case.files[0]))
        san = cp.sanitizer_summary(err)
        if san:
            what += "; " + san
        sig = "%s|loads=%d|%s" % (conj, nloads, cp.show(case.files[0], 300))
        ctx.violation(what, conj, sig, {"setup": setup, "id": case.id, "files": [f.hex() for f in case.files],
                                        "conjuncts": again, "sanitizer": san})
    for sname, data in drift:
        ctx.drift("ConfSyntax!Parse accepts an input that conf_read() rejects or reads differently (state %s): %s"
                  % (sname, cp.show(data)), {"state": sname, "bytes": data.hex()})


def run(ctx):
    plan = _plan(ctx)
    t0 = time.time()
    mode, params = plan["gen"]
    emitted, r = cp.generate(ctx, mode, "c14", workers=16, **params)
    ctx.model_checked(r)
    pool = sorted((bytes(e["b"]) for e in emitted if 8 <= len(e["b"]) <= plan["maxlen"]), key=lambda b: (len(b), b))
    if len(pool) < plan["nbase"]:
        raise core.MachineryError("only %d renderings of <= %d bytes" % (len(pool), plan["maxlen"]))
    bases = ctx.rng.sample(pool, plan["nbase"]) + [F2, UNIT if ctx.tier == "thorough" else F1[:60] + b"\n"]
    inputs = _inputs(ctx, plan, bases)
    ctx.note("%d base files (%d..%d bytes) -> %d distinct inputs per prior state (%.0fs)"
             % (len(bases), min(map(len, bases)), max(map(len, bases)), len(inputs), time.time() - t0))
    ts_list, viols_list = [], []
    total_cases = 0
    missing_all = []
    kinds = {}
    for sname, setup, loads in STATES:
        cases = [cp.Case("%s-%d" % (sname, i), [b], group=kind) for i, (b, kind) in enumerate(inputs)]
        total_cases += len(cases)
        t1 = time.time()
        res = cp.run_cases(ctx, setup, cases, "c14-" + sname, nproc=16, timeout=900)
        ts = cp.TraceSet(ctx, "c14-" + sname, chunk_lines=8000)
        for i, (outp, errp, rc, part) in enumerate(res):
            missing_all += ts.add_process_output(outp, errp, part, "%s-p%d" % (sname, i))
        ts.finish()
        ctx.cov["replay_s"] = round(ctx.cov.get("replay_s", 0) + time.time() - t1, 1)
        viols = cp.validate(ctx, ts, "ConfParseTraceC14.cfg", parallel=6)
        ts_list.append((sname, setup, loads, ts))
        viols_list.append(viols)
    _report(ctx, ts_list, viols_list)
    if not any(viols_list):
        cp.oracle_selftest(ctx, ts_list[1][3], "ConfParseTraceC14.cfg", False)
    found = bool(ctx.violations or ctx.known_hits)
    for sname, _, _, ts in ts_list:
        nfail = sum(v for k, v in ts.rcs.items() if k not in (0, None))
        if not found and (not nfail or not ts.rcs.get(0)):
            raise core.MachineryError("prior state %s: %d failed and %d successful loads - nothing to judge"
                                      % (sname, nfail, ts.rcs.get(0, 0)))
    if missing_all and not found:
        raise core.MachineryError("%d cases produced no output (harness died?), e.g. %s" % (len(missing_all), missing_all[:3]))
    loads = sum(ts.loads for _, _, _, ts in ts_list)
    rcs = {}
    failed = 0
    for _, _, _, ts in ts_list:
        for k, v in ts.rcs.items():
            rcs[str(k)] = rcs.get(str(k), 0) + v
    for b, kind in inputs:
        kinds[kind] = kinds.get(kind, 0) + 1
    # failed loads of case inputs (setup loads all succeed on the unchanged code): counted from the rc histogram
    failed = sum(v for k, v in rcs.items() if k not in ("0", "None"))
    ctx.cov["evaluations"] = loads
    ctx.cov["traces_validated_against_impl"] = total_cases - len(missing_all)
    ctx.cov["distinct_nontrivial"] = failed
    ctx.cov["rule"] = ("inputs = TLC-rendered valid files (spec/ConfSyntax.tla) truncated at every byte, every byte deleted, replaced and "
                       "preceded by a random byte of a 22-symbol hostile alphabet (incl. NUL, 0x80, 0xff), plus all strings up to "
                       "length 3 (thorough: and 4) over a reduced alphabet; each distinct input is loaded on top of 4 prior states. "
                       "Counted as non-trivial: (prior state, input) pairs whose load FAILED (rc != 0), i.e. the cases in which "
                       "atomicity is actually at stake; all pairs are distinct by construction.")
    ctx.cov["rc_histogram"] = rcs
    ctx.cov["input_kinds"] = kinds
    ctx.cov["prior_states"] = [s for s, _, _ in STATES]
    ctx.cov["exhaustive"] = False
    for b, kind in inputs[1:4] + inputs[len(inputs) // 2:len(inputs) // 2 + 2] + inputs[-1:]:
        ctx.sample({"kind": kind, "input": cp.show(b, 300)})
    ctx.assumptions += [
        "memory errors are observed with AddressSanitizer/UBSan on the inputs explored (exploration, not proof); "
        "detect_leaks=0: leaks on the longjmp error path are out of scope of this property",
        "a hang is a 20 s alarm in the forked child (reported as a load that never ends)",
        "each case runs in a fork() of a process that holds the prior state, so every case sees exactly the same prior state",
        "the dump compares names, kinds, present/specified flags, values, defaults, parsed typed values; resolver state of "
        "host/service pairs is not compared (conf_inaddr_validate is never called)",
        "change notification = the hook of any node registered by the harness or found in the tree after a successful load; "
        "the root object cannot carry a hook",
    ]


def replay(ctx, body):
    rp = body["replay"]
    case = cp.Case(rp["id"], [bytes.fromhex(f) for f in rp["files"]])
    again, lines, err = cp.rerun(ctx, rp["setup"], case, "replay")
    again = [a for a in again if a.startswith(cp.CONTRACT_PREFIXES)]
    for ln in lines:
        print("  " + ln[:400])
    if err.strip():
        print("  stderr: " + err.strip()[:2000])
    if again:
        ctx.violation(body.get("what", ""), again[0], body.get("signature", ""), rp)
    else:
        ctx.note("replay: the contract holds on this case now")
    ctx.cov["evaluations"] = 1
    ctx.cov["distinct_nontrivial"] = len(lines)
    ctx.cov["rule"] = "replay of one recorded case; counted: trace lines judged by TLC"
    ctx.sample({"input": cp.show(case.files[0])})
