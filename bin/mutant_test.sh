#!/bin/sh
# usage: bin/mutant_test.sh <patch.diff | revert:<commit>> <Cxx> [tier]   -- runs a check against a patched COPY of /repo
set -e
P=$1; C=$2; T=${3:-quick}
ROOT=${VERIF_SCRATCH:-/var/tmp}/iauthd-verif
mkdir -p "$ROOT"
D=$(mktemp -d "$ROOT/mut-XXXXXX")
trap 'rm -rf "$D"' EXIT
rsync -a --exclude .git --exclude '*.o' --exclude '*.lo' --exclude '.libs' /repo/ "$D"/
case "$P" in
  revert:*) git -C /repo show "${P#revert:}" | (cd "$D" && patch -R -p1 -s) ;;
  *) (cd "$D" && patch -p1 -s < "$P") ;;
esac
cd "$(dirname "$0")/.."
VERIF_REPO="$D" VERIF_MUTANT=1 bin/vcheck "$C" --tier "$T"
