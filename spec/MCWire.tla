------------------------------- MODULE MCWire -------------------------------
(***************************************************************************)
(* Model-checks the wire grammar IAuthWire.tla against a generator of the  *)
(* documented message forms: every message built by Gen(form, fields) over *)
(* small field pools must be WellFormed and, when client-directed,         *)
(* Addressed for the matching announcement and NOT Addressed for a         *)
(* different id / address / port; and each lexical corruption (double      *)
(* space, leading / trailing space, control character, missing id or port, *)
(* address text that is no address, log-style text) must be rejected.      *)
(* One state per (form, field choice, corruption).                         *)
(***************************************************************************)
EXTENDS IAuthWire, TLC

VARIABLES form, fld, cor

Forms == {"gt", "G", "O", "V", "a", "A", "s", "S", "X", "o", "U", "u", "N", "I", "M", "C", "k", "D", "Dc", "R", "Rc", "d"}
Words == {T("x"), T("nick1"), T("~user"), T("host.example.org"), T("acct:77")}
Texts == {T(""), T("one"), T("two words"), T(":colon first"), T("  spaces  ")}
\* an address text that starts with ':' would be read as a trailing parameter (corruption "colonaddr" below)
AddrTexts == {T("10.0.0.5"), T("0::1"), T("2001:db8::1"), T("0:0:0:0:0:ffff:102:304"), T("0::ffff:1.2.3.4"), T("1:0:1:0:1:0:0:1")}
Ports == {T("0"), T("1"), T("6667"), T("65535")}
IdsT == {T("1"), T("5"), T("-1"), T("1234567")}

Join2(a, b) == a \o <<Space>> \o b
RECURSIVE JoinAll(_)
JoinAll(ws) == IF Len(ws) = 1 THEN ws[1] ELSE ws[1] \o <<Space>> \o JoinAll(Tail(ws))
Trail(t) == <<ColonC>> \o t

Gen(f, x) ==     \* x = [w, w2, t, a, p, i]
    LET cli(k, rest) == JoinAll(<<T(k), x.i, x.a, x.p>> \o rest) IN
    CASE f = "gt" -> JoinAll(<<T(">"), Trail(x.t)>>)
      [] f = "G" -> JoinAll(<<T("G"), T("2")>>)
      [] f = "O" -> JoinAll(<<T("O"), T("SARTUW")>>)
      [] f = "V" -> JoinAll(<<T("V"), Trail(x.t)>>)
      [] f = "a" -> T("a")
      [] f = "s" -> T("s")
      [] f = "A" -> JoinAll(<<T("A"), x.w, Trail(x.t)>>)
      [] f = "S" -> JoinAll(<<T("S"), x.w, Trail(x.t)>>)
      [] f = "X" -> JoinAll(<<T("X"), x.w, T("5_1f"), Trail(x.t)>>)
      [] f \in {"o", "U", "u", "N"} -> cli(f, <<x.w>>)
      [] f = "I" -> cli("I", <<x.a>>)
      [] f = "M" -> cli("M", <<Trail(T("+x"))>>)
      [] f \in {"C", "k"} -> cli(f, <<Trail(x.t)>>)
      [] f = "D" -> cli("D", <<>>)
      [] f = "Dc" -> cli("D", <<x.w>>)
      [] f = "R" -> cli("R", <<x.w>>)
      [] f = "Rc" -> cli("R", <<x.w, x.w2>>)
      [] f = "d" -> cli("d", <<>>)

IsCli(f) == f \in {"o", "U", "u", "N", "I", "M", "C", "k", "D", "Dc", "R", "Rc", "d"}

Corruptions == {"none", "colonaddr", "dblspace", "lead", "trailsp", "ctrl", "noid", "noport", "badaddr", "logtext", "empty", "bigport"}
Corrupt(c, f, x, line) ==
    CASE c = "none" -> line
      [] c = "dblspace" -> <<line[1], Space, Space>> \o SubSeq(line, 3, Len(line))     \* after the one-letter command
      [] c = "lead" -> <<Space>> \o line
      [] c = "trailsp" -> IF f \in {"a", "s", "d", "D"} \/ ~(\E k \in 1..Len(line) : line[k] = ColonC /\ k > 1 /\ line[k - 1] = Space)
                          THEN line \o <<Space>> ELSE <<>>
      [] c = "ctrl" -> SubSeq(line, 1, 1) \o <<7>> \o SubSeq(line, 2, Len(line))
      [] c = "noid" -> IF IsCli(f) THEN JoinAll(<<SubSeq(line, 1, 1), x.a, x.p>>) ELSE <<>>
      [] c = "noport" -> IF IsCli(f) THEN JoinAll(<<SubSeq(line, 1, 1), x.i, x.a>>) ELSE <<>>
      [] c = "badaddr" -> IF IsCli(f) THEN JoinAll(<<SubSeq(line, 1, 1), x.i, T("1:0:1:0::1::"), x.p>>) ELSE <<>>
      [] c = "colonaddr" -> IF IsCli(f) THEN JoinAll(<<SubSeq(line, 1, 1), x.i, T("::1"), x.p>>) ELSE <<>>
      [] c = "bigport" -> IF IsCli(f) THEN JoinAll(<<SubSeq(line, 1, 1), x.i, x.a, T("65536")>>) ELSE <<>>
      [] c = "logtext" -> T("iauth: Unrecognized info request: bogus")
      [] c = "empty" -> <<>>

\* field choices: NField combinations that cycle through the pools with different periods (every pair of values of two
\* fields occurs together for NField >= 60; the full product adds nothing, the fields are handled independently)
CONSTANT NField
SeqOf(S) == CHOOSE q \in [1..Cardinality(S) -> S] : \A a, b \in 1..Cardinality(S) : a # b => q[a] # q[b]
WordsQ == SeqOf(Words)  TextsQ == SeqOf(Texts)  AddrQ == SeqOf(AddrTexts)  PortsQ == SeqOf(Ports)  IdsQ == SeqOf(IdsT)
Fields == { [w |-> WordsQ[(k % 5) + 1], w2 |-> T("cls"), t |-> TextsQ[((k \div 5 + k) % 5) + 1], a |-> AddrQ[(k % 6) + 1],
             p |-> PortsQ[((k \div 6 + k) % 4) + 1], i |-> IdsQ[((k \div 3) % 4) + 1]] : k \in 0..(NField - 1) }

Init == form \in Forms /\ fld \in Fields /\ cor \in Corruptions
Next == UNCHANGED <<form, fld, cor>>

Line == Gen(form, fld)
AnnFor(x) == (IntVal(x.i) :> [addr |-> AD!Denote(x.a), port |-> DecVal(x.p, 0)])
Other(x) == (IntVal(x.i) :> [addr |-> AD!Denote(T("10.9.9.9")), port |-> DecVal(x.p, 0)])
OtherPort(x) == (IntVal(x.i) :> [addr |-> AD!Denote(x.a), port |-> 4242])

GeneratedAccepted == cor = "none" => WellFormed(Line)
CorruptedRejected == cor # "none" => LET c == Corrupt(cor, form, fld, Line) IN (c = <<>> /\ cor # "empty") \/ ~WellFormed(c)
AddressedRight == cor = "none" /\ IsCli(form) =>
                     /\ Addressed(Line, AnnFor(fld))
                     /\ ~Addressed(Line, Other(fld))
                     /\ ~Addressed(Line, OtherPort(fld))
                     /\ ~Addressed(Line, <<>>)
=============================================================================
