------------------------------ MODULE ConfTrace ------------------------------
(***************************************************************************)
(* Trace validation for property C15: the ndjson trace that harness/h_conf *)
(* printed while driving the real src/config.c (dump of the live tree and  *)
(* hook log after every command) is checked, step by step,                 *)
(*   - against the contract (A) of Conf.tla: the oracle; a conjunct that   *)
(*     fails is put into `failed` (invariants C15_* name them) and printed *)
(*     as an "@@V" line;                                                    *)
(*   - against what the implementation-shaped operators (B) of Conf.tla    *)
(*     compute from the observed state before the step: a difference is    *)
(*     printed as an "@@D" line (drift), never a failure.                   *)
(*                                                                         *)
(* Trace file: a TREE of executions.  Line 1 is                              *)
(*   {"e":"Header","names":[all names, strcasecmp order],"kids":[[..],..]}  *)
(* every other line is the "begin" or the "end" line of one command.  A     *)
(* node of the tree is a command executed in the state its parent left      *)
(* (the harness forks at every branching point); it is identified by the    *)
(* number of its "begin" line, the root (nothing executed yet) by 1, and    *)
(* kids[i] lists the nodes whose parent is node i (computed by the driver   *)
(* from the "n"/"par" fields, a purely syntactic projection).  Every path   *)
(* from the root is one history; TLC's breadth-first search walks the tree  *)
(* and judges every edge once.  A "begin" that is not followed by its "end" *)
(* (crash, sanitizer abort) fails C15_Completes; nothing hangs below it.    *)
(*                                                                         *)
(* Variables of Conf.tla reused here: live = the tree observed after the   *)
(* last step, reg = registrations seen, last = <<>> or <<last good file>>. *)
(***************************************************************************)
EXTENDS Conf, IOUtils

TraceLog == ndJsonDeserialize(IOEnv.TRACE)
N == Len(TraceLog)
TraceNameOrd == LET names == TraceLog[1].names
                IN [n \in Range(names) |-> CHOOSE j \in 1..Len(names) : names[j] = n]
NoOpts == <<>>
NoKeys == {}

VARIABLES l,        \* the node we are at: number of its "begin" line, 1 = root
          failed    \* names of the contract conjuncts the step just taken violates
tvars == <<l, failed, live, reg, last, phase, ev, hooks, hist>>

Kids == TraceLog[1].kids

-----------------------------------------------------------------------------
(* reading the harness's records *)
KeyOfRec(r) == <<r.p, r.k>>

TreeOf(e) ==
  LET recs == e.tree
      keys == {KeyOfRec(recs[j]) : j \in 1..Len(recs)}
  IN [k \in keys \cup {RootKey} |->
        IF k = RootKey
        THEN [RootNode EXCEPT !.pr = (e.root.pr = 1), !.sp = (e.root.sp = 1)]
        ELSE LET r == recs[CHOOSE j \in 1..Len(recs) : KeyOfRec(recs[j]) = k]
             IN [pr |-> r.pr = 1, sp |-> r.sp = 1, v |-> r.v, d |-> r.d, s |-> r.s, z |-> r.z]]

DumpKeys(e) == [j \in 1..Len(e.tree) |-> KeyOfRec(e.tree[j])]
NoDuplicates(e) == \A i, j \in 1..Len(e.tree) : KeyOfRec(e.tree[i]) = KeyOfRec(e.tree[j]) => i = j
HookSeq(e) == [j \in 1..Len(e.hooks) |-> KeyOfRec(e.hooks[j])]
FileOf(b) ==
  LET f == b.f
  IN [k \in {KeyOfRec(f[j]) : j \in 1..Len(f)} |-> f[CHOOSE j \in 1..Len(f) : KeyOfRec(f[j]) = k].v]

(* line c is a "begin" and line c + 1 its "end" *)
IsPair(c) == /\ c + 1 <= N
             /\ TraceLog[c].e = "begin" /\ TraceLog[c + 1].e = "end"
             /\ TraceLog[c].n = TraceLog[c + 1].n
IsBad(b) == "bad" \in DOMAIN b

Names(S) == {c[1] : c \in {c \in S : c[2]}}      \* S: set of <<name, holds>>; the names that do not hold

Report(tag, i, what) == IF what = {} THEN TRUE ELSE PrintT(<<tag, i, what>>)   \* (a disjunction would branch)

-----------------------------------------------------------------------------
TInit ==
  /\ l = 1
  /\ failed = {}
  /\ live = EmptyTree /\ reg = <<>> /\ last = <<>>
  /\ phase = 0 /\ ev = [op |-> "trace"] /\ hooks = <<>> /\ hist = <<>>

Quiet == UNCHANGED <<phase, ev, hooks, hist>>

Dump(c) ==
  /\ IsPair(c) /\ TraceLog[c].op = "dump"
  /\ failed' = {}
  /\ UNCHANGED <<live, reg, last>> /\ Quiet

RegisterStep(c) ==
  /\ IsPair(c) /\ TraceLog[c].op = "reg"
  /\ LET b == TraceLog[c]
         e == TraceLog[c + 1]
         k == KeyOfRec(b)
         o == [d |-> b.d, s |-> b.s]
         post == TreeOf(e)
         reg2 == (k :> o) @@ reg
         bad == Names({ <<"C15_Register", ~(NoDuplicates(e) /\ RegisterOK(reg2, last, live, post, k))>> })
         pred == RegisterImpl(live, k, o)
         drift == Names({ <<"tree", pred # post>>,
                          <<"order", DumpKeys(e) # DumpOrder(DOMAIN post, <<>>)>>,
                          <<"hooks", e.hooks # <<>> >> })
     IN /\ failed' = bad
        /\ Report("@@V", c, bad)
        /\ Report("@@D", c, IF bad = {} THEN drift ELSE {})
        /\ live' = post
        /\ reg' = reg2
  /\ UNCHANGED last /\ Quiet

LoadStep(c) ==
  /\ IsPair(c) /\ TraceLog[c].op = "load" /\ ~IsBad(TraceLog[c]) /\ TraceLog[c + 1].rc = 0
  /\ LET b == TraceLog[c]
         e == TraceLog[c + 1]
         file == FileOf(b)
         post == TreeOf(e)
         hk == HookSeq(e)
         bad == Names({ <<"C15_Values", ~ValuesOK(reg, file, post)>>,
                        <<"C15_Leftovers", ~(NoDuplicates(e) /\ LeftoversGone(reg, file, post))>>,
                        <<"C15_FileNodes", ~FileNodesOK(file, post)>>,
                        <<"C15_Idempotent", ~IdempotentOK(reg, file, last, live, post, hk)>>,
                        <<"C15_SettingHook", ~SettingHookOK(reg, live, post, hk)>>,
                        <<"C15_ObjectHook", ~ObjectHookOK(reg, live, post, hk)>> })
         pred == MergeImpl(live, file)
         drift == Names({ <<"tree", pred.t # post>>,
                          <<"order", DumpKeys(e) # DumpOrder(DOMAIN post, <<>>)>>,
                          <<"hooks", pred.h # hk>> })
     IN /\ failed' = bad
        /\ Report("@@V", c, bad)
        /\ Report("@@D", c, IF bad = {} THEN drift ELSE {})
        /\ live' = post
        /\ last' = <<file>>
  /\ UNCHANGED reg /\ Quiet

(* conf_read() reported an error: the last good state stays.  (A file that was meant to be good *)
(* and does not load is counted by the driver; the contract only speaks about successful loads.) *)
FailedLoadStep(c) ==
  /\ IsPair(c) /\ TraceLog[c].op = "load" /\ TraceLog[c + 1].rc # 0
  /\ LET e == TraceLog[c + 1]
         post == TreeOf(e)
         bad == Names({ <<"C15_LastGood", ~(NoDuplicates(e) /\ FailedLoadOK(reg, live, post, HookSeq(e)))>> })
         drift == Names({ <<"tree", live # post>> })
     IN /\ failed' = bad
        /\ Report("@@V", c, bad)
        /\ Report("@@D", c, IF bad = {} THEN drift ELSE {})
        /\ IF IsBad(TraceLog[c]) THEN TRUE ELSE PrintT(<<"@@U", c>>)     \* a file that was meant to be good
        /\ live' = post
  /\ UNCHANGED <<reg, last>> /\ Quiet

Consumable(c) ==
  \/ IsPair(c) /\ TraceLog[c].op \in {"dump", "reg"}
  \/ IsPair(c) /\ TraceLog[c].op = "load" /\ (TraceLog[c + 1].rc # 0 \/ ~IsBad(TraceLog[c]))

(* the command did not complete (crash, sanitizer abort: "begin" without "end"), or a deliberately *)
(* broken file loaded: the history ends here                                                        *)
Stuck(c) ==
  /\ ~Consumable(c)
  /\ failed' = {"C15_Completes"}
  /\ PrintT(<<"@@V", c, {"C15_Completes"}>>)
  /\ UNCHANGED <<live, reg, last>> /\ Quiet

TNext == \E j \in 1..Len(Kids[l]) :
           LET c == Kids[l][j]
           IN /\ l' = c
              /\ (Dump(c) \/ RegisterStep(c) \/ LoadStep(c) \/ FailedLoadStep(c) \/ Stuck(c))

TraceSpec == TInit /\ [][TNext]_tvars

C15_Completes   == "C15_Completes" \notin failed
C15_Values      == "C15_Values" \notin failed
C15_Leftovers   == "C15_Leftovers" \notin failed
C15_FileNodes   == "C15_FileNodes" \notin failed
C15_Idempotent  == "C15_Idempotent" \notin failed
C15_SettingHook == "C15_SettingHook" \notin failed
C15_ObjectHook  == "C15_ObjectHook" \notin failed
C15_Register    == "C15_Register" \notin failed
C15_LastGood    == "C15_LastGood" \notin failed
=============================================================================
