#!/usr/bin/env python3
"""Markdown table of the committed evidence files (what the last run of each check covered)."""
import glob
import json
import os

VERIF = os.path.dirname(os.path.dirname(os.path.abspath(__file__)))
print("| id | tier | level | TLC states / transitions (exhaustive runs) | steps on the real code | histories / traces validated | wall |")
print("|---|---|---|---|---|---|---|")
for f in sorted(glob.glob(os.path.join(VERIF, "evidence", "C*.json"))):
    e = json.load(open(f))
    c = e["coverage"]
    print("| %s | %s | %s | %s / %s | %s | %s | %.0f s |" % (e["property_id"], e["tier"], e["level"], c.get("states", "-"),
          c.get("transitions", "-"), c.get("evaluations", "-"), c.get("traces_validated_against_impl", "-"), e["wall_s"]))
