\* C20: the cases of the ndjson file IOEnv.CASES (random graphs on 5-6 modules, sampled 4-module cases, replays)
SPECIFICATION Spec
CONSTANTS
    Source = "file"
    MaxN = 6
    SelfLoops = TRUE
    DepOrders = "asc"
    WithMissing = TRUE
    WithAnti = FALSE
    Profiles = "full"
    Bug = "none"
INVARIANTS
    TypeOK LoadingIsInnermostCtor RdependsMirrorsDepends SetEmptyAtExit NoGhostInGoodCase
    B_CtorOnce B_DepsConstructedFirst B_PostInitOnce B_PostInitAfterDeps B_DtorBeforeDeps
    B_StartsComplete B_StopsClean B_AbortsWithError B_NeverRunsPartial
ACTION_CONSTRAINT EmitCase
