CONSTANTS
  Services <- S_q1
  TimeoutOn = TRUE
  Bug <- NoBug
  Ids <- Ids1
  MaxInst = 2
  MaxPw = 2
  StrayLevel = 1
  JunkOn = TRUE
  Rich = FALSE
  PwOn = TRUE
  RichSel <- NoRich
  Script <- NoScript
  EmitMod = 0
  SimDepth = 38
INIT MCInit
NEXT MCNext
VIEW MCView
ACTION_CONSTRAINT Emit
INVARIANT P01_once
INVARIANT P02_gate
INVARIANT P03_prompt
INVARIANT P04_stray
INVARIANT P05_content
INVARIANT P06_queries
INVARIANT P07_scope
INVARIANT P09_wire
INVARIANT P10_count
INVARIANT P17_config
INVARIANT HoldsSane
INVARIANT SerialsUnique
INVARIANT SerialBound
INVARIANT RefsCover
INVARIANT TimerSane
INVARIANT NoReadyLeft
INVARIANT Agree
