#!/bin/sh
# usage: bin/mk_worktree.sh <dir>  -- scratch git worktree of /repo HEAD with the (git-ignored) autotools files, configured and built
set -e
D=$1
git -C /repo worktree add -q --detach "$D" HEAD 2>/dev/null || true
cd /repo
rsync -a configure Makefile.in aclocal.m4 autoconf autoconf.h.in "$D"/
for f in src/Makefile.in modules/Makefile.in tests/Makefile.in; do [ -f "$f" ] && rsync -aR "$f" "$D"/ || true; done
cd "$D"
./configure -q >/dev/null 2>&1
make -s -j8 >/dev/null 2>&1
make -s check >/dev/null 2>&1 || true
echo "$D: $(grep -c '^ok ' tests/test_all.sh.log) ok, $(grep -c '^not ok ' tests/test_all.sh.log) not ok"
