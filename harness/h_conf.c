// LINK: src/config.c src/set.c src/common.c src/log.c src/module.c src/bitset.c src/accumulators.c src/git-version.c
/* h_conf - drives the configuration tree of src/config.c along a script and prints an ndjson trace.
 *
 * Property C15 (reload / merge semantics).  The script comes on stdin, one command per line:
 *
 *   register string <path> <sub> <def>    sub: plain boolean integer float interval volume
 *   register inaddr <path> <defhost> <defservice>
 *   register list   <path> <n> <e1> ... <en>     (conf_register_string_list, varargs, n <= 4)
 *   register listsv <path> <n> <e1> ... <en>     (conf_register_string_list_sv)
 *   register object <path>
 *   load <file> [<members>]               conf_read(file); <members> (rest of the line, JSON object members such
 *                                         as "f":[...] - the abstract content of the file) are echoed in "begin"
 *   dump
 *
 * <path> is a/b/c (names; every proper prefix must have been registered as an object by this
 * script - that is how consumers get a parent pointer); "." is the root.  String tokens are
 * "~" (NULL) or "=" followed by the text (%XX escapes allowed), so "=" is the empty string.
 * Right after a registration the harness installs one hook on the node; the hook appends the
 * node (path, kind) to the hook log of the running command.  The root object carries the same
 * hook from the start.
 *
 * After every command two lines are printed:
 *   {"e":"begin","n":N,"op":...}
 *   {"e":"end","n":N,"rc":RC,"tree":[...],"hooks":[...]}
 * so that a crash or a sanitizer abort leaves a "begin" without "end".  A tree record is
 *   {"p":[lower-cased names from the root],"nm":"name as stored","k":"s|i|l|o","pr":0|1,"sp":0|1,
 *    "v":[...],"d":[...],"s":"subtype","z":"parsed"}
 * in the order of the live tree (in-order walk of every object's set, parents before children;
 * the daemon's own "logs" section that log.c registers is left out).  v / d are the value and the
 * registered default as arrays of string tokens (string: 1, pair: 2, list: n, object: 0 tokens);
 * z is, for a plain string, the token of parsed.p_string, for a typed string "#<number>", else "".
 *
 * Tree mode (argument "-t"): the script is a prefix tree of histories in pre-order, one line
 *   node <id> <parent id> <depth> <command>
 * per node (depth 1 = first command of a history).  The children of a node all start from the state
 * the process is in after the node's command: each child runs in a forked copy of the process (the last
 * child of a non-top node reuses the process, nobody needs its state any more), so every root-to-leaf
 * path is a history executed on its own process image and every tree edge is executed exactly once.
 * begin/end lines carry "n":<id> and "par":<parent id>; a child that does not exit with status 0 is
 * reported as {"e":"exit","n":<id of the forked node>,"st":..,"sig":..}.
 */
#include "src/common.h"
#include <sys/wait.h>
#include <errno.h>

struct event_base *ev_base;
struct evdns_base *ev_dns;
int clean_exit;

#define MAXTOK 64
#define MAXOBJ 256
#define MAXHOOK 1024

static struct { char *path; struct conf_node_object *obj; } objs[MAXOBJ];
static unsigned int n_objs;

static char *hook_log[MAXHOOK];
static unsigned int n_hooks;
static unsigned int step_no;
static long node_id = -1, node_par = -1;   /* tree mode: ids of the node being run and of its parent */

static const char *kind_names[] = { "s", "i", "l", "o" };
static const char *sub_names[] = { "plain", "boolean", "integer", "float", "interval", "volume" };

static void die(const char *msg, const char *arg)
{
    fflush(stdout);
    fprintf(stderr, "h_conf: %s%s%s\n", msg, arg ? ": " : "", arg ? arg : "");
    _exit(3);
}

static void json_str(FILE *f, const char *s)
{
    fputc('"', f);
    for (; *s; ++s) {
        unsigned char c = (unsigned char)*s;
        if (c == '"' || c == '\\')
            fprintf(f, "\\%c", c);
        else if (c < 0x20 || c >= 0x7f)
            fprintf(f, "\\u%04x", c);
        else
            fputc(c, f);
    }
    fputc('"', f);
}

/* token of a possibly-NULL C string */
static void json_tok(FILE *f, const char *s)
{
    if (!s) {
        fputs("\"~\"", f);
        return;
    }
    fputs("\"=", f);
    for (; *s; ++s) {
        unsigned char c = (unsigned char)*s;
        if (c == '"' || c == '\\')
            fprintf(f, "\\%c", c);
        else if (c < 0x20 || c >= 0x7f)
            fprintf(f, "\\u%04x", c);
        else
            fputc(c, f);
    }
    fputc('"', f);
}

/* decode a script token: "~" -> NULL, "=text" -> strdup(text) with %XX unescaped */
static char *tok_decode(const char *t)
{
    char *res, *o;

    if (!strcmp(t, "~"))
        return NULL;
    if (t[0] != '=')
        die("bad string token", t);
    res = o = malloc(strlen(t) + 1);
    for (++t; *t; ++t) {
        if (t[0] == '%' && isxdigit((unsigned char)t[1]) && isxdigit((unsigned char)t[2])) {
            char hex[3] = { t[1], t[2], 0 };
            *o++ = (char)strtoul(hex, NULL, 16);
            t += 2;
        } else
            *o++ = *t;
    }
    *o = '\0';
    return res;
}

/* prints ["a","b"] (lower-cased names from the root) for a node */
static void path_of(FILE *f, const struct conf_node_base *n)
{
    const struct conf_node_base *chain[64];
    int depth = 0, ii;

    for (; n && n->parent; n = &n->parent->base)
        if (depth < 64)
            chain[depth++] = n;
    fputc('[', f);
    for (ii = depth - 1; ii >= 0; --ii) {
        char buf[256];
        unsigned int jj;
        for (jj = 0; chain[ii]->name[jj] && jj + 1 < sizeof(buf); ++jj)
            buf[jj] = (char)tolower((unsigned char)chain[ii]->name[jj]);
        buf[jj] = '\0';
        json_str(f, buf);
        if (ii)
            fputc(',', f);
    }
    fputc(']', f);
}

static CONF_UPDATE_HOOK(hook_cb)
{
    char *buf = NULL;
    size_t len = 0;
    FILE *m;

    if (n_hooks >= MAXHOOK)
        return;
    m = open_memstream(&buf, &len);
    fputs("{\"p\":", m);
    path_of(m, node_);
    fprintf(m, ",\"k\":\"%s\"}", kind_names[node_->type]);
    fclose(m);
    hook_log[n_hooks++] = buf;
}

static void dump_node(const struct conf_node_base *n, int *first)
{
    unsigned int ii;

    if (!*first)
        fputc(',', stdout);
    *first = 0;
    fputs("{\"p\":", stdout);
    path_of(stdout, n);
    fputs(",\"nm\":", stdout);
    json_str(stdout, n->name);
    printf(",\"k\":\"%s\",\"pr\":%d,\"sp\":%d,\"v\":[", kind_names[n->type], n->present, n->specified);
    switch (n->type) {
    case CONF_STRING: {
        const struct conf_node_string *s = ENCLOSING_STRUCT(n, struct conf_node_string, base);
        json_tok(stdout, s->value);
        fputs("],\"d\":[", stdout);
        json_tok(stdout, s->def_value);
        printf("],\"s\":\"%s\",\"z\":", (unsigned)s->subtype < ARRAY_LENGTH(sub_names) ? sub_names[s->subtype] : "?");
        switch (s->subtype) {
        case CONF_STRING_PLAIN: json_tok(stdout, s->parsed.p_string); break;
        case CONF_STRING_BOOLEAN: printf("\"#%d\"", s->parsed.p_boolean); break;
        case CONF_STRING_INTEGER: printf("\"#%d\"", s->parsed.p_integer); break;
        case CONF_STRING_FLOAT: printf("\"#%g\"", s->parsed.p_double); break;
        case CONF_STRING_INTERVAL: printf("\"#%u\"", s->parsed.p_interval); break;
        case CONF_STRING_VOLUME: printf("\"#%u\"", s->parsed.p_volume); break;
        default: fputs("\"?\"", stdout); break;
        }
        fputc('}', stdout);
        break;
    }
    case CONF_INADDR: {
        const struct conf_node_inaddr *a = ENCLOSING_STRUCT(n, struct conf_node_inaddr, base);
        json_tok(stdout, a->hostname);
        fputc(',', stdout);
        json_tok(stdout, a->service);
        fputs("],\"d\":[", stdout);
        json_tok(stdout, a->def_hostname);
        fputc(',', stdout);
        json_tok(stdout, a->def_service);
        fputs("],\"s\":\"\",\"z\":\"\"}", stdout);
        break;
    }
    case CONF_STRING_LIST: {
        const struct conf_node_string_list *l = ENCLOSING_STRUCT(n, struct conf_node_string_list, base);
        for (ii = 0; ii < l->value.used; ++ii) {
            if (ii)
                fputc(',', stdout);
            json_tok(stdout, l->value.vec[ii]);
        }
        fputs("],\"d\":[", stdout);
        for (ii = 0; ii < l->def_value.used; ++ii) {
            if (ii)
                fputc(',', stdout);
            json_tok(stdout, l->def_value.vec[ii]);
        }
        fputs("],\"s\":\"\",\"z\":\"\"}", stdout);
        break;
    }
    case CONF_OBJECT: {
        struct conf_node_object *o = ENCLOSING_STRUCT(n, struct conf_node_object, base);
        struct set_node *it;
        fputs("],\"d\":[],\"s\":\"\",\"z\":\"\"}", stdout);
        for (it = set_first(&o->contents); it; it = set_next(it))
            dump_node(set_node_data(it), first);
        break;
    }
    }
}

static void dump_tree(void)
{
    struct conf_node_object *root = conf_get_root();
    struct set_node *it;
    int first = 1;

    fputs("\"root\":{\"pr\":", stdout);
    printf("%d,\"sp\":%d},\"tree\":[", root->base.present, root->base.specified);
    for (it = set_first(&root->contents); it; it = set_next(it)) {
        struct conf_node_base *n = set_node_data(it);
        if (n->type == CONF_OBJECT && !strcasecmp(n->name, "logs"))
            continue;
        dump_node(n, &first);
    }
    fputc(']', stdout);
}

static struct conf_node_object *find_obj(const char *path)
{
    unsigned int ii;

    if (!*path)
        return conf_get_root();
    for (ii = 0; ii < n_objs; ++ii)
        if (!strcasecmp(objs[ii].path, path))
            return objs[ii].obj;
    die("parent object was not registered by this script", path);
    return NULL;
}

/* splits "a/b/c" into parent path "a/b" and name "c" */
static void split_path(const char *path, char **parent, char **name)
{
    const char *slash = strrchr(path, '/');
    if (!strcmp(path, ".") || !*path)
        die("cannot register the root", path);
    if (slash) {
        *parent = strndup(path, slash - path);
        *name = strdup(slash + 1);
    } else {
        *parent = strdup("");
        *name = strdup(path);
    }
}

static void begin_path(const char *path)
{
    char *copy = strdup(path), *tok, *save = NULL;
    int first = 1;

    fputc('[', stdout);
    for (tok = strtok_r(copy, "/", &save); tok; tok = strtok_r(NULL, "/", &save)) {
        char *c;
        for (c = tok; *c; ++c)
            *c = (char)tolower((unsigned char)*c);
        if (!first)
            fputc(',', stdout);
        first = 0;
        json_str(stdout, tok);
    }
    fputc(']', stdout);
    free(copy);
}

static void begin_line(const char *op)
{
    if (node_id >= 0)
        printf("{\"e\":\"begin\",\"n\":%ld,\"par\":%ld,\"op\":\"%s\"", node_id, node_par, op);
    else
        printf("{\"e\":\"begin\",\"n\":%u,\"op\":\"%s\"", step_no, op);
}

static void end_step(int rc)
{
    unsigned int ii;

    printf("{\"e\":\"end\",\"n\":%ld,\"rc\":%d,", node_id >= 0 ? node_id : (long)step_no, rc);
    dump_tree();
    fputs(",\"hooks\":[", stdout);
    for (ii = 0; ii < n_hooks; ++ii) {
        if (ii)
            fputc(',', stdout);
        fputs(hook_log[ii], stdout);
        free(hook_log[ii]);
    }
    n_hooks = 0;
    fputs("]}\n", stdout);
    fflush(stdout);
}

static void do_register(int argc, char **argv)
{
    char *parent_path, *name;
    struct conf_node_object *parent;
    struct conf_node_base *node = NULL;
    const char *kind;
    int ii;

    if (argc < 3)
        die("register: too few arguments", NULL);
    kind = argv[1];
    split_path(argv[2], &parent_path, &name);
    parent = find_obj(parent_path);

    begin_line("reg");
    fputs(",\"p\":", stdout);
    begin_path(argv[2]);
    if (!strcmp(kind, "string")) {
        unsigned int sub;
        char *def;
        if (argc != 5)
            die("register string <path> <sub> <def>", NULL);
        for (sub = 0; sub < ARRAY_LENGTH(sub_names); ++sub)
            if (!strcmp(sub_names[sub], argv[3]))
                break;
        if (sub == ARRAY_LENGTH(sub_names))
            die("unknown subtype", argv[3]);
        def = tok_decode(argv[4]);
        fputs(",\"k\":\"s\",\"d\":[", stdout);
        json_tok(stdout, def);
        printf("],\"s\":\"%s\"}\n", sub_names[sub]);
        fflush(stdout);
        node = &conf_register_string(parent, sub, name, def)->base;
    } else if (!strcmp(kind, "inaddr")) {
        char *dh, *ds;
        if (argc != 5)
            die("register inaddr <path> <host> <service>", NULL);
        dh = tok_decode(argv[3]);
        ds = tok_decode(argv[4]);
        fputs(",\"k\":\"i\",\"d\":[", stdout);
        json_tok(stdout, dh);
        fputc(',', stdout);
        json_tok(stdout, ds);
        fputs("],\"s\":\"\"}\n", stdout);
        fflush(stdout);
        node = &conf_register_inaddr(parent, name, dh, ds)->base;
    } else if (!strcmp(kind, "list") || !strcmp(kind, "listsv")) {
        char *el[4] = { NULL, NULL, NULL, NULL };
        int n;
        if (argc < 4 || (n = atoi(argv[3])) < 0 || n > 4 || argc != 4 + n)
            die("register list <path> <n> <e1> .. <en>  (n <= 4)", NULL);
        fputs(",\"k\":\"l\",\"d\":[", stdout);
        for (ii = 0; ii < n; ++ii) {
            el[ii] = tok_decode(argv[4 + ii]);
            if (!el[ii])
                die("a list element cannot be NULL", NULL);
            if (ii)
                fputc(',', stdout);
            json_tok(stdout, el[ii]);
        }
        printf("],\"s\":\"\",\"via\":\"%s\"}\n", kind);
        fflush(stdout);
        if (!strcmp(kind, "listsv")) {
            struct string_vector sv;
            memset(&sv, 0, sizeof(sv));
            for (ii = 0; ii < n; ++ii)
                string_vector_append(&sv, el[ii]);
            node = &conf_register_string_list_sv(parent, name, &sv)->base;
            free(sv.vec);
        } else switch (n) {
        case 0: node = &conf_register_string_list(parent, name, NULL)->base; break;
        case 1: node = &conf_register_string_list(parent, name, el[0], NULL)->base; break;
        case 2: node = &conf_register_string_list(parent, name, el[0], el[1], NULL)->base; break;
        case 3: node = &conf_register_string_list(parent, name, el[0], el[1], el[2], NULL)->base; break;
        default: node = &conf_register_string_list(parent, name, el[0], el[1], el[2], el[3], NULL)->base; break;
        }
    } else if (!strcmp(kind, "object")) {
        struct conf_node_object *obj;
        if (argc != 3)
            die("register object <path>", NULL);
        fputs(",\"k\":\"o\",\"d\":[],\"s\":\"\"}\n", stdout);
        fflush(stdout);
        obj = conf_register_object(parent, name);
        node = &obj->base;
        if (n_objs >= MAXOBJ)
            die("too many objects", NULL);
        objs[n_objs].path = strdup(argv[2]);
        objs[n_objs].obj = obj;
        n_objs++;
    } else
        die("unknown kind", kind);
    /* "your harness installs hooks right after registering" */
    node->hook = hook_cb;
    end_step(0);
}

static void run_line(char *line)
{
    char *argv[MAXTOK];
    int argc = 0;
    char *rest = line;

    while (*rest == ' ')
        rest++;
    if (!*rest || *rest == '#')
        return;
    step_no++;
    if (!strncmp(rest, "load ", 5)) {
        char *file = rest + 5, *json;
        int rc;
        while (*file == ' ')
            file++;
        json = strchr(file, ' ');
        if (json)
            *json++ = '\0';
        begin_line("load");
        printf(",%s}\n", (json && *json) ? json : "\"f\":[]");
        fflush(stdout);
        rc = conf_read(file);
        end_step(rc);
        return;
    }
    for (argv[argc] = strtok(rest, " "); argv[argc] && argc + 1 < MAXTOK; argv[argc] = strtok(NULL, " "))
        argc++;
    if (!strcmp(argv[0], "dump")) {
        begin_line("dump");
        fputs("}\n", stdout);
        fflush(stdout);
        end_step(0);
    } else if (!strcmp(argv[0], "register")) {
        do_register(argc, argv);
    } else
        die("unknown command", argv[0]);
}

static void init_subject(void)
{
    ctype_init();
    log_set_verbosity(0);
    conf_get_root()->base.hook = hook_cb;
}

static char *read_all(FILE *f)
{
    size_t size = 1 << 16, used = 0, n;
    char *buf = malloc(size);
    while ((n = fread(buf + used, 1, size - used - 1, f)) > 0) {
        used += n;
        if (used + 1 >= size)
            buf = realloc(buf, size <<= 1);
    }
    buf[used] = '\0';
    return buf;
}

/* ---- tree mode --------------------------------------------------------------------------- */
struct tnode { long id, par; int depth; char *cmd; int end; /* index after the last descendant */ };
static struct tnode *tn;
static int n_tn;

static void run_children(int first, int last, int top);

/* executes node idx in this process, then its subtree */
static void run_subtree(int idx)
{
    node_id = tn[idx].id;
    node_par = tn[idx].par;
    run_line(tn[idx].cmd);
    run_children(idx + 1, tn[idx].end, 0);
}

/* the nodes of depth d = tn[first].depth in [first, last) are siblings: each starts from the state this
 * process is in now.  All but the last run in a forked copy; the last one may use this process itself
 * (nobody needs its state afterwards) unless this is the top process. */
static void run_children(int first, int last, int top)
{
    int c;

    for (c = first; c < last; c = tn[c].end) {
        pid_t pid;
        int status = 0;

        if (!top && tn[c].end == last) {
            run_subtree(c);
            return;
        }
        fflush(stdout);
        pid = fork();
        if (pid < 0)
            die("fork failed", NULL);
        if (pid == 0) {
            run_subtree(c);
            fflush(stdout);
            _exit(0);
        }
        while (waitpid(pid, &status, 0) < 0 && errno == EINTR)
            ;
        if (!WIFEXITED(status) || WEXITSTATUS(status) != 0) {
            printf("{\"e\":\"exit\",\"n\":%ld,\"st\":%d,\"sig\":%d}\n", tn[c].id,
                   WIFEXITED(status) ? WEXITSTATUS(status) : -1, WIFSIGNALED(status) ? WTERMSIG(status) : 0);
            fflush(stdout);
            if (WIFEXITED(status) && WEXITSTATUS(status) == 3)
                die("a child rejected its script", NULL);
        }
    }
}

static void tree_mode(char *all)
{
    char *line, *next;
    int cap = 1024, ii, jj;

    tn = malloc(cap * sizeof(*tn));
    for (line = all; line && *line; line = next) {
        long id, par;
        int depth, used = 0;
        next = strchr(line, '\n');
        if (next)
            *next++ = '\0';
        if (!*line)
            continue;
        if (sscanf(line, "node %ld %ld %d %n", &id, &par, &depth, &used) < 3 || !used)
            die("tree mode: expected 'node <id> <parent> <depth> <command>'", line);
        if (n_tn == cap)
            tn = realloc(tn, (cap <<= 1) * sizeof(*tn));
        tn[n_tn].id = id;
        tn[n_tn].par = par;
        tn[n_tn].depth = depth;
        tn[n_tn].cmd = line + used;
        n_tn++;
    }
    for (ii = 0; ii < n_tn; ++ii) {
        for (jj = ii + 1; jj < n_tn && tn[jj].depth > tn[ii].depth; ++jj)
            ;
        tn[ii].end = jj;
        if (ii + 1 < n_tn && tn[ii + 1].depth > tn[ii].depth + 1)
            die("tree mode: depth jumps", tn[ii + 1].cmd);
    }
    init_subject();
    run_children(0, n_tn, 1);
    fflush(stdout);
}

int main(int argc, char **argv)
{
    char *all, *line, *next;

    all = read_all(stdin);
    if (argc > 1 && !strcmp(argv[1], "-t")) {
        tree_mode(all);
        return 0;
    }
    init_subject();
    for (line = all; line && *line; line = next) {
        next = strchr(line, '\n');
        if (next)
            *next++ = '\0';
        run_line(line);
    }
    fflush(stdout);
    _exit(0);
}
