/* stubmod.c - stub iauthd module for C20 (module load / post-init / unload order).
 *
 * Compiled in four variants (ctx.build.stubmod(variant)): with all three entry points, without
 * module_post_init (-DNO_POSTINIT), without module_destructor (-DNO_DTOR), without both -- the two
 * hooks are optional in the real project and src/module.c has its own paths for modules that
 * lack them.  Each variant is COPIED once per module name (m1 ... m6), so that every copy has
 * its own inode, statics and dlopen handle.  The daemon under test is the real iauthd-c; the
 * subject is src/module.c.  Nothing here judges anything: the stub only declares what its
 * dependency file says and records that its entry points were called.
 *
 * Environment:
 *   VERIF_MODDEPS  file with one line per module:  "<name>: <item> <item> ..."; the constructor
 *                  of <name> walks its items in order:
 *                      dep      module_depends("dep", NULL)
 *                      ~dep     module_antidepends("dep", NULL)   (not part of C20's contract)
 *                      !        module_is_backend()               (not part of C20's contract)
 *   VERIF_MODLOG   event log, one ndjson line per event, each written with a single
 *                  write(2) on an O_APPEND descriptor:
 *                      {"e":"ctor-begin","m":"m1"}  {"e":"ctor-end","m":"m1"}
 *                      {"e":"post-init","m":"m1"}   {"e":"dtor","m":"m1"}
 *                      {"e":"running"}
 *   VERIF_MODSTOP  if set: the first constructor of the process arms a zero-delay libevent timer
 *                  (from the constructor, because a case may have no module with a post-init;
 *                  main() creates ev_base before it loads any module).
 *                  Its callback can only run inside main()'s event_base_dispatch(), i.e. after
 *                  start-up has completed and the signal handlers are installed; it logs
 *                  "running" and sends the daemon its own documented clean-stop signal
 *                  (SIGHUP), so that a daemon without the iauth module (which would otherwise
 *                  run forever) shuts down through the normal exit path and runs the
 *                  destructors.
 */
#include <fcntl.h>
#include <signal.h>
#include <stdio.h>
#include <stdlib.h>
#include <string.h>
#include <sys/time.h>
#include <unistd.h>
#include <event2/event.h>

struct module;
void module_depends(const char *name, ...);
void module_antidepends(const char *name, ...);
void module_is_backend(void);
const char *module_get_name(const struct module *mod);
extern struct event_base *ev_base;

static char self_name[64];

static void ev(const char *what, const char *n)
{
    char buf[160];
    const char *path = getenv("VERIF_MODLOG");
    int fd, len;

    if (!path)
        return;
    if (n)
        len = snprintf(buf, sizeof buf, "{\"e\":\"%s\",\"m\":\"%s\"}\n", what, n);
    else
        len = snprintf(buf, sizeof buf, "{\"e\":\"%s\"}\n", what);
    fd = open(path, O_WRONLY | O_APPEND | O_CREAT, 0644);
    if (fd < 0)
        return;
    if (write(fd, buf, len) != len)
        _exit(97);
    close(fd);
}

static void running_cb(evutil_socket_t fd, short what, void *arg)
{
    (void)fd; (void)what; (void)arg;
    ev("running", NULL);
    kill(getpid(), SIGHUP);
}

__attribute__((visibility("default"))) void module_constructor(const char *name)
{
    FILE *f;
    char line[512];

    strncpy(self_name, name, sizeof(self_name) - 1);
    ev("ctor-begin", name);
    if (getenv("VERIF_MODSTOP") && !getenv("VERIF_MODSTOP_ARMED")) {
        struct timeval tv = { 0, 0 };
        setenv("VERIF_MODSTOP_ARMED", "1", 1);      /* process-wide: the copies share no statics */
        event_base_once(ev_base, -1, EV_TIMEOUT, running_cb, NULL, &tv);
    }
    f = fopen(getenv("VERIF_MODDEPS") ? getenv("VERIF_MODDEPS") : "/nonexistent", "r");
    while (f && fgets(line, sizeof line, f)) {
        char *c = strchr(line, ':'), *sv, *t;
        if (!c)
            continue;
        *c = 0;
        if (strcmp(line, name))
            continue;
        /* constructors nest (module_depends loads the dependency): strtok_r, own buffer */
        for (t = strtok_r(c + 1, " \n", &sv); t; t = strtok_r(NULL, " \n", &sv)) {
            if (!strcmp(t, "!"))
                module_is_backend();
            else if (t[0] == '~')
                module_antidepends(strdup(t + 1), NULL);   /* the loader keeps the pointer */
            else
                module_depends(strdup(t), NULL);
        }
        break;
    }
    if (f)
        fclose(f);
    ev("ctor-end", name);
}

#ifndef NO_POSTINIT
__attribute__((visibility("default"))) void module_post_init(struct module *self)
{
    /* like the destructor: the event names the module whose code this is (the name its own
     * constructor was given), so that "its post-init ran" means this module's entry point */
    (void)self;
    ev("post-init", self_name);
}
#endif

#ifndef NO_DTOR
__attribute__((visibility("default"))) void module_destructor(void)
{
    ev("dtor", self_name);
}
#endif
