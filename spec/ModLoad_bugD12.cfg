\* C20: model mutant: module_dfs() as before commit 47cba46; TLC must report B_StartsComplete (diamond)
SPECIFICATION Spec
CONSTANTS
    Source = "enum"
    MaxN = 4
    SelfLoops = FALSE
    DepOrders = "asc"
    WithMissing = FALSE
    WithAnti = FALSE
    Bug = "D12"
INVARIANTS
    TypeOK RdependsMirrorsDepends SetEmptyAtExit NoGhostInGoodCase
    B_CtorOnce B_DepsConstructedFirst B_PostInitOnce B_PostInitAfterDeps B_DtorBeforeDeps
    B_StartsComplete B_StopsClean B_AbortsWithError B_NeverRunsPartial
