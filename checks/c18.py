"""C18 - log routing follows the logs section (src/log.c driven through src/config.c).

Pipeline (see docs/BUILDER_GUIDE.md):
  1. TLC model-checks spec/LogRoute.tla (implementation-shaped rescan/merge/refcount model B against the
     declarative Route of the contract) over several small universes and prints one behaviour (a sequence
     of (re)loads) per explored reload transition.
  2. Every behaviour is rendered to configuration files and replayed on the real code through
     harness/h_log.c (conf_read = the real reload path incl. hook delivery); after every load one uniquely
     numbered probe message per (facility, severity) is emitted.
  3. The destination files are read back and turned into an ndjson trace (per probe: the files that
     contain it; per file: lines that are not complete / well-formed).
  4. TLC validates the trace against spec/LogTrace.tla.  Only a C18_* conjunct (or a step that did not
     complete) rejected there - and rejected again on a fresh run - is a VIOLATION.  B_* is drift.

Python only renders inputs, moves bytes, splits lines into fields and counts.
"""
import json
import multiprocessing
from vlib import core as _core
import os
import re
import shutil
import subprocess
import threading
import time

from vlib import core

LEVEL = "model_checking"
TITLE = "log routing follows the logs section; reloads leave only the new section's routing"

SPEC = os.path.join(os.path.dirname(os.path.dirname(os.path.abspath(__file__))), "spec")
SEVS = ["debug", "command", "info", "warning", "error", "fatal"]
LINE_RE = re.compile(rb"\[\d\d:\d\d:\d\d \d\d/\d\d/\d{4}\] \(([^:()\s]+):([^:()\s]+)\) (.*)")
PROBE_RE = re.compile(rb"probe (\d+)( x*)?")
# every 7th probe is a long record: its text is padded so that the record ends just below / at / beyond the 1 KiB
# message buffer of log_vmessage() ("every line written is complete": a record that loses its newline swallows the next)
LONG_LENS = (900, 960, 985, 1000, 1015, 1023, 1024, 1100)
POISON = "file:poison.log"

# ------------------------------------------------------------------------------------------------
# rendering (inputs only)


def q(s):
    """A quoted configuration string."""
    return '"' + s.replace("\\", "\\\\").replace('"', '\\"') + '"'


def render_section(sec, closing=True):
    out = ["misc { k v }", "logs {"]
    for e in sec:
        if e["kind"] == "s":
            out.append("    %s %s" % (q(e["name"]), q(e["dests"][0])))
        else:
            out.append("    %s ( %s )" % (q(e["name"]), ", ".join(q(d) for d in e["dests"])))
    if closing:
        out.append("}")
    return "\n".join(out) + "\n"


def render_load(ld):
    if ld["mode"] == "sec":
        return render_section(ld["sec"])
    if ld["mode"] == "nosec":
        return "misc { k v }\n"
    # "bad": a syntactically broken file whose logs section - if it leaked into the routing - would send
    # every message to poison.log
    v = ld.get("variant", 0) % 3
    poison = [{"name": "*.*", "kind": "s", "dests": [POISON]}]
    if v == 0:
        return render_section(poison, closing=False)                      # premature end of file
    if v == 1:
        return 'misc { k v }\nlogs {\n    "*.*" ( %s %s )\n}\n' % (q(POISON), q(POISON))   # missing comma
    return 'misc { k v }\nlogs {\n    "*.*" %s\n}\n)\n' % q(POISON)       # stray token at top level


def file_of(dest):
    assert dest.startswith("file:")
    return os.path.normpath(dest[5:])


def all_dests(h):
    ds = {POISON}
    for ld in h["loads"]:
        for e in ld.get("sec", []):
            ds.update(e["dests"])
    for _, t in h.get("def", []):
        ds.add(t)
    return sorted(ds)


def codes(s):
    return list(s.encode("latin-1"))


# ------------------------------------------------------------------------------------------------
# one history on the real code

def run_history(args):
    """Replay one history through h_log in its own directory; return (trace lines, steps, info)."""
    harness, hdir, h = args
    if os.path.exists(hdir):
        shutil.rmtree(hdir)
    os.makedirs(hdir)
    for d in all_dests(h):                      # sub-directories named by destinations
        sub = os.path.dirname(os.path.join(hdir, file_of(d)))
        os.makedirs(sub, exist_ok=True)
    script = []
    for f in h.get("prereg", []):
        script.append("reg %s" % f)
    for f, t in h.get("def", []):
        script.append("regdef %s %s" % (f, t))
    pid = 0
    emitted = {}                                # probe id -> (load index, fac, sev)
    grids = []
    for i, ld in enumerate(h["loads"]):
        with open(os.path.join(hdir, "c%d.conf" % i), "w", encoding="latin-1") as f:
            f.write(render_load(ld))
        script.append("load c%d.conf" % i)
        grid = h.get("grid") or [[f, s] for f in h["facs"] for s in range(1, 7)]
        row = []
        for fac, sev in grid:
            pid += 1
            emitted[pid] = (i, fac, sev)
            row.append(pid)
            script.append("emit %s %d %d" % (fac, sev - 1, pid) if pid % 7 != 3 else
                          "emit %s %d %d %d" % (fac, sev - 1, pid, LONG_LENS[(pid // 7) % len(LONG_LENS)]))
        grids.append(row)
    script.append("quit")
    env = dict(os.environ)
    env["ASAN_OPTIONS"] = "detect_leaks=0:abort_on_error=0:exitcode=23"   # leaks on parse errors are C14 business
    env["UBSAN_OPTIONS"] = "print_stacktrace=1"
    try:
        p = subprocess.run([harness], cwd=hdir, input=("\n".join(script) + "\n").encode("latin-1"),
                           stdout=subprocess.PIPE, stderr=subprocess.PIPE, env=env, timeout=60)
        rc, so, se = p.returncode, p.stdout, p.stderr
    except subprocess.TimeoutExpired as e:
        rc, so, se = -999, e.stdout or b"", b"TIMEOUT (hang) " + (e.stderr or b"")
    # harness events
    ends = {}
    begun = 0
    loads_rc = []
    emit_child = {}
    for line in so.decode("latin-1").splitlines():
        try:
            ev = json.loads(line)
        except ValueError:
            continue
        if ev.get("e") == "begin":
            begun = ev["n"]
        elif ev.get("e") == "end":
            ends[ev["n"]] = ev
            if ev["cmd"] == "load":
                loads_rc.append(ev["rc"])
            elif ev["cmd"] == "emit" and "child" in ev:
                emit_child[ev["id"]] = ev["child"]
    complete = (rc == 0 and begun in ends and ends[begun]["cmd"] == "quit" and len(loads_rc) == len(h["loads"]))
    # destination files -> per probe hits, malformed lines, other lines
    hits = {}
    malformed = []
    others = set()
    stray = []
    for root, _, files in os.walk(hdir):
        for fn in files:
            if not fn.endswith(".log"):
                continue
            rel = os.path.normpath(os.path.relpath(os.path.join(root, fn), hdir))
            with open(os.path.join(root, fn), "rb") as f:
                data = f.read()
            lines = data.split(b"\n")
            if lines and lines[-1] == b"":
                lines.pop()
            elif lines:
                malformed.append({"file": rel, "bytes": list(lines.pop()[:120]), "why": "no newline"})
            for ln in lines:
                m = LINE_RE.fullmatch(ln)
                if not m:
                    malformed.append({"file": rel, "bytes": list(ln[:120]), "why": "shape"})
                    continue
                pm = PROBE_RE.fullmatch(m.group(3))
                if pm:
                    n = int(pm.group(1))
                    if n in emitted:
                        hits.setdefault(n, []).append({"file": rel, "fac": list(m.group(1)), "sev": list(m.group(2))})
                    else:
                        stray.append(n)
                else:
                    others.add((m.group(1), m.group(2)))
    fileof = {d: file_of(d) for d in all_dests(h)}
    tl = [{"e": "Reset", "prereg": [codes(f) for f in h.get("prereg", [])],
           "def": [{"fac": codes(f), "target": t} for f, t in h.get("def", [])], "fileof": fileof}]
    steps = 0
    for i, ld in enumerate(h["loads"]):
        if i >= len(loads_rc):
            break
        sec = [{"name": codes(e["name"]), "kind": e["kind"], "dests": e["dests"]} for e in ld.get("sec", [])] \
            if ld["mode"] == "sec" else []
        tl.append({"e": "Load", "rc": loads_rc[i], "mode": ld["mode"], "sec": sec})
        steps += 1
        row = []
        for n in grids[i]:
            _, fac, sev = emitted[n]
            row.append({"fac": codes(fac), "sev": sev, "id": n, "hits": hits.get(n, [])})
        tl.append({"e": "Probes", "p": row})
        steps += len(row)
    info = None
    if complete:
        tl.append({"e": "End", "malformed": malformed, "stray": sorted(stray),
                   "others": [{"fac": list(a), "sev": list(b)} for a, b in sorted(others)]})
    else:
        info = {"rc": rc, "stderr": se.decode("latin-1", "replace")[-3000:], "stdout_tail": so.decode("latin-1")[-400:]}
        tl.append({"e": "Crash", "rc": rc})
    if not os.environ.get("VERIF_KEEP"):
        shutil.rmtree(hdir, ignore_errors=True)
    for n, x in enumerate(tl):
        x["n"] = n
    return [json.dumps(x, separators=(",", ":")) for x in tl], steps, info


# ------------------------------------------------------------------------------------------------
# TLC: model runs and behaviour emission

UNIVERSES = {
    # name: (cfg, prereg, default targets, probe facilities)
    "q":  ("LogRoute_q.cfg", ["modx"], [], ["core", "modx", "*"]),
    "t":  ("LogRoute_t.cfg", ["modx"], [], ["core", "modx", "*"]),
    "t3": ("LogRoute_t3.cfg", ["modx"], [], ["core", "modx", "*"]),
    "d":  ("LogRoute_d.cfg", ["modd"], [["modd", "file:d.log"]], ["modd", "core", "*"]),
    "s1": ("LogRoute_s1.cfg", ["modx"], [], ["modx", "core"]),
    "s2": ("LogRoute_s2.cfg", ["modx"], [], ["modx", "core"]),
    "s3": ("LogRoute_s3.cfg", ["modx"], [], ["modx", "core"]),
}


def model_run(ctx, uni, sample_k, workers, timeout):
    """Exhaustive TLC run of one universe; returns (TLCResult, [history])."""
    cfg, prereg, deft, facs = UNIVERSES[uni]
    with open(os.path.join(SPEC, cfg)) as f:
        text = f.read()
    text = re.sub(r"SampleK = \d+", "SampleK = %d" % sample_k, text)
    text = re.sub(r"SampleR = \d+", "SampleR = %d" % (ctx.seed % sample_k), text)
    rcfg = os.path.join(ctx.scratch, "mc_%s.cfg" % uni)
    with open(rcfg, "w") as f:
        f.write(text)
    outp = os.path.join(ctx.scratch, "mc_%s.out" % uni)
    r = ctx.tlc("MCLogRoute", rcfg, workers=workers, timeout=timeout, coverage=False, stdout_path=outp,
                heap="6g")
    if not r.ok:
        raise core.MachineryError("model-only run of LogRoute (%s) reports %s - the specification is wrong, "
                                  "not the code:\n%s" % (uni, r.violated, r.violation_text[:3000]))
    hs = []
    with open(outp, errors="replace") as f:
        for line in f:
            if not line.startswith('"@@E'):
                continue
            evs = json.loads(json.loads(line)[3:])
            loads = []
            for k, ev in enumerate(evs):
                if ev["e"] == "load":
                    loads.append({"mode": "sec", "sec": [{"name": bytes(x["name"]).decode("latin-1"), "kind": x["kind"],
                                                          "dests": list(x["dests"])} for x in ev["sec"]]})
                elif ev["e"] == "nosec":
                    loads.append({"mode": "nosec"})
                else:
                    loads.append({"mode": "bad", "variant": k + len(hs)})
            hs.append({"src": uni, "prereg": prereg, "def": deft, "facs": facs, "loads": loads})
    os.unlink(outp)
    return r, hs


# ------------------------------------------------------------------------------------------------
# replay + validation

def replay_all(ctx, hs, tag, procs=16):
    """Run every history on the real code; returns list of (lines, steps, info) in order."""
    harness = ctx.build.harness("h_log")
    base = os.path.join(ctx.scratch, "h-" + tag)
    os.makedirs(base, exist_ok=True)
    args = [(harness, os.path.join(base, "%d" % i), h) for i, h in enumerate(hs)]
    if len(args) <= 4:
        return [run_history(a) for a in args]
    return _core.pool_map(run_history, args, procs, chunksize=max(1, min(64, len(args) // (procs * 4))))


CONTRACT = ("C18_Exactly", "C18_Attributed", "C18_Complete", "NotStuck")


def validate(ctx, results, tag, chunk_lines=40000, par=8):
    """TLC trace validation of the recorded histories, in chunks.  Returns a list of rejections
    (history index, invariant name, trace line number within the history)."""
    chunks = []
    cur, n = [], 0
    for idx, (lines, _, _) in enumerate(results):
        cur.append(idx)
        n += len(lines)
        if n >= chunk_lines:
            chunks.append(cur)
            cur, n = [], 0
    if cur:
        chunks.append(cur)
    rejections = []
    lock = threading.Lock()
    errors = []

    def work(ci, members):
        try:
            members = list(members)
            for _round in range(12):                      # every rejection is cut out and the rest re-validated
                if not members:
                    return
                path = os.path.join(ctx.scratch, "trace-%s-%d.ndjson" % (tag, ci))
                owner = []
                with open(path, "w") as f:
                    for idx in members:
                        for k, ln in enumerate(results[idx][0]):
                            f.write(ln + "\n")
                            owner.append((idx, k))
                r = ctx.tlc("LogTrace", "LogTrace.cfg", workers=1, timeout=900, env={"TRACE": path}, heap="3g")
                if r.ok:
                    if r.distinct != len(owner) + 1:
                        raise core.MachineryError("trace validation consumed %d of %d lines (%s)"
                                                  % (r.distinct - 1, len(owner), path))
                    with lock:
                        ctx.cov["traces_validated_against_impl"] += len(members)
                    os.unlink(path)
                    return
                m = None
                for m in re.finditer(r"/\\ l = (\d+)", r.output):
                    pass
                if m is None or r.violated is None:
                    raise core.MachineryError("cannot locate the rejected trace line:\n" + r.output[-3000:])
                lno = int(m.group(1))
                # state invariants look at the line just consumed (l - 1); NotStuck at the line l itself
                at = lno if r.violated in ("NotStuck", "Sane_Seq") else lno - 1
                at = min(at, len(owner))
                idx, k = owner[at - 1]
                with lock:
                    rejections.append((idx, r.violated, k))
                    ctx.cov["traces_validated_against_impl"] += members.index(idx)
                if r.violated.startswith("eval-error") or r.violated in ("error", "deadlock", "postcondition"):
                    raise core.MachineryError("TLC could not evaluate the trace spec:\n" + r.violation_text[:3000])
                members = members[members.index(idx) + 1:]
                if not os.environ.get("VERIF_KEEP"):
                    os.unlink(path)
        except Exception as e:   # noqa
            with lock:
                errors.append(e)

    threads = []
    sem = threading.Semaphore(par)

    def guarded(ci, members):
        with sem:
            work(ci, members)

    for ci, members in enumerate(chunks):
        t = threading.Thread(target=guarded, args=(ci, members))
        t.start()
        threads.append(t)
    for t in threads:
        t.join()
    if errors:
        raise errors[0]
    return rejections


def sec_text(ld):
    if ld["mode"] != "sec":
        return "<" + ld["mode"] + ">"
    return "{" + "; ".join("%s=%s" % (e["name"], ",".join(e["dests"]) if e["kind"] == "s" else "(" + ",".join(e["dests"]) + ")")
                           for e in ld["sec"]) + "}"


def signature(h, conj):
    g = h.get("grid")
    probe = " probe=" + "/".join("%s.%s" % (f, SEVS[s - 1]) for f, s in g) if g else ""
    reg = " def=" + ",".join("%s:%s" % (f, t) for f, t in h["def"]) if h.get("def") else ""
    return conj + ": " + " -> ".join(sec_text(ld) for ld in h["loads"]) + probe + reg


def check_one(ctx, h, tag):
    """Fresh run + validation of a single history; returns (invariant or None, line index, info)."""
    res = replay_all(ctx, [h], tag)
    rej = validate(ctx, res, tag)
    if rej:
        return rej[0][1], rej[0][2], res[0][2]
    return None, None, None


def shrink(ctx, h, conj, k):
    """Smaller history that is still rejected with the same conjunct: cut after the failing load, drop
    leading loads, then a single probe."""
    def fails(c):
        v, kk, info = check_one(ctx, c, "shrink")
        return (v == conj), kk, info

    # trace lines of a history: Reset, then (Load, Probes) per load, then End/Crash
    nload = len(h["loads"])
    if conj in ("C18_Complete", "NotStuck") or k is None:
        fl = nload - 1
    else:
        fl = max(0, min(nload - 1, (k - 1) // 2))
    best = dict(h, loads=h["loads"][:fl + 1])
    ok, _, info = fails(best)
    if not ok:
        return h, None
    for start in range(fl, -1, -1):                       # fewest leading loads first
        if start == 0:
            break
        c = dict(best, loads=best["loads"][start:])
        ok2, _, info2 = fails(c)
        if ok2:
            best, info = c, info2
            break
    if conj in ("C18_Exactly", "C18_Attributed"):
        grid = best.get("grid") or [[f, s] for f in best["facs"] for s in range(1, 7)]
        for f, s in grid:
            c = dict(best, grid=[[f, s]])
            ok2, _, info2 = fails(c)
            if ok2:
                best, info = c, info2
                break
    return best, info


def handle_rejections(ctx, hs, rejections, tag):
    """Re-run every rejected history on a fresh process; report what is rejected again."""
    seen = 0
    for idx, conj, k in rejections:
        h = hs[idx]
        if conj.startswith("B_"):
            ctx.drift("real code differs from the implementation-shaped LogRoute spec (%s)" % conj,
                      {"history": h, "line": k})
            continue
        if conj.startswith("Sane_"):
            raise core.MachineryError("%s: a configuration file rendered as valid did not load / a broken one did, or "
                                      "the assembled trace is not contiguous: %s" % (conj, json.dumps(h)[:2000]))
        if seen >= 6:
            continue
        seen += 1
        v, kk, info = check_one(ctx, h, tag + "-again")
        if v != conj:
            ctx.note("rejection (%s) of %s not reproduced on a fresh run (got %s)" % (conj, signature(h, conj), v))
            if v is None:
                continue
            conj, k = v, kk
            if conj.startswith("B_") or conj.startswith("Sane_"):
                continue
        small, info2 = shrink(ctx, h, conj, k)
        what = {"C18_Exactly": "a probe message is not in exactly the files the current logs section maps its "
                               "(facility, severity) to",
                "C18_Attributed": "a written line names another facility or severity than the message had",
                "C18_Complete": "a destination file contains an incomplete / malformed line or a stray message",
                "NotStuck": "a step did not complete on the real code (crash, sanitizer abort or hang)"}[conj]
        ctx.violation(what, conj, signature(small, conj), {"history": small, "original": h,
                                                           "diagnostics": info2 or info})


# ------------------------------------------------------------------------------------------------
# seed-random histories (thorough, a few in quick): more entries, case variants, aliases of one file,
# facilities first seen in a section, every edit kind between consecutive sections

R_FACS = ["core", "modx", "*", "modz", "config"]
R_DESTS = ["file:a.log", "file:b.log", "file:c.log", "file:./a.log", "file:sub/c.log", "file:.//b.log"]
R_BADWORDS = ["warn", "inf0", "notice", "", "*", "all", "info error"]


def rnd_case(rng, s):
    m = rng.randrange(4)
    return s if m < 2 else s.upper() if m == 2 else s.capitalize()


def rnd_name(rng):
    r = rng.random()
    if r < 0.07:
        return rng.choice(["nodot", "core", "modx:info", "core,info"])
    fac = rng.choice(R_FACS)
    if fac in ("core", "modx", "config"):
        fac = rnd_case(rng, fac)
    if r < 0.17:
        return fac + ".*"
    comps = []
    for _ in range(rng.choice([1, 1, 1, 2, 2, 3])):
        op = rng.choice(["", "", "=", "<", "<=", ">=", ">"])
        comps.append(op + rnd_case(rng, rng.choice(SEVS)))
    if rng.random() < 0.12:
        comps[rng.randrange(len(comps))] = rng.choice(["", "=", ">=", "<"]) + rng.choice(R_BADWORDS)
    return fac + "." + ",".join(comps)


def rnd_value(rng):
    if rng.random() < 0.5:
        return "s", [rng.choice(R_DESTS)]
    return "l", [rng.choice(R_DESTS) for _ in range(rng.choice([0, 1, 1, 2, 2, 3]))]


def key_of(e):
    return (e["name"].lower(), e["kind"])


def rnd_section(rng, n):
    sec, keys = [], set()
    for _ in range(n):
        kind, dests = rnd_value(rng)
        e = {"name": rnd_name(rng), "kind": kind, "dests": dests}
        if key_of(e) in keys:
            continue
        keys.add(key_of(e))
        sec.append(e)
    return sec


def rnd_edit(rng, sec):
    """The next section: one or two edits of the current one (every edit kind of the reload path)."""
    sec = [dict(e) for e in sec]
    for _ in range(rng.choice([1, 1, 2])):
        kind = rng.choice(["value", "value", "type", "add", "remove", "both", "case", "reorder"])
        if kind == "add" or not sec:
            sec = sec + rnd_section(rng, 1)
        elif kind == "remove":
            sec.pop(rng.randrange(len(sec)))
        elif kind == "reorder":
            rng.shuffle(sec)
        else:
            e = sec[rng.randrange(len(sec))]
            if kind == "value":                       # in place: string -> string, list -> list
                while True:
                    k2, d2 = rnd_value(rng)
                    if k2 == e["kind"]:
                        break
                e["dests"] = d2
            elif kind == "type":                      # string <-> list: one node removed, another added
                e["kind"] = "l" if e["kind"] == "s" else "s"
                e["dests"] = e["dests"][:1] or [rng.choice(R_DESTS)]
            elif kind == "both":
                e["kind"], e["dests"] = rnd_value(rng)
                e["name"] = rnd_name(rng)
            elif kind == "case":
                e["name"] = e["name"].swapcase()
    out, keys = [], set()
    for e in sec:
        if key_of(e) not in keys:
            keys.add(key_of(e))
            out.append(e)
    return out


def rnd_history(rng):
    loads = []
    sec = rnd_section(rng, rng.choice([1, 2, 2, 3, 4]))
    loads.append({"mode": "sec", "sec": sec})
    for k in range(2):
        r = rng.random()
        if r < 0.12:
            loads.append({"mode": "nosec"})
            sec = []
        elif r < 0.24:
            loads.append({"mode": "bad", "variant": rng.randrange(3)})
        elif r < 0.34:
            sec = rnd_section(rng, rng.choice([1, 2, 3]))
            loads.append({"mode": "sec", "sec": sec})
        else:
            sec = rnd_edit(rng, sec)
            loads.append({"mode": "sec", "sec": sec})
    return {"src": "rand", "prereg": ["modx"], "def": [], "facs": R_FACS, "loads": loads}


# ------------------------------------------------------------------------------------------------

def hist_key(h):
    return json.dumps([h["loads"], h.get("def")], sort_keys=True)


def run(ctx):
    quick = ctx.tier == "quick"
    t0 = time.time()
    ctx.build                                   # build first (shared, cached)
    harness = ctx.build.harness("h_log")
    # -- 1. exhaustive model runs + behaviour emission (in parallel) ---------------------------------
    plan = ([("q", 25, 6), ("s2", 1, 4), ("d", 40, 4)] if quick
            else [("t", 4, 8), ("t3", 6, 6), ("s3", 1, 8), ("d", 1, 4), ("q", 1, 4)])
    out = {}
    errs = []

    def mc(uni, k, w):
        try:
            out[uni] = model_run(ctx, uni, k, w, 840)
        except Exception as e:   # noqa
            errs.append(e)

    ths = [threading.Thread(target=mc, args=p) for p in plan]
    for t in ths:
        t.start()
    for t in ths:
        t.join()
    if errs:
        raise errs[0]
    hs = []
    for uni, k, _ in plan:
        r, hh = out[uni]
        ctx.model_checked(r)
        ctx.cov["model_%s" % uni] = {"distinct": r.distinct, "generated": r.generated, "depth": r.depth,
                                     "behaviours_replayed": len(hh), "sample": "1/%d" % k}
        if not hh:
            raise core.MachineryError("universe %s produced no behaviour" % uni)
        hs += hh
    ctx.cov["exhaustive"] = True
    ctx.note("model checking: %s  (%.0fs)" % (", ".join("%s %d/%d" % (u, out[u][0].distinct, out[u][0].generated)
                                                          for u, _, _ in plan), time.time() - t0))
    # -- 2. seed-random histories ------------------------------------------------------------------------
    nrand = 1500 if quick else 60000
    hs += [rnd_history(ctx.rng) for _ in range(nrand)]
    # -- 3. replay on the real code ----------------------------------------------------------------------
    t1 = time.time()
    results = replay_all(ctx, hs, "main")
    steps = sum(r[1] for r in results)
    ctx.cov["evaluations"] = steps
    ctx.cov["histories_replayed"] = len(hs)
    ctx.cov["distinct_nontrivial"] = len({hist_key(h) for h in hs if any(ld["mode"] == "sec" and ld["sec"] for ld in h["loads"])})
    ctx.cov["rule"] = ("distinct sequences of loaded configuration files (section texts, no-section and broken "
                       "files) with at least one non-empty logs section; each followed by the full probe grid "
                       "facility x 6 severities after every load")
    ctx.note("replayed %d histories, %d steps on the real code (%.0fs)" % (len(hs), steps, time.time() - t1))
    for h in (hs[0], hs[len(hs) // 3], hs[-1]):
        ctx.sample({"src": h["src"], "loads": [sec_text(ld) for ld in h["loads"]]})
    # -- 4. trace validation (the oracle) ----------------------------------------------------------------
    t2 = time.time()
    rejections = validate(ctx, results, "main")
    ctx.note("trace validation: %d histories, %d rejected (%.0fs)" % (len(hs), len(rejections), time.time() - t2))
    handle_rejections(ctx, hs, rejections, "main")
    ctx.assumptions += [
        "destinations are file: targets that can be opened, in a writable scratch directory; destination names "
        "that differ only in letter case are not generated",
        "'written' = at least once (a facility entry and a * entry naming one file duplicate the line)",
        "probe messages are emitted after a reload has finished; the rescan's own 'Attaching'/'Releasing' lines "
        "only have to be complete and attributed",
        "fatal probes are emitted from a forked child (log_vmessage _exit(1)s after writing)",
        "log verbosity 0 (nothing on stdout); verbose_timestamp is not part of generated sections",
        "facilities with a default target are outside C18's text: checked against the implementation-shaped "
        "spec only (drift, not violation)",
    ]


def replay(ctx, body):
    h = body["replay"]["history"]
    conj = body["conjunct"]
    v, k, info = check_one(ctx, h, "replay")
    if v is None:
        ctx.note("replay: the history is accepted now")
        return
    if v.startswith("B_"):
        ctx.drift("replay: %s" % v, {"history": h})
        return
    ctx.violation(body.get("what", "replayed violation"), v, signature(h, v), {"history": h, "diagnostics": info})
